"""C08 — `copia bisync` killed immediately before its k-th file-system-mutating call, for every k.

Per scenario: (1) an uninterrupted reference run under `strace` gives the ordered list of mutating
calls (compared, as a sequence, with the step list of the Lean micro-step model: trace conformance)
and the final state; (2) for every k the run is repeated from the same pre-state and killed
before its k-th call (the k-th event of the reference trace is addressed as "the j-th invocation of
syscall s", which is how strace's injection counts); the post-kill state is checked against the
prefix predicates; (3) recovery runs must reach the uninterrupted result without losing a version.
"""
import json, os, re, shutil, subprocess
from bbox import Sandbox, Rng, blake3_hex, hexs, CLI_BIN, HOST
import bb_bisync as BB

SET = "openat,creat,write,pwrite64,copy_file_range,sendfile,fsync,fdatasync,rename,renameat,renameat2,unlink,unlinkat,mkdir,mkdirat,truncate,ftruncate"

SCENARIOS = {
    # name: (base A, base B, [modifications after the base sync], with_archive)
    "create-A-to-B": ({"keep": b"k"}, {"keep": b"k"}, [("w", "A", "p", b"new file\n"), ("w", "A", "d/r", b"nested " * 40)], True),
    "propagate-B-to-A": ({"p": b"v1\n", "q": b"same"}, {"p": b"v1\n", "q": b"same"}, [("w", "B", "p", b"v2 from B\n" * 30)], True),
    "delete-A-to-B": ({"p": b"v1\n", "q": b"same"}, {"p": b"v1\n", "q": b"same"}, [("d", "A", "p")], True),
    "delete-B-to-A": ({"p": b"v1\n", "d/r": b"x"}, {"p": b"v1\n", "d/r": b"x"}, [("d", "B", "d/r")], True),
    "both-changed-conflict": ({"p": b"base\n"}, {"p": b"base\n"}, [("w", "A", "p", b"edit on A\n"), ("w", "B", "p", b"edit on B, longer\n")], True),
    "delete-vs-modify": ({"p": b"base\n", "q": b"q"}, {"p": b"base\n", "q": b"q"}, [("d", "A", "p"), ("w", "B", "p", b"modified on B\n")], True),
    "first-run-no-archive": ({"a1": b"only A", "c": b"left"}, {"b1": b"only B", "c": b"right!"}, [], False),
    "several-at-once": ({"p": b"1", "q": b"2", "r": b"3", "s/t": b"4"}, {"p": b"1", "q": b"2", "r": b"3", "s/t": b"4"},
                        [("w", "A", "p", b"1a"), ("d", "B", "q"), ("w", "B", "r", b"3b" * 100), ("w", "A", "new", b"n"), ("w", "A", "s/t", b"4a"), ("w", "B", "s/t", b"4b")], True),
    # the archive still records a conflict copy that was since removed from BOTH sides (no run in between), and the
    # same divergent edit happens again: the run writes that very name again (D16: a crash after the first of the two
    # conflict copies made the recovery run read "unchanged since the base, deleted on the other side" and delete it)
    "repeat-conflict-stale-record": ({"f": b"base\n", "k": b"k"}, {"f": b"base\n", "k": b"k"},
                        [("w", "A", "f", b"aaa\n"), ("w", "B", "f", b"bbb\n"), ("s",), ("dg", "A", "f.conflict-"), ("dg", "B", "f.conflict-"),
                         ("w", "A", "f", b"aaa\n"), ("w", "B", "f", b"x1\n")], True),
}


def snapshot(sb, A, B):
    ta = sb.read_tree(A); tb = sb.read_tree(B)
    adir = os.path.join(sb.home, ".copia", "archive")
    arch = {f: open(os.path.join(adir, f), "rb").read() for f in (os.listdir(adir) if os.path.isdir(adir) else [])}
    return ta, tb, arch


def nonstaging(t):
    return {k: v for k, v in t.items() if not k.endswith(".copia-tmp")}


def parse_trace(log, A, B, home):
    """-> (events [(syscall, line)], model-level step tokens, ordering facts)"""
    ev, toks = [], []
    fds = {}
    synced = set()
    facts = {"unsynced_publish": [], "record_before_data": False, "arch_published": False}
    main_pid = None
    for ln in open(log, errors="replace"):
        m = re.match(r"^(\d+)\s+(\w+)\((.*)\)\s+=\s+(-?\d+)", ln)
        if not m:
            continue
        pid, sc, args, ret = m.group(1), m.group(2), m.group(3), int(m.group(4))
        if main_pid is None:
            main_pid = pid
        if pid != main_pid:
            continue
        ev.append((sc, ln.strip()[:200]))
        strs = re.findall(r'"((?:[^"\\]|\\.)*)"', args)

        def side_rel(path):
            for s, root in (("A", A), ("B", B)):
                if path == root or path.startswith(root + "/"):
                    return s, os.path.relpath(path, root)
            return None, None
        if sc in ("openat", "creat") and strs and ret >= 0:
            path = strs[0]
            if not path.startswith("/"):
                path = os.path.join(os.path.dirname(A), path)
            fds[ret] = path
            if "O_WRONLY" in args or "O_RDWR" in args or sc == "creat":
                s, rel = side_rel(path)
                if s and rel.endswith(".copia-tmp"):
                    toks.append(f"stage:{s}:{hexs(rel[:-10])}")
                elif path.endswith(".json.tmp"):
                    toks.append("archStage")
        elif sc in ("fsync", "fdatasync") and ret == 0:
            fd = int(args.split(",")[0])
            path = fds.get(fd, "")
            s, rel = side_rel(path)
            if s and rel.endswith(".copia-tmp"):
                toks.append(f"sync:{s}:{hexs(rel[:-10])}"); synced.add(path)
            elif path.endswith(".json.tmp"):
                toks.append("archSync")
        elif sc in ("rename", "renameat", "renameat2") and len(strs) >= 2 and ret == 0:
            src, dst = strs[0], strs[1]
            src = src if src.startswith("/") else os.path.join(os.path.dirname(A), src)
            dst = dst if dst.startswith("/") else os.path.join(os.path.dirname(A), dst)
            s, rel = side_rel(dst)
            if s and src.endswith(".copia-tmp"):
                toks.append(f"publish:{s}:{hexs(rel)}")
                if src not in synced:
                    facts["unsynced_publish"].append(rel)
                if facts["arch_published"]:
                    facts["record_before_data"] = True
            elif dst.endswith(".json.bak"):
                toks.append("archBak")
            elif dst.endswith(".json"):
                toks.append("archPublish"); facts["arch_published"] = True
        elif sc in ("unlink", "unlinkat") and strs and ret == 0:
            path = strs[-1] if sc == "unlinkat" else strs[0]
            path = path if path.startswith("/") else os.path.join(os.path.dirname(A), path)
            s, rel = side_rel(path)
            if s:
                toks.append(f"unlink:{s}:{hexs(rel)}")
                if facts["arch_published"]:
                    facts["record_before_data"] = True
    return ev, toks, facts


def run(pid, tier, seed, rundir, model_run):
    res = {"violations": [], "broken": [], "notes": [], "distribution": {}, "samples": []}
    dist = res["distribution"]

    def count(k, c=1):
        dist[k] = dist.get(k, 0) + c

    thorough = tier == "thorough"
    ops, impl = [], []
    nkill = 0
    for name, (baseA, baseB, mods, with_arch) in SCENARIOS.items():
        with Sandbox("C08") as sb:
            # W holds the two roots and HOME at fixed absolute paths (the archive is keyed by the canonical
            # root paths); T is a frozen copy of the pre-state that W is restored from before every kill.
            T, W = sb.path("T"), sb.path("W")
            wa, wb, whome = os.path.join(W, "A"), os.path.join(W, "B"), os.path.join(W, "home")
            os.makedirs(wa); os.makedirs(wb); os.makedirs(whome)
            sb.env["HOME"] = whome
            hw = BB.Hist(sb); hw.A, hw.B = wa, wb
            sb.write_tree(wa, baseA); sb.write_tree(wb, baseB)
            if with_arch:
                rc0 = hw.bisync()[0]
                if rc0 != 0:
                    res["broken"].append(f"C08/setup: base sync of scenario {name} failed rc={rc0}")
                    continue
            for m in mods:
                if m[0] == "w":
                    hw.write(m[1], m[2], m[3])
                elif m[0] == "d":
                    hw.delete(m[1], m[2])
                elif m[0] == "s":
                    hw.bisync()
                elif m[0] == "dg":
                    root = wa if m[1] == "A" else wb
                    for f in os.listdir(root):
                        if f.startswith(m[2]):
                            os.remove(os.path.join(root, f))
            shutil.copytree(W, T, symlinks=True)

            def restoreW():
                shutil.rmtree(W, ignore_errors=True); shutil.copytree(T, W, symlinks=True)
            pre_a, pre_b, pre_arch = snapshot_at(sb, wa, wb, whome)
            ta0, tb0, raw0, trusted0 = observe_at(sb, wa, wb, whome)
            log = sb.path("ref.log")
            r = subprocess.run(["strace", "-f", "-qq", "-s", "4096", "-e", f"trace={SET}", "-o", log, CLI_BIN, "bisync", wa, wb],
                               env=sb.env, cwd=sb.dir, stdout=subprocess.PIPE, stderr=subprocess.PIPE)
            fin_a, fin_b, fin_arch = snapshot_at(sb, wa, wb, whome)
            _, _, fin_raw, fin_trusted = observe_at(sb, wa, wb, whome)
            ev, toks, facts = parse_trace(log, wa, wb, whome)
            N = len(ev)
            count(f"scenario/{name}/kill-points", N)
            da0, db0 = BB.digests(ta0), BB.digests(tb0)
            q = f"bisteps {hexs(HOST)} {BB.tree_tok(da0)} {BB.tree_tok(db0)} {'none' if trusted0 is None else BB.tree_tok(trusted0)} {1 if raw0 is not None else 0}"
            ops.append(q); impl.append(",".join(toks) if toks else "-")
            rep0 = {"scenario": name, "reference_rc": r.returncode, "trace_steps": toks, "calls": N}
            if len(res["samples"]) < 8:
                res["samples"].append({"scenario": name, "mutating_calls": N, "steps": toks[:12]})
            # ordering oracle on the reference trace (RecordAfterData)
            if facts["unsynced_publish"]:
                res["violations"].append(("data-renamed-without-fsync", f"staged data was renamed into place without a preceding fsync: {facts['unsynced_publish'][:3]} (the record can run ahead of durable data)", rep0))
            if facts["record_before_data"]:
                res["violations"].append(("record-before-data", "the archive was renamed into place before a data rename/unlink of the same run", rep0))
            if r.returncode not in (0, 1):
                res["broken"].append(f"C08/reference run of {name} ended rc={r.returncode}")
                continue
            # --- (2) every kill point
            per = {}
            ks = list(range(1, N + 1))
            for k in ks:
                sc = ev[k - 1][0]
                per[sc] = per.get(sc, 0)
                j = sum(1 for e in ev[:k] if e[0] == sc)
                restoreW()
                kr = subprocess.run(["strace", "-f", "-qq", "-o", "/dev/null", "-e", f"trace={sc}", "-e", f"inject={sc}:signal=SIGKILL:when={j}", CLI_BIN, "bisync", wa, wb],
                                    env=sb.env, cwd=sb.dir, stdout=subprocess.PIPE, stderr=subprocess.PIPE)
                nkill += 1
                ka, kb, karch = snapshot_at(sb, wa, wb, whome)
                _, _, kraw, ktrusted = observe_at(sb, wa, wb, whome)
                rep = {"scenario": name, "k": k, "of": N, "killed_before": ev[k - 1][1], "rc": kr.returncode}
                # (i) complete versions only
                for side, kt, pre, fin in (("A", ka, pre_a, fin_a), ("B", kb, pre_b, fin_b)):
                    for p, c in nonstaging(kt).items():
                        if c != pre.get(p) and c != fin.get(p):
                            res["violations"].append(("partial-or-foreign-content-at-live-path", f"after the kill {side}/{p} holds bytes that are neither the pre-run nor the delivered version", rep))
                    for p in set(nonstaging(pre)) | set(nonstaging(fin)):
                        if p not in kt and p in pre and p in fin and pre[p] is not None:
                            res["violations"].append(("live-path-vanished", f"after the kill {side}/{p} is missing although it exists before and after an uninterrupted run", rep))
                # (ii) record old / absent / new, new only after all data is in place
                if kraw is None or kraw == raw0:
                    pass
                elif ktrusted is not None and ktrusted == fin_trusted:
                    if nonstaging(ka) != nonstaging(fin_a) or nonstaging(kb) != nonstaging(fin_b):
                        res["violations"].append(("record-ahead-of-data", "the new archive is in place although not every file it describes has been renamed into place", rep))
                else:
                    res["violations"].append(("archive-torn", "the archive file is neither the old one, nor absent, nor the complete new one", rep))
                # (iii) recovery
                okrec = False
                for attempt in range(4):
                    rr = subprocess.run([CLI_BIN, "bisync", wa, wb], env=sb.env, cwd=sb.dir, stdout=subprocess.PIPE, stderr=subprocess.PIPE)
                    if rr.returncode == 0 or b"had conflicts" in rr.stderr:
                        okrec = True
                        break
                ra, rb, _ = snapshot_at(sb, wa, wb, whome)
                if not okrec:
                    res["violations"].append(("recovery-does-not-complete", "bisync did not complete within 4 attempts after the crash", dict(rep, stderr=rr.stderr.decode('utf-8', 'replace')[-300:])))
                elif nonstaging(ra) != nonstaging(fin_a) or nonstaging(rb) != nonstaging(fin_b):
                    diff = sorted(p for p in set(ra) | set(fin_a) | set(rb) | set(fin_b) if ra.get(p) != fin_a.get(p) or rb.get(p) != fin_b.get(p))
                    # a version lost, or merely a different (but lossless) outcome?
                    lost = [c for c in list(pre_a.values()) + list(pre_b.values()) if c in fin_a.values() and (c not in ra.values() or c not in rb.values())]
                    key = "recovery-loses-a-version" if lost else "recovery-differs-from-uninterrupted-run"
                    res["violations"].append((key, f"after crash + recovery the non-staging paths differ from the uninterrupted result at {diff[:4]}", rep))
                else:
                    _, _, _, rtrusted = observe_at(sb, wa, wb, whome)
                    if rtrusted != fin_trusted:
                        extra = sorted(set(rtrusted or {}) - set(fin_trusted or {}))
                        res["violations"].append(("recovery-record-differs-from-uninterrupted-run", f"after crash + completed recovery the trees are the uninterrupted result's but the recorded common state is not (entries only in the recovered record: {extra[:3]}): a later run will decide against a record of paths that no longer exist", rep))
            count("kills", len(ks))
    with open(os.path.join(rundir, "ops.txt"), "w") as f:
        f.write("\n".join(ops) + ("\n" if ops else ""))
    model = model_run(os.path.join(rundir, "ops.txt"))
    ndis = 0
    res["disagreements"] = []
    for q, im, mo in zip(ops, impl, model):
        if im != mo:
            ndis += 1
            res["disagreements"].append({"query": q[:500], "impl_trace_steps": im[:1500], "model_steps": (mo or "")[:1500]})
    if ndis:
        res["broken"].append(f"C08/corr/trace-conformance: the mutating-call sequence of {ndis} of {len(ops)} reference runs differs from the model's step list")
    res.update(evaluations=nkill + len(ops), distinct_nontrivial=nkill, n_disagreements=ndis, n_oracle_failures=len(res["violations"]),
               traces_validated=len(ops),
               rule="9 scenarios (create, propagate either way, delete either way, both-changed conflict, delete-vs-modify, first run without archive, several paths at once, repeated conflict whose conflict-copy name is still recorded); for each, "
                    "EVERY k = 1..N: the process is SIGKILLed immediately before its k-th call in {openat, write, copy_file_range, fsync, rename*, unlink*, mkdir*, …} (main thread, per reference trace), "
                    "then trees + archive are checked (complete versions only; record old/absent/new and new only with all data in place) and recovery runs must reach the uninterrupted result. "
                    "The reference trace's mutating calls are compared as a sequence with the Lean step list; fsync-before-rename and data-before-record are checked on the trace. Distinct = kill points.")
    return res


def snapshot_at(sb, A, B, home):
    ta = sb.read_tree(A); tb = sb.read_tree(B)
    adir = os.path.join(home, ".copia", "archive")
    arch = {f: open(os.path.join(adir, f), "rb").read() for f in (os.listdir(adir) if os.path.isdir(adir) else [])}
    return ta, tb, arch


def observe_at(sb, A, B, home):
    ta, tb = sb.read_tree(A), sb.read_tree(B)
    adir = os.path.join(home, ".copia", "archive")
    js = [f for f in (os.listdir(adir) if os.path.isdir(adir) else []) if f.endswith(".json")]
    raw = open(os.path.join(adir, js[0]), "rb").read() if js else None
    stem = js[0][:-5] if js else None
    return ta, tb, raw, BB.archive_trust(raw, stem)
