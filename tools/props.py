"""Per-property configuration for tools/checklib.py."""

COMMON_ASSUME = [
    "the Lean model is hand-written; it is tied to the Rust code only by the correspondence this check runs",
]

PROPS = {
    "C17": dict(
        modules=["Copia.Props.C17"], namespaces=["Copia.C17"], runner="rust",
        assumptions=COMMON_ASSUME + [
            "usize is 64 bits (`as u64` of a length never truncates)",
            "release semantics: plain + - * wrap; the theorems prove no wrap happens on the property's domain, so a debug build (which would panic instead) agrees",
            "`roll` is called with the byte that really is first in the window (property: 'window slides')",
        ],
        trusted_base=["src/checksum.rs is exercised through the public API of the copia crate (path dependency on the tree under test)"],
        level_text="Kernel-checked theorems for ALL windows ≤ 65536 and ALL operation sequences of any length (induction over the op list): "
                   "RollingChecksum state = fresh construction from the window, both digests = ((b mod 65521)<<16)|(a mod 65521) of the exact sums, "
                   "types agree, components < 65521, length exact, and no u32/u64 intermediate ever overflows (the 5000-roll normalisation invariant). "
                   "The bit-precise model (explicit wraps) is tied to the real types by differential runs over op sequences incl. >5000 slides and 64 KiB 0xFF windows; "
                   "MOD/NORMALIZE_INTERVAL/MAX block are regenerated from the source, so changing them breaks the proofs.",
        level_note="Trusts Lean's kernel (axioms propext, Classical.choice, Quot.sound), the hand-written bit-precise model, the constants extractor and the harness.",
        technique="Lean 4 proof (invariant by induction over operation sequences, omega arithmetic) + differential correspondence on op sequences",
    ),
    "C18": dict(
        modules=["Copia.Props.C18"], namespaces=["Copia.C18"], runner="rust",
        assumptions=COMMON_ASSUME + [
            "Fingerprint equality is (digest, ftype) equality; digests are opaque (data-independence is itself a theorem)",
            "BTreeMap<PathBuf,_> iteration order = component-wise path order (re-implemented in the driver, cross-checked on a universe where it differs from byte order)",
        ],
        trusted_base=["src/bin/copia/reconcile.rs is compiled into the harness unchanged via #[path]"],
        level_text="Kernel-checked theorems (decision = documented table for ALL fingerprint triples, mirror symmetry, data-independence, "
                   "no delete without base, tree-level set characterisation + sortedness for all maps) about a line-by-line model of reconcile.rs; "
                   "the model is tied to the real functions by an exhaustive run over the complete equality-pattern quotient and a 3-path universe",
        level_note="Trusts Lean's kernel (axioms propext, Quot.sound only), the hand-written model and the harness; reconcile.rs itself is compiled in unchanged. "
                   "bisync's use of the plan is C02/C06, not this property.",
        technique="Lean 4 proof (case analysis + induction over sorted key lists) + exhaustive differential correspondence",
    ),
}

_PENDING = "claimed in DESIGN.md; its Lean model/theorems and correspondence are not built yet at this commit (work in progress, not a judgement that the technique cannot apply)"
NOT_YET = {f"C{i:02d}": _PENDING for i in range(1, 21)}
