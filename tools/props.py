"""Per-property configuration for tools/checklib.py."""

COMMON_ASSUME = [
    "the Lean model is hand-written; it is tied to the Rust code only by the correspondence this check runs",
]

PROPS = {
    "C18": dict(
        modules=["Copia.Props.C18"], namespaces=["Copia.C18"], runner="rust",
        assumptions=COMMON_ASSUME + [
            "Fingerprint equality is (digest, ftype) equality; digests are opaque (data-independence is itself a theorem)",
            "BTreeMap<PathBuf,_> iteration order = component-wise path order (re-implemented in the driver, cross-checked on a universe where it differs from byte order)",
        ],
        trusted_base=["src/bin/copia/reconcile.rs is compiled into the harness unchanged via #[path]"],
        level_text="Kernel-checked theorems (decision = documented table for ALL fingerprint triples, mirror symmetry, data-independence, "
                   "no delete without base, tree-level set characterisation + sortedness for all maps) about a line-by-line model of reconcile.rs; "
                   "the model is tied to the real functions by an exhaustive run over the complete equality-pattern quotient and a 3-path universe",
        level_note="Trusts Lean's kernel (axioms propext, Quot.sound only), the hand-written model and the harness; reconcile.rs itself is compiled in unchanged. "
                   "bisync's use of the plan is C02/C06, not this property.",
        technique="Lean 4 proof (case analysis + induction over sorted key lists) + exhaustive differential correspondence",
    ),
}

_PENDING = "claimed in DESIGN.md; its Lean model/theorems and correspondence are not built yet at this commit (work in progress, not a judgement that the technique cannot apply)"
NOT_YET = {f"C{i:02d}": _PENDING for i in range(1, 21)}
