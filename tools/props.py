"""Per-property configuration for tools/checklib.py."""

COMMON_ASSUME = [
    "the Lean model is hand-written; it is tied to the Rust code only by the correspondence this check runs",
]

_DELTA_ASSUME = COMMON_ASSUME + [
    "BLAKE3 is a parameter H; 'equal digests ⇒ equal bytes' is the explicit hypothesis CollisionFree H bs basis src (basis blocks × source windows)",
    "domain: 0 < bs < 2^32 (block_size as u32), fewer than 2^32 blocks (i as u32), sizes < 2^64; files are read whole (memory not modelled)",
    "release semantics (wrapping arithmetic; debug_assert!s off); C17's no-overflow theorems cover the checksum arithmetic",
]
_DELTA_TB = ["src/{sync,async_sync,signature,delta,checksum}.rs are exercised through the copia crate's public API (path dependency on the tree under test); "
             "the CLI commands through the real `copia` binary built from the same tree"]

_OW_ASSUME = COMMON_ASSUME + [
    "regular files, no file/directory clashes, mtimes at or after the epoch, names not ending in the staging suffix, valid UTF-8 names",
    "the SSH stand-in runs the remote command with bash in a scratch 'remote home'; GNU find/xargs/touch/mv as installed",
    "tokio task scheduling is abstracted to 'any order' (proved equivalent); failed transfers (non-zero exit) are outside the compared postcondition",
]
_OW_TB = ["the real `copia` binary built from the tree under test; tools/sshstub/ssh as SSH stand-in"]
_HUB_ASSUME = COMMON_ASSUME + [
    "served tree without symlinks and without file/directory clashes; one server process per session (interleavings are C03/C10)",
]
_HUB_TB = ["the real `copia serve` built from the tree under test, driven over its stdin/stdout by tools/bb_hub.py"]
_BI_ASSUME = COMMON_ASSUME + [
    "regular files only, no file/directory clashes, single host, names not ending in the staging suffix; contents are identified with their BLAKE3 (collision-freeness)",
    "a copy whose source vanished mid-run is modelled as 'stop before this action' (partial conflict-copy writes are not modelled)",
]
_BI_TB = ["the real `copia` binary built from the tree under test, run in a sandbox with HOME/HOSTNAME pinned; BLAKE3 of contents computed with the real crate"]

PROPS = {
    "C01": dict(
        modules=["Copia.Props.C01", "Copia.Props.C01b", "Copia.Props.C01c", "Copia.Props.C01d", "Copia.Props.C05b", "Copia.Props.C01e", "Copia.Props.C01f", "Copia.Props.C01g"], namespaces=["Copia.C01"], runner="rust", needs_cli=True,
        assumptions=_DELTA_ASSUME, trusted_base=_DELTA_TB,
        level_text="Kernel-checked theorems for ALL basis/source byte strings and ALL positive block sizes: patch(basis, delta(signature(basis), src)) = ok src "
                   "(or H collides on an explicit pair), delta well-formedness (declared size/checksum, lengths sum, copies inside the basis), sync_files for absent/identical/differing destination. "
                   "One model function per operation; that the sync engine, the async engine, sequential and rayon signature paths, the CLI file chain and `copia sync` all equal it "
                   "is shown by the differential correspondence (exact op lists), incl. >64 KiB inputs, repeated and weak-colliding blocks, non-legal block sizes at library level.",
        level_note="Trusts Lean's kernel (propext, Classical.choice, Quot.sound), the hand-written model, the harness; BLAKE3 collision-freeness is an explicit hypothesis.",
        technique="Lean 4 proof (loop invariant by induction on fuel: accumulated ops denote the consumed prefix) + differential correspondence across engines",
    ),
    "C02": dict(
        modules=["Copia.Props.C02", "Copia.Props.C02b", "Copia.Props.C02c", "Copia.Props.C18b", "Copia.Props.C08e", "Copia.Props.C02d"], namespaces=["Copia.C02"], runner="bb", bb_module="bb_bisync",
        assumptions=_BI_ASSUME, trusted_base=_BI_TB,
        level_text="Kernel-checked WHOLE-RUN theorem `no_version_lost` for the model of `copia bisync` (scan, reconcile against the trusted archive, apply the whole plan to the live trees), for every pair of trees and every archive: "
                   "under NoNameClash the run never stops on an I/O error and every content either side held before is held by BOTH sides afterwards, unless it was exactly the recorded base at its path and the other side had changed or deleted it. "
                   "`path_safe` is the decision-level core for every (a, b, base) triple. Without NoNameClash the statement is false of model and code: `clash_loses` is the kernel-checked witness (D10, known finding). "
                   "Tie: every real `copia bisync` of generated histories is replayed in the executable Lean model from the observed pre-state (trees, archive) and compared "
                   "(status, plan, trees, archive); the version-survival oracle runs on the real before/after trees with the true last-synced state tracked by the harness.",
        level_note="Trusts Lean's kernel, the hand-written model of bidir.rs (validated against the binary on every run), the harness and the black-box sandbox (HOME/HOSTNAME pinned). The theorem's NoNameClash hypothesis is exactly the boundary of D10; files are regular files (no symlinks/dirs as entries).",
        technique="Lean 4 proof (run invariant by induction over the plan, case analysis over the reconcile table) + executable-model correspondence on histories + version-survival oracle",
    ),
    "C06": dict(
        modules=["Copia.Props.C06", "Copia.Props.C02b", "Copia.Props.C02c", "Copia.Props.C18b", "Copia.Props.C08e", "Copia.Props.C06c", "Copia.Props.C06d"], namespaces=["Copia.C06"], runner="bb", bb_module="bb_bisync",
        assumptions=_BI_ASSUME, trusted_base=_BI_TB,
        level_text="Kernel-checked WHOLE-RUN theorems for the model of `copia bisync`, for every pair of trees and every archive, under NoNameClash: `converges` (the run completes; afterwards A and B hold the same content at every path and the archive written records exactly that tree) "
                   "and `second_run_noop` (the next run plans nothing, reports no conflict and leaves both trees as they are), `conflict_outcome` (a divergent edit ends on both sides as the greater-hash version at the path and the other at the conflict-copy name), `swap_run` (naming the roots the other way round leaves the same bytes at every path on both sides, for a total antisymmetric hash order). For all maps: a converged pair with a matching record plans nothing; swapping the roots mirrors every decision. "
                   "Without NoNameClash the statements are false of model and code (D10, known findings). Conflict outcome = max BLAKE3 at the path and the loser at <path>.conflict-<host>-<12 hex> is part of the model and "
                   "compared with every real run; oracles: convergence, archive = tree, an immediate real second run plans 0 actions, same final trees under scrambled mtimes and swapped roots.",
        level_note="Trusts Lean's kernel, the hand-written model of bidir.rs (validated against the binary on every run), the harness and the sandbox. mtime independence is by construction in the model (it has no mtimes) and oracle-checked on the binary; root swap is `swap_run` + the oracle.",
        technique="Lean 4 proof (run + archive invariants by induction over the plan) + executable-model correspondence on histories + convergence/idempotence/independence oracles",
    ),
    "C07": dict(
        modules=["Copia.Props.C07", "Copia.Props.C07b", "Copia.Props.C02c", "Copia.Props.C18b", "Copia.Props.C07c", "Copia.Props.C07d"], namespaces=["Copia.C07"], runner="bb", bb_module="bb_bisync",
        assumptions=_BI_ASSUME + ["`Archive::load` = none for every fault kind is checked on the real binary (SAFE banner vs the harness's strict-JSON prediction), not proved (serde_json is not modelled)"],
        trusted_base=_BI_TB,
        level_text="Kernel-checked theorems for ALL tree pairs: with an untrusted archive the plan contains no delete, no non-delete action ever removes a path, hence a whole run (even one that stops on an I/O error) "
                   "removes no file from either side; `untrusted_run_keeps_every_version` (corollary of C02's whole-run theorem, under NoNameClash): every content present before is on BOTH sides afterwards. Tie: byte-level archive faults (absent, zero-length, every truncation point sampled, garbage, wrong shape, format_version≠1, other pair, only .bak/.tmp) injected into real "
                   "histories; real outcome compared with the model's no-base run; oracle: nothing deleted and every version still on both sides.",
        level_note="Trusts Lean's kernel, the model of apply/reconcile, the harness; path survival needs no hypothesis, content survival is proved under NoNameClash (D10's boundary) and oracle-checked on the binary.",
        technique="Lean 4 proof (induction over the plan) + fault-injection correspondence on the real archive file",
    ),
    "C04": dict(
        modules=["Copia.Props.C04", "Copia.Props.C04b", "Copia.Props.C04c", "Copia.Props.C06c", "Copia.Props.C06d", "Copia.Props.C04d", "Copia.Props.C04e", "Copia.Props.C13f", "Copia.Props.C04f", "Copia.Props.C04g", "Copia.Props.C04h", "Copia.Props.C04i", "Copia.Props.C09f"], namespaces=["Copia.C04"], runner="bb", bb_module="bb_oneway",
        assumptions=_OW_ASSUME, trusted_base=_OW_TB + ["bash's ANSI-C quoting ($'…') as modelled by Quote.ansiC: named escapes decoded, unknown escapes kept, numeric/control escapes outside the model (never produced by the escaping chain — proved); cross-checked against the installed bash on every run"],
        level_text="Kernel-checked theorems for ALL trees/flags over the run model: destination after a run = (deleted if in delete; source entry with the source's whole-second mtime if in transfer; untouched otherwise), "
                   "nothing outside the plan is touched — also when ANY subset of the transfers and deletes fails (`partial_failure_stays_in_plan`: the non-zero-exit clause) —, an empty source without --delete is a no-op, and ORDER INDEPENDENCE: any completion order of the parallel transfers/deletes gives the same destination. "
                   "With C19's theorems the plan itself is the set definition. QUOTING: `quoted_path_decodes` / `quoted_staging_decodes` — for EVERY remote path string (quotes, backslashes, newlines, $, ;, backticks) bash's ANSI-C scanner decodes the `$'…'` word the sources build "
                   "(escaping chain regenerated from the four source files, which must agree) back to exactly the path and stops at the closing quote; the model scanner and `escape` are cross-checked against the installed bash. ARGUMENT PARSING: `location_remote` / `location_remote_only` / `location_local_is_the_argument` characterise `FileLocation::parse` (which SRC/DST strings are `host:path`), compared with the real CLI through the ssh stand-in's log. Tie: real `copia sync -r` in all three directions (SSH stand-in) on trees with hostile names, every per-file destination state, flag sets incl. --jobs; "
                   "predicted destination (bytes, whole-second mtime, untouched sub-second parts) and printed plan compared; oracles: source unchanged, no staging file left.",
        level_note="Model-level proof + black-box tie; the remote shell commands (cat/mv/touch/find/xargs) and tokio scheduling are trusted/abstracted (any order is proved equivalent). Non-zero exits are counted, their partial effects are not compared.",
        technique="Lean 4 proof (lookup characterisation of folds, permutation invariance) + black-box correspondence in three directions",
    ),
    "C13": dict(
        modules=["Copia.Props.C13", "Copia.Props.C13b", "Copia.Props.C13c", "Copia.Props.C13d", "Copia.Props.C11c", "Copia.Props.C13e", "Copia.Props.C11d", "Copia.Props.C13f", "Copia.Props.C12b"], namespaces=["Copia.C13", "Copia.C12.source_serve_is_model"], runner="bb", bb_module="bb_hubsync",
        assumptions=_HUB_ASSUME + ["the hub side is the sequential CAS-Put semantics (its atomicity under concurrency is C03); a local tree with a top-level `.copia` directory is refused by the (repaired) hub and hub-sync reports the error",
                                   "interference is modelled per Put (stale `expected`); an environment that deletes files is outside 'still retrievable'"],
        trusted_base=_HUB_TB + ["tools/sshstub/ssh and tools/sshrelay (pausing relay) as SSH stand-ins"],
        level_text="Kernel-checked theorems over the client program on the hub's CAS semantics, for ALL hub trees and local trees: without interference every local file ends up on the hub at its path, other paths are untouched, "
                   "no conflict is reported, and a second run sends nothing; with a stale listing each Put still lands the bytes at the path or at its conflict-copy and never overwrites the live value. "
                   "Tie: real `copia hub-sync` runs to a local target and to `host:root` (SSH stand-in), immediate second runs, and stale listings forced by a relay that holds client 1 between List and Put while client 2 commits.",
        level_note="Model-level proof + black-box runs; concurrency of the hub itself is C03/C10.",
        technique="Lean 4 proof (loop invariant over the client's file list; CAS lemmas) + black-box runs incl. forced stale listings",
    ),
    "C14": dict(
        modules=["Copia.Props.C14", "Copia.Props.C14b", "Copia.Props.C14c"], namespaces=["Copia.C14"], runner="bb", bb_module="bb_oneway",
        assumptions=_OW_ASSUME, trusted_base=_OW_TB,
        level_text="Kernel-checked theorems for ALL trees/flags: immediately after a run the same command plans no transfer and no delete; a file is sent only if absent or differing in size/whole-second mtime. "
                   "Tie: real immediate second runs in all three directions with mtimes 0, sub-second, year 3000: plan must be 0/0 and both trees byte- and mtime-identical.",
        level_note="Model-level proof + black-box second runs; floor-of-mtime through each writer/reader pair is validated, not proved.",
        technique="Lean 4 proof over the run model + black-box second-run correspondence",
    ),
    "C08": dict(
        modules=["Copia.Props.C08", "Copia.Props.C08b", "Copia.Props.C08c", "Copia.Props.C08d", "Copia.Props.C08e", "Copia.Props.C02c"], namespaces=["Copia.C08"], runner="bb", bb_module="bb_crash", timeout=3000,
        assumptions=_BI_ASSUME + ["'killed at any instant' is represented as 'before any libc call of the main thread' (strace injection); a kill inside one copy_file_range/write is covered by the staged file being opaque until renamed",
                                  "power loss is represented only by the ordering predicate fsync(staged data) → rename → record on the real trace, not by a page-cache model"],
        trusted_base=_BI_TB + ["strace (trace and signal injection)"],
        level_text="Kernel-checked WHOLE-RUN theorem `whole_run_prefix` over the micro-step model of a run (the plan's stage/sync/publish/unlink calls in plan order, then the archive's stage/sync/bak/publish), for every pair of trees, every archive and EVERY prefix length: "
                   "no staged file is ever renamed into place unsynced, every live path holds a complete content some path held when the run started, the record is the new one only if the whole run was executed and is no longer the old one only after every data step "
                   "(so everything it describes is flushed and renamed into place on both sides); `complete_run_is_the_run`: under NoNameClash the crash model's complete run leaves at every path exactly what the run model (`bisync`, the apply loop) leaves; plus the per-copy and per-record lemmas; `recovery` / `recovery_loses_nothing`: for EVERY kill point k of EVERY run under NoNameClash, running bisync again on what is left (with the old record while the record is old, with ANY record otherwise) completes and leaves at every path on both sides exactly what the uninterrupted run leaves, so no version is lost in the sense of C02 (proved via the apply loop under a BENIGN name clash, Lemmas/Bisync13-15, Crash6-8; the proof exposed defect D16). Tie (partial): the real run's mutating syscalls equal the model's step list (trace conformance) "
                   "for 9 scenarios, and the real process is SIGKILLed before EVERY such call; post-kill trees/archive and crash recovery are checked.",
        level_note="Partial: proof of the model + syscall-trace conformance + exhaustive kill points per scenario; intra-syscall preemption and real power loss are not exhibited.",
        technique="Lean 4 proof (invariant over every prefix of the step list) + strace trace conformance + exhaustive kill-point injection",
    ),
    "C09": dict(
        modules=["Copia.Props.C09", "Copia.Props.C09b", "Copia.Props.C09c", "Copia.Props.C09d", "Copia.Props.C09e", "Copia.Props.C09f", "Copia.Props.C04f"], namespaces=["Copia.C09"], runner="bb", bb_module="bb_crash9", timeout=3000,
        assumptions=_OW_ASSUME + ["'killed at any instant' = before any libc call of any copia thread (strace injection, per-thread counters); kills inside one write are covered by the staging file being opaque until renamed",
                                  "for push the remote command runs to completion on whatever part of the stream arrived (the property's setting)"],
        trusted_base=_OW_TB + ["strace (signal injection, -b execve)"],
        level_text="Kernel-checked theorems over the delivery micro-steps: after ANY prefix of open-staging / chunk* / rename / set-mtime the live destination is its complete old or the complete new content (local, pull); "
                   "for push, for EVERY cut of the input stream, the remote command `cat > tmp && [ size = announced ] && mv` leaves old or complete new content. WHOLE RUN (`parallel_atomic`): for any number of files delivered concurrently (`--jobs N`), "
                   "after ANY interleaving of ANY prefixes of the per-file deliveries every destination path holds its complete old or complete new bytes and a path no delivery was started for is untouched. Tie (partial): real kills before every j-th call of each write-type syscall in all three "
                   "directions; old-or-new, outside-plan and re-run predicates on the real trees.",
        level_note="Partial: proof of the step model + exhaustive (syscall, j) kill sweep; thread scheduling makes j ↦ state non-deterministic, predicates are state-based.",
        technique="Lean 4 proof (prefix invariant of the delivery steps; stream-cut lemma for the remote command) + kill-point injection in three directions",
    ),
    "C03": dict(
        modules=["Copia.Props.C03", "Copia.Props.C03b", "Copia.Props.C03c", "Copia.Props.C03d", "Copia.Props.C03e"], namespaces=["Copia.C03"], runner="bb", bb_module="bb_hubconc",
        assumptions=_HUB_ASSUME + ["flock(2) mutual exclusion and release on process death, rename(2) atomic replace, O_TRUNC keeping the inode are trusted kernel semantics",
                                   "the interleaved transition system contains Put and Delete (`refinement`); Get runs beside them as its own call sequence (`Model/HubGet`: open, length, hashing pass, header, streaming pass, any writer steps in between) — `C10.get_reply_is_one_version`: the announced hash and length are those of exactly the bytes streamed, one complete verified version the path held after the request began; List is not claimed atomic",
                                   "staging names are per process (WF.tmp_inj) — true of the repaired code (D6), false of the pinned code"],
        trusted_base=_HUB_TB + ["tools/gate/gate.c (LD_PRELOAD interposer on open/open64/write/rename/unlink/flock/close) and tools/bb_gate.py (controller): decide the schedule, do not change what a call does"],
        level_text="Kernel-checked forward simulation: from every reachable state of N interleaved server processes (any schedule, any kills) each step is a stutter or exactly one atomic CAS-put or CAS-delete of the stepping process's request "
                   "(linearisation point = the rename / unlink under the lock); the compared hash is the CURRENT one for Puts and Deletes (LInv, preserved by all 15 step kinds), mutual exclusion, commit-only-on-match, delete-only-on-match, loser preserved at the conflict-copy name. "
                   "Tie (partial): (1) 2–3 real server processes with client-paced interleavings at content-piece granularity; (2) SYSCALL-LEVEL schedules: the servers run under an LD_PRELOAD gate (tools/gate/gate.c) that makes every file-system call on the tree "
                   "(create/truncate of the staging file, write, flock, the destination read, rename, unlink) a scheduling point, one process at a time — the step granularity of the Lean transition system; schedules with ≤ 2 preemptions sampled systematically + random ones. "
                   "In both, replies + final tree must be linearizable w.r.t. the sequential Lean hub model (every real-time-compatible order is run through the model).",
        level_note="Partial: proof of the interleaved Put/Delete system + controlled schedules of real processes (sampled, not exhaustive); preemption inside one system call and the kernel's own flock/rename atomicity are trusted.",
        technique="Lean 4 proof (inductive invariants + refinement to an atomic CAS map) + schedule-controlled linearizability check against the model",
    ),
    "C10": dict(
        modules=["Copia.Props.C10", "Copia.Props.C10b", "Copia.Props.C10c", "Copia.Props.C10d", "Copia.Props.C03e"], namespaces=["Copia.C10"], runner="bb", bb_module="bb_hubconc",
        assumptions=_HUB_ASSUME + ["kernel semantics as for C03; 'every instant' = after every scheduling step of the client-paced schedule"],
        trusted_base=_HUB_TB,
        level_text="Kernel-checked inductive invariant over the interleaved system incl. kill transitions: in EVERY reachable state every client-visible path holds initial content or the complete bytes of one Put whose streamed hash equalled its declared hash; "
                   "a wrong-hash Put never reaches the commit decision; staging inodes in use are private and unpublished; `fetch_reads_one_complete_version`: the inode behind a visible path is never written again, so a fetch from one handle reads one complete verified version whatever happens meanwhile. (Length mismatch: sequential model + D14 repair.) "
                   "Tie (partial): the real tree is read after every scheduling step of (1) client-paced multi-server schedules and (2) syscall-level schedules under the LD_PRELOAD gate (every file-system call on the tree is a scheduling point; the pinned code's torn file shows up deterministically there), "
                   "with servers SIGKILLed at random steps and Puts with wrong hashes.",
        level_note="Partial: proof of the model + controlled schedules (sampled) and kills on real processes; a kill inside one write(2) is represented by kills between the chunk writes.",
        technique="Lean 4 proof (inductive invariant over all interleavings and kills) + per-step observation of real multi-process schedules",
    ),
    "C11": dict(
        modules=["Copia.Props.C11", "Copia.Props.C11b", "Copia.Props.C11c", "Copia.Props.C11d"], namespaces=["Copia.C11"], runner="bb", bb_module="bb_hub",
        assumptions=_HUB_ASSUME, trusted_base=_HUB_TB,
        level_text="Kernel-checked theorems for ALL path strings: a path accepted by safe_join (Rust Path::components semantics) joined onto the root resolves — by the kernel's lexical walk — under the root; "
                   "so do its staging name and its conflict-copy name (suffixes appended to the string); a path is refused exactly when it is absolute or has a `..` component. "
                   "Tie: path strings from the property's grammar sent as Get/Put/Delete to a real server under strace; every path argument of every file-system call is resolved and must lie under the root; "
                   "sentinels outside the root unchanged; refusal/acceptance compared with the model; a following Get must still be answered.",
        level_note="Trusts Lean's kernel, the model of Path::components / string join, strace's view of the syscalls, no symlinks in the served tree.",
        technique="Lean 4 proof (induction over path components) + syscall-trace correspondence",
    ),
    "C12": dict(
        modules=["Copia.Props.C12", "Copia.Props.C12b", "Copia.Props.C12c"], namespaces=["Copia.C12"], runner="bb", bb_module="bb_hub",
        assumptions=_HUB_ASSUME + ["CBOR decoding of a frame body is a parameter of the model (table supplied by the harness from the real ciborium + wire.rs types); ciborium's own allocation/recursion limits are observed under ulimit -v, not proved"],
        trusted_base=_HUB_TB,
        level_text="Kernel-checked theorems for ALL input byte strings: every control-frame buffer ≤ MAX_FRAME; no reply and no tree change without a complete correct prologue; an error reply leaves the tree untouched and the loop "
                   "continues exactly behind the request (and behind a refused Put's content) — the re-sync lemma; EOF inside a body ends the session without effect. Totality/termination by construction (fuel = input length). "
                   "Tie: hundreds of byte streams (valid sessions and their mutations, hostile length prefixes and CBOR, every kind of cut) fed to a real server under ulimit -v and a timeout; replies, exit status, resulting tree compared.",
        level_note="Trusts Lean's kernel, the framing/handler model, the harness's CBOR codec, the real ciborium for the decode table.",
        technique="Lean 4 proof over a fuel-bounded serve loop + byte-stream correspondence against the real server",
    ),
    "C05": dict(
        modules=["Copia.Props.C05", "Copia.Props.C05b", "Copia.Props.C05c"], namespaces=["Copia.C05"], runner="rust", needs_cli=True,
        assumptions=_DELTA_ASSUME + ["a hostile copy length makes the real code allocate `len` bytes before reading (resource question, observed not proved)"],
        trusted_base=_DELTA_TB,
        level_text="Kernel-checked theorems for ALL (basis, delta) with no well-formedness hypothesis: success ⇒ H(output) = delta.checksum; success ⇒ validation passed and every read was inside the real basis; "
                   "an invalid delta writes nothing. Tie: thousands of single and combined corruptions of valid (basis, delta) pairs through both engines and `copia patch` (verdict + bytes written compared with the model).",
        level_note="Trusts Lean's kernel, the hand-written model of patch/validate, the harness. Memory behaviour (vec![0; len]) is outside the model.",
        technique="Lean 4 proof (direct from the model's definition, induction over ops for bounds) + differential correspondence on corrupted inputs",
    ),
    "C16": dict(
        modules=["Copia.Props.C16", "Copia.Props.C16b", "Copia.Props.C16c", "Copia.Props.C01d", "Copia.Props.C17b"], namespaces=["Copia.C16"], runner="rust", needs_cli=False,
        assumptions=_DELTA_ASSUME + ["block sizes 0 < bs ≤ 65536 and byte-valued sources (the C17 domain) for the checksum-threading invariant",
                                     "edit_bound needs the basis length to be a multiple of the block size (as the property's `file of distinct blocks`); distinctness of the blocks turned out not to be needed"],
        trusted_base=_DELTA_TB,
        level_text="Kernel-checked theorem for ALL basis/source and ALL block sizes ≤ 65536: the delta's op list EQUALS the textbook greedy scan's (plain byte equality, no checksums) — hence no more literal bytes; "
                   "identical files cost < one block; `edit_bound`: replacing any part of a block-aligned basis by k bytes costs at most k + 2 blocks of literal data (potential-function induction over the scan). The proof threads C17's rolling-checksum invariant through the scan (weak hash = window checksum; signature-side hash equal for equal bytes), "
                   "so a checksum defect breaks it. Tie: exact op lists + literal counts vs an independent greedy reference, all eight legal block sizes, high-sum content, matches after >5000 slides.",
        level_note="Trusts Lean's kernel, the models of the scan and both checksum types, the harness. The edit bound is also checked on the implementation by the oracle (key edit-bound).",
        technique="Lean 4 proof (scan = textbook by induction with the Good checksum invariant from C17) + differential correspondence",
    ),
    "C17": dict(
        modules=["Copia.Props.C17", "Copia.Props.C17b"], namespaces=["Copia.C17"], runner="rust",
        assumptions=COMMON_ASSUME + [
            "usize is 64 bits (`as u64` of a length never truncates)",
            "release semantics: plain + - * wrap; the theorems prove no wrap happens on the property's domain, so a debug build (which would panic instead) agrees",
            "`roll` is called with the byte that really is first in the window (property: 'window slides')",
        ],
        trusted_base=["src/checksum.rs is exercised through the public API of the copia crate (path dependency on the tree under test)"],
        level_text="Kernel-checked theorems for ALL windows ≤ 65536 and ALL operation sequences of any length (induction over the op list): "
                   "RollingChecksum state = fresh construction from the window, both digests = ((b mod 65521)<<16)|(a mod 65521) of the exact sums, "
                   "types agree, components < 65521, length exact, and no u32/u64 intermediate ever overflows (the 5000-roll normalisation invariant). "
                   "The bit-precise model (explicit wraps) is tied to the real types by differential runs over op sequences incl. >5000 slides and 64 KiB 0xFF windows; "
                   "MOD/NORMALIZE_INTERVAL/MAX block are regenerated from the source, so changing them breaks the proofs.",
        level_note="Trusts Lean's kernel (axioms propext, Classical.choice, Quot.sound), the hand-written bit-precise model, the constants extractor and the harness.",
        technique="Lean 4 proof (invariant by induction over operation sequences, omega arithmetic) + differential correspondence on op sequences",
    ),
    "C19": dict(
        modules=["Copia.Props.C19", "Copia.Props.C19b", "Copia.Props.C19c", "Copia.Props.C14b"], namespaces=["Copia.C19"], runner=["rust", "bb"], bb_module="bb_oneway",
        assumptions=COMMON_ASSUME + [
            "paths are valid UTF-8 and normalised relative paths (what `discover_local_files` / `find` produce): `to_string_lossy` and non-canonical PathBuf keys such as `./k` are outside the model",
            "glob_match is modelled in suffix form (a data refinement of the index loop with the same branch order); the index loop itself is tied by the exhaustive correspondence",
        ],
        trusted_base=["src/bin/copia/plan.rs and meta.rs are compiled into the harness unchanged via #[path]",
                      "GNU find's -printf directives %s, %T@, %p and escapes \\t, \\0 as modelled by Meta.findPrintf (cross-checked against the installed find on every run)"],
        level_text="Kernel-checked theorems for ALL patterns/texts (glob_match ⇔ wildcard semantics, incl. fuel sufficiency), ALL maps/exclude predicates "
                   "(transfer/skipped/delete = their set definitions, sorted, duplicate-free) and the quick-check decision; `parse_format`: for ANY files with distinct non-empty NUL-free paths (tabs, newlines, anything else), u64 sizes and i64 seconds, "
                   "the listing `find -printf <format regenerated from meta.rs>` writes is parsed back into exactly the (path, size, whole-second mtime) map (`source_format_is_modelled` proves the source's format string produces the record shape). "
                   "Tie: real `find` on real trees (tabs/newlines in names, pre-epoch and sub-second mtimes): every record must equal the model's rendering and the real parser must return the files; every (pattern,text) pair up to length 4/5 over {a,b,*,?,.,/} is run on the real "
                   "glob_match against the declarative semantics, the model on a fixed sample of those plus all disagreements; all metadata relations over a 3-path universe for build_plan.",
        level_note="Trusts Lean's kernel (axioms propext, Classical.choice, Quot.sound), the hand-written models and the harness.",
        technique="Lean 4 proof (soundness/completeness of the backtracking matcher by induction on fuel with a measure; list lemmas for the planner) + exhaustive differential correspondence",
    ),
    "C15": dict(
        modules=["Copia.Props.C15", "Copia.Props.C15b", "Copia.Props.C15c", "Copia.Props.C15d", "Copia.Props.C04", "Copia.Props.C04d", "Copia.Props.C09f"], namespaces=["Copia.C15", "Copia.C04.dry_run"], runner=["rust", "bb"], bb_module="bb_oneway",
        assumptions=COMMON_ASSUME + [
            "names are valid UTF-8 (`to_string_lossy` is the identity)",
            "dry-run clause: decided by the black-box correspondence on the real CLI (see DESIGN.md §5 C15); the theorems here cover exclusion semantics, protection and opt-in deletes",
        ],
        trusted_base=["src/bin/copia/plan.rs compiled into the harness unchanged via #[path]"],
        level_text="Kernel-checked theorems: is_excluded ⇔ declarative exclusion (component-wise / whole-path, via glob ⇔ Matches), an excluded path is in neither transfer nor delete, "
                   "no delete without the flag, deletes only touch paths absent from the source — for all inputs. Tie: exhaustive/differential runs of the real is_excluded/build_plan/glob_match.",
        level_note="Trusts Lean's kernel, the hand-written model and the harness. The dry-run clause is checked on the real binary, not proved (partial).",
        technique="Lean 4 proof + exhaustive differential correspondence",
    ),
    "C20": dict(
        modules=["Copia.Props.C20", "Copia.Props.C20b", "Copia.Props.C20c", "Copia.Props.C20d"], namespaces=["Copia.C20"], runner="rust", needs_cli=True,
        assumptions=COMMON_ASSUME + [
            "bincode 1.3 legacy format (fixint LE, u64 lengths, u32 variant tags, trailing bytes allowed, slice reader) is modelled for copia's types; serde/bincode internals are not verified",
            "UTF-8 validity is a parameter of the model (instantiated with ByteArray.validateUTF8 in the driver)",
            "allocation inside serde's Vec visitor (cautious pre-allocation) is observed, not proved; the one explicit allocation of the codec (read_buf.resize) is proved ≤ 16 MiB",
        ],
        trusted_base=["src/protocol.rs, signature.rs, delta.rs through the copia crate's public API; src/bin/copia/main.rs through the real binary"],
        level_text="Kernel-checked theorems: decode(encode m ++ rest) = (m, rest) for all seven message kinds with arbitrary in-range fields (any number of blocks/ops, any literal data), "
                   "Signature/Delta file round trips, header round trip + layout (COPA, version 1, LE length) + rejection (wrong magic/version/unknown type/oversize ⇒ error for EVERY 12 bytes), "
                   "framed codec round trip, allocation bound of read_message for arbitrary input, and: the CLI front ends never reach the asserting constructor with an invalid block size. "
                   "Tie: byte-exact encodings and decoded values compared on generated values and on mutated/truncated/random bytes; real `copia delta|patch` on every single-field corruption.",
        level_note="Trusts Lean's kernel (propext, Quot.sound, Classical.choice), the hand-written model of the wire formats, the harness.",
        technique="Lean 4 proof (parser/printer round trips by structural induction, omega for little-endian arithmetic) + byte-exact differential correspondence",
    ),
    "C18": dict(
        modules=["Copia.Props.C18", "Copia.Props.C18b"], namespaces=["Copia.C18"], runner="rust",
        assumptions=COMMON_ASSUME + [
            "Fingerprint equality is (digest, ftype) equality; digests are opaque (data-independence is itself a theorem)",
            "BTreeMap<PathBuf,_> iteration order = component-wise path order (re-implemented in the driver, cross-checked on a universe where it differs from byte order)",
        ],
        trusted_base=["src/bin/copia/reconcile.rs is compiled into the harness unchanged via #[path]"],
        level_text="TRANSLATED FROM SOURCE: `reconcile_path` and `Fingerprint::same` are translated from reconcile.rs into Lean on every run (tools/rs2lean.py) and proved equal to the model (`source_reconcile_path_is_model`), so the theorems are about the current text of the function; an inequivalent edit breaks that proof. Kernel-checked theorems (decision = documented table for ALL fingerprint triples, mirror symmetry, data-independence, "
                   "no delete without base, tree-level set characterisation + sortedness for all maps) about a line-by-line model of reconcile.rs; "
                   "the model is tied to the real functions by an exhaustive run over the complete equality-pattern quotient and a 3-path universe",
        level_note="Trusts Lean's kernel (axioms propext, Quot.sound only), the hand-written model and the harness; reconcile.rs itself is compiled in unchanged. "
                   "bisync's use of the plan is C02/C06, not this property.",
        technique="Lean 4 proof (case analysis + induction over sorted key lists) + exhaustive differential correspondence",
    ),
}

_PENDING = "claimed in DESIGN.md; its Lean model/theorems and correspondence are not built yet at this commit (work in progress, not a judgement that the technique cannot apply)"
NOT_YET = {f"C{i:02d}": _PENDING for i in range(1, 21)}
