#!/usr/bin/env python3
"""Validate a seeded change and run our checks against it.

usage: seedtest.py <worktree> <patch.diff> <demo-file> <props-comma-separated> [--skip-suite]
  1. apply the patch in the scratch worktree (must be clean), build lib + cli
  2. run the existing suite there; every test of BASELINE.json's stable_pass must still pass
  3. run the demonstration with and without the change (integration test file or shell script)
  4. run `./check <P> quick` for each property with COPIA_REPO=<worktree>; report which fire
  5. revert the worktree
"""
import json, os, re, subprocess, sys, shutil

wt, patch, demo, props = sys.argv[1], os.path.abspath(sys.argv[2]), os.path.abspath(sys.argv[3]), sys.argv[4].split(",")
skip_suite = "--skip-suite" in sys.argv
env = dict(os.environ, CARGO_NET_OFFLINE="true", CARGO_TARGET_DIR=os.path.join(wt, "target"))
base = set(json.load(open("/root/.vp/BASELINE.json"))["stable_pass"])


def sh(cmd, **kw):
    return subprocess.run(cmd, shell=True, cwd=wt, env=env, text=True, stdout=subprocess.PIPE, stderr=subprocess.STDOUT, **kw)


def suite():
    r = sh("cargo test --workspace --no-fail-fast --offline 2>&1")
    passed, cur = set(), "copia::"
    for ln in r.stdout.split("\n"):
        m = re.match(r"\s+Running (unittests )?(\S+)", ln)
        if m:
            f = m.group(2)
            cur = "copia::" if f.startswith("src/") else "copia::" + os.path.basename(f)[:-3] + "::"
        m = re.match(r"test (\S+)(?: - should panic)? \.\.\. ok", ln)
        if m:
            passed.add(cur + m.group(1))
    return passed, r.stdout


def run_demo(tag):
    name = os.path.basename(demo)
    if name.endswith(".rs"):
        tn = "seeded_" + re.sub(r"\W", "_", name[:-3])
        shutil.copy(demo, os.path.join(wt, "tests", tn + ".rs"))
        feats = "--features cli" if re.search(r"features cli|target/debug/copia|bin/copia", open(demo).read()) else ""
        sh("cargo build --offline --features cli 2>&1") if feats else None
        r = sh(f"cargo test --offline {feats} --test {tn} 2>&1")
        os.remove(os.path.join(wt, "tests", tn + ".rs"))
    else:
        sh("cargo build --offline --features cli 2>&1")
        r = sh(f"bash {demo} {wt}/target/debug/copia 2>&1")
    print(f"  demo [{tag}]: rc={r.returncode}  {r.stdout.strip().splitlines()[-1][:160] if r.stdout.strip() else ''}")
    return r.returncode


assert sh("git status --porcelain --untracked-files=no").stdout.strip() == "", "worktree not clean"
res = {}
res["demo_without"] = run_demo("without change")
a = sh(f"git apply {patch}")
assert a.returncode == 0, "patch does not apply: " + a.stdout
try:
    b1 = sh("cargo build --offline 2>&1 | tail -3")
    b2 = sh("cargo build --offline --features cli 2>&1 | tail -3")
    res["builds"] = (b1.returncode == 0 and b2.returncode == 0 and "error" not in b1.stdout + b2.stdout)
    print("  builds:", res["builds"])
    if not skip_suite:
        passed, out = suite()
        missing = sorted(base - passed)
        res["suite_ok"] = not missing
        print(f"  existing suite: {len(passed & base)}/{len(base)} baseline tests pass; missing: {missing[:5]}")
    res["demo_with"] = run_demo("with change")
    for p in props:
        r = subprocess.run(["/verif/check", p, "quick"], cwd="/verif", env=dict(os.environ, COPIA_REPO=wt), text=True,
                           stdout=subprocess.PIPE, stderr=subprocess.STDOUT)
        lines = [l for l in r.stdout.split("\n") if l.startswith(("VIOLATION", "KNOWN-FINDING"))]
        res[p] = (r.returncode, lines)
        print(f"  check {p}: rc={r.returncode} {lines}")
finally:
    sh("git checkout -- . && git clean -fdq tests")
print(json.dumps(res))
if "--save" in sys.argv:
    sid = sys.argv[sys.argv.index("--save") + 1]
    d = os.path.join("/verif/seeded", sid)
    os.makedirs(d, exist_ok=True)
    shutil.copy(patch, os.path.join(d, "patch.diff"))
    shutil.copy(demo, os.path.join(d, "demo" + os.path.splitext(demo)[1]))
    notes = os.path.join(os.path.dirname(patch), "notes.md")
    meta = {"id": sid, "breaks": props, "validated": res,
            "ran": ["git apply patch.diff (scratch worktree)", "cargo build --offline [--features cli]",
                    "cargo test --workspace --no-fail-fast --offline (all BASELINE stable_pass tests still pass)" if not skip_suite else "suite skipped",
                    "demo with/without change", "COPIA_REPO=<worktree> ./check <P> quick for P in breaks"],
            "needs": "see notes.md"}
    json.dump(meta, open(os.path.join(d, "meta.json"), "w"), indent=1)
    if os.path.exists(notes):
        shutil.copy(notes, os.path.join(d, "notes.md"))
