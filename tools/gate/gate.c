// LD_PRELOAD schedule gate for `copia serve` (C03 / C10, tier 2).
//
// Every file-system call the server makes on the served tree — open (incl. create/truncate of its
// staging file, the commit lock file, the destination read for the current hash), write to a file
// under the root, rename, unlink, flock — first reports "<call> <detail>" on a UNIX socket to the
// controller (tools/bb_hubconc.py) and waits for one byte. The controller lets exactly one process
// run at a time, so a schedule is a deterministic total order of these calls across processes.
// flock(LOCK_EX) is turned into try-lock + "blocked" report, so a waiter never sleeps in the kernel.
// Path-based stat calls (stat/lstat/fstatat/statx: `std::fs::metadata`) on the tree are reported too, so a
// commit by another process can be scheduled between a reader's open and its later stat.
// Calls on anything outside COPIA_GATE_ROOT (stdin/stdout, /proc, libraries) pass through untouched.
#define _GNU_SOURCE
#include <dlfcn.h>
#include <errno.h>
#include <fcntl.h>
#include <stdarg.h>
#include <stdio.h>
#include <stdlib.h>
#include <string.h>
#include <sys/file.h>
#include <sys/socket.h>
#include <sys/stat.h>
#include <sys/un.h>
#include <unistd.h>

static int gfd = -2;                 // -2: not initialised, -1: disabled
static const char *root = NULL;
static size_t rootlen = 0;
#define MAXFD 4096
static char *fdpath[MAXFD];

static ssize_t (*real_write)(int, const void *, size_t);
static ssize_t (*real_read)(int, void *, size_t);

static void init(void) {
    if (gfd != -2) return;
    gfd = -1;
    real_write = dlsym(RTLD_NEXT, "write");
    real_read = dlsym(RTLD_NEXT, "read");
    const char *sock = getenv("COPIA_GATE_SOCK");
    root = getenv("COPIA_GATE_ROOT");
    const char *id = getenv("COPIA_GATE_ID");
    if (!sock || !root || !id) return;
    rootlen = strlen(root);
    int s = socket(AF_UNIX, SOCK_STREAM | SOCK_CLOEXEC, 0);
    if (s < 0) return;
    struct sockaddr_un a;
    memset(&a, 0, sizeof a);
    a.sun_family = AF_UNIX;
    strncpy(a.sun_path, sock, sizeof a.sun_path - 1);
    if (connect(s, (struct sockaddr *)&a, sizeof a) != 0) { close(s); return; }
    // move the descriptor out of the way of the program's own low numbers
    int hi = fcntl(s, F_DUPFD_CLOEXEC, 900);
    if (hi >= 0) { close(s); s = hi; }
    gfd = s;
    char buf[128];
    int n = snprintf(buf, sizeof buf, "hello %s\n", id);
    real_write(gfd, buf, n);
}

static int under_root(const char *p) {
    return p && rootlen && strncmp(p, root, rootlen) == 0 && (p[rootlen] == '/' || p[rootlen] == 0);
}

static void gate(const char *what, const char *detail) {
    if (gfd < 0) return;
    char buf[4600];
    int n = snprintf(buf, sizeof buf, "%s %s\n", what, detail ? detail : "-");
    if (n >= (int)sizeof buf) n = sizeof buf - 1;
    if (real_write(gfd, buf, n) != n) { gfd = -1; return; }
    char c;
    ssize_t r;
    do { r = real_read(gfd, &c, 1); } while (r < 0 && errno == EINTR);
    if (r <= 0) gfd = -1;      // controller gone: run free
}

static const char *rel(const char *p) { return p + rootlen + (p[rootlen] == '/' ? 1 : 0); }

static void track(int fd, const char *path) {
    if (fd >= 0 && fd < MAXFD) { free(fdpath[fd]); fdpath[fd] = strdup(rel(path)); }
}

static int do_open(const char *name, int (*real)(const char *, int, ...), const char *path, int flags, mode_t mode) {
    init();
    if (gfd >= 0 && under_root(path)) {
        char d[4400];
        snprintf(d, sizeof d, "%s %s%s%s", rel(path)[0] ? rel(path) : ".", (flags & O_CREAT) ? "C" : "", (flags & O_TRUNC) ? "T" : "",
                 ((flags & O_ACCMODE) == O_RDONLY) ? "R" : "W");
        // a directory opened for listing is a scheduling point of its own kind ("opendir"): a walk (List) can be overtaken between
        // reading a directory and opening a sub-directory it saw there. The root itself and the control directory are not.
        if (!(flags & O_DIRECTORY)) gate(name, d);
        else if (rel(path)[0] && strcmp(rel(path), ".copia") != 0) gate("opendir", rel(path));
        int fd = real(path, flags, mode);
        if (fd >= 0 && !(flags & O_DIRECTORY)) track(fd, path);
        return fd;
    }
    return real(path, flags, mode);
}

#include <dirent.h>
// Rust's `read_dir` calls libc's opendir (whose own open is not interposable): the walk of List becomes schedulable here
DIR *opendir(const char *name) {
    static DIR *(*real)(const char *);
    if (!real) real = dlsym(RTLD_NEXT, "opendir");
    init();
    if (gfd >= 0 && under_root(name) && rel(name)[0] && strcmp(rel(name), ".copia") != 0) gate("opendir", rel(name));
    return real(name);
}

int open(const char *path, int flags, ...) {
    static int (*real)(const char *, int, ...);
    if (!real) real = dlsym(RTLD_NEXT, "open");
    mode_t mode = 0;
    if (flags & (O_CREAT | O_TMPFILE)) { va_list ap; va_start(ap, flags); mode = va_arg(ap, mode_t); va_end(ap); }
    return do_open("open", real, path, flags, mode);
}

int open64(const char *path, int flags, ...) {
    static int (*real)(const char *, int, ...);
    if (!real) real = dlsym(RTLD_NEXT, "open64");
    mode_t mode = 0;
    if (flags & (O_CREAT | O_TMPFILE)) { va_list ap; va_start(ap, flags); mode = va_arg(ap, mode_t); va_end(ap); }
    return do_open("open", real, path, flags, mode);
}

int close(int fd) {
    static int (*real)(int);
    if (!real) real = dlsym(RTLD_NEXT, "close");
    if (fd >= 0 && fd < MAXFD && fdpath[fd]) { free(fdpath[fd]); fdpath[fd] = NULL; }
    return real(fd);
}

ssize_t write(int fd, const void *buf, size_t n) {
    init();
    if (gfd >= 0 && fd >= 0 && fd < MAXFD && fdpath[fd] && fd != gfd) {
        char d[4400];
        snprintf(d, sizeof d, "%s %zu", fdpath[fd], n);
        gate("write", d);
    }
    return real_write(fd, buf, n);
}

int rename(const char *a, const char *b) {
    static int (*real)(const char *, const char *);
    if (!real) real = dlsym(RTLD_NEXT, "rename");
    init();
    if (gfd >= 0 && (under_root(a) || under_root(b))) {
        char d[4400];
        snprintf(d, sizeof d, "%s -> %s", under_root(a) ? rel(a) : a, under_root(b) ? rel(b) : b);
        gate("rename", d);
    }
    return real(a, b);
}

int unlink(const char *p) {
    static int (*real)(const char *);
    if (!real) real = dlsym(RTLD_NEXT, "unlink");
    init();
    if (gfd >= 0 && under_root(p)) gate("unlink", rel(p));
    return real(p);
}

int flock(int fd, int op) {
    static int (*real)(int, int);
    if (!real) real = dlsym(RTLD_NEXT, "flock");
    init();
    if (gfd < 0 || fd < 0 || fd >= MAXFD || !fdpath[fd]) return real(fd, op);
    if (op & LOCK_UN) { gate("unlock", fdpath[fd]); return real(fd, op); }
    gate("lock", fdpath[fd]);
    for (;;) {
        int r = real(fd, (op & ~LOCK_NB) | LOCK_NB);
        if (r == 0) return 0;
        if (errno != EWOULDBLOCK) return r;
        if (op & LOCK_NB) return r;
        gate("blocked", fdpath[fd]);     // the controller answers only once the holder has released
        if (gfd < 0) return real(fd, op);
    }
}

// ---- path-based stat family (fd-based fstat / statx(fd, "", AT_EMPTY_PATH) is not a scheduling point)
static void stat_gate(const char *p) {
    init();
    if (gfd >= 0 && under_root(p) && rel(p)[0] && strcmp(rel(p), ".copia") != 0) gate("stat", rel(p));   // not the root / control dir themselves
}

int stat(const char *p, struct stat *b) {
    static int (*real)(const char *, struct stat *);
    if (!real) real = dlsym(RTLD_NEXT, "stat");
    stat_gate(p);
    return real(p, b);
}

int stat64(const char *p, struct stat64 *b) {
    static int (*real)(const char *, struct stat64 *);
    if (!real) real = dlsym(RTLD_NEXT, "stat64");
    stat_gate(p);
    return real(p, b);
}

int lstat(const char *p, struct stat *b) {
    static int (*real)(const char *, struct stat *);
    if (!real) real = dlsym(RTLD_NEXT, "lstat");
    stat_gate(p);
    return real(p, b);
}

int lstat64(const char *p, struct stat64 *b) {
    static int (*real)(const char *, struct stat64 *);
    if (!real) real = dlsym(RTLD_NEXT, "lstat64");
    stat_gate(p);
    return real(p, b);
}

int fstatat(int d, const char *p, struct stat *b, int f) {
    static int (*real)(int, const char *, struct stat *, int);
    if (!real) real = dlsym(RTLD_NEXT, "fstatat");
    if (p && p[0] == '/') stat_gate(p);
    return real(d, p, b, f);
}

int fstatat64(int d, const char *p, struct stat64 *b, int f) {
    static int (*real)(int, const char *, struct stat64 *, int);
    if (!real) real = dlsym(RTLD_NEXT, "fstatat64");
    if (p && p[0] == '/') stat_gate(p);
    return real(d, p, b, f);
}

int statx(int d, const char *p, int f, unsigned int m, struct statx *b) {
    static int (*real)(int, const char *, int, unsigned int, struct statx *);
    if (!real) real = dlsym(RTLD_NEXT, "statx");
    if (p && p[0] == '/') stat_gate(p);
    return real(d, p, f, m, b);
}
