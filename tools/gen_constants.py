#!/usr/bin/env python3
"""Regenerate lean/Copia/Gen/Constants.lean from /repo's CURRENT sources (DESIGN.md §3.2).

Every constant the Lean theorems depend on is extracted here with a regex over the anchored file; a
pattern that is not found is a hard error (the check then reports the proof obligation as broken).
The file is rewritten only when its content changes, so an unchanged tree does not trigger rebuilds.
"""
import os, re, sys

REPO = os.environ.get("COPIA_REPO", "/repo")
OUT = os.path.join(os.path.dirname(os.path.abspath(__file__)), "..", "lean", "Copia", "Gen", "Constants.lean")


class ExtractError(Exception):
    pass


def read(rel):
    with open(os.path.join(REPO, rel), encoding="utf-8") as f:
        return f.read()


def arith(expr):
    e = expr.replace("_", "").strip()
    e = re.sub(r"\b(\d+)(u8|u16|u32|u64|usize|i64)\b", r"\1", e)
    if not re.fullmatch(r"[0-9xXa-fA-F\s\*\+\-<\(\)]+", e):
        raise ExtractError(f"not a constant expression: {expr!r}")
    return int(eval(e, {"__builtins__": {}}, {}))


def one(text, pattern, what, group=1, flags=re.S):
    m = re.search(pattern, text, flags)
    if not m:
        raise ExtractError(f"pattern for {what} not found: {pattern}")
    return m.group(group)


def extract():
    c = {}
    ck = read("src/checksum.rs")
    rolling = one(ck, r"impl RollingChecksum \{(.*?)\nimpl FastRollingChecksum", "impl RollingChecksum block")
    fast = ck[ck.index("impl FastRollingChecksum {"):]
    c["rollingMod"] = arith(one(rolling, r"const MOD: u32 = ([^;]+);", "RollingChecksum::MOD"))
    c["fastMod"] = arith(one(fast, r"const MOD: u64 = ([^;]+);", "FastRollingChecksum::MOD"))
    c["normalizeInterval"] = arith(one(fast, r"const NORMALIZE_INTERVAL: u32 = ([^;]+);", "NORMALIZE_INTERVAL"))
    sig = read("src/signature.rs")
    lo, hi = re.search(r"pub fn validate_block_size.*?\((\d[\d_]*)\.\.=(\d[\d_]*)\)\.contains", sig, re.S).groups() \
        if re.search(r"pub fn validate_block_size.*?\((\d[\d_]*)\.\.=(\d[\d_]*)\)\.contains", sig, re.S) else (None, None)
    if lo is None:
        raise ExtractError("validate_block_size bounds not found")
    c["minBlock"], c["maxBlock"] = arith(lo), arith(hi)
    c["parThreshold"] = arith(one(sig, r"if data\.len\(\) > ([0-9_\s\*]+)\{", "rayon threshold"))
    sy = read("src/sync.rs")
    lo2, hi2 = re.search(r"size\.is_power_of_two\(\) && \((\d+)\.\.=(\d+)\)\.contains\(&size\)", sy).groups()
    c["builderMinBlock"], c["builderMaxBlock"] = arith(lo2), arith(hi2)
    pr = read("src/protocol.rs")
    c["protocolMagic"] = one(pr, r'pub const PROTOCOL_MAGIC: \[u8; 4\] = \*b"([^"]*)";', "PROTOCOL_MAGIC")
    c["protocolVersion"] = arith(one(pr, r"pub const PROTOCOL_VERSION: u8 = ([^;]+);", "PROTOCOL_VERSION"))
    c["maxPayloadSize"] = arith(one(pr, r"pub const MAX_PAYLOAD_SIZE: u32 = ([^;]+);", "MAX_PAYLOAD_SIZE"))
    c["frameHeaderSize"] = arith(one(pr, r"pub const SIZE: usize = ([^;]+);", "FrameHeader::SIZE"))
    names = ["SignatureRequest", "SignatureResponse", "DeltaData", "Ack", "Error", "Ping", "Pong"]
    enum = one(pr, r"pub enum MessageType \{(.*?)\n\}", "enum MessageType")
    codes = []
    for n in names:
        codes.append(arith(one(enum, rf"\b{n} = (0x[0-9a-fA-F]+|\d+),", f"MessageType::{n}")))
    c["msgTypeCodes"] = codes
    # `MessageType::from_u8`: a match whose arms are exactly `<code> => Ok(Self::<Variant>)` plus one `_ => Err(..)`
    fu = one(pr, r"pub fn from_u8\(value: u8\) -> Result<Self> \{\s*match value \{(.*?)\n        \}\n    \}", "MessageType::from_u8 (match value { … })")
    arms = re.findall(r"(0x[0-9a-fA-F]+|\d+)\s*=>\s*Ok\(Self::(\w+)\)\s*,", fu)
    n_arrows = len(re.findall(r"=>", fu))
    if n_arrows != len(arms) + 1 or not re.search(r"_\s*=>\s*Err\(", fu):
        raise ExtractError("MessageType::from_u8 is not `code => Ok(Self::V)` arms plus one `_ => Err(..)` arm")
    byname = dict((v, arith(k)) for k, v in arms)
    if sorted(byname) != sorted(names):
        raise ExtractError(f"from_u8 accepts variants {sorted(byname)} but the enum has {sorted(names)}")
    c["fromU8Arms"] = [byname[n] for n in names]
    wi = read("src/bin/copia/wire.rs")
    c["wireMagic"] = one(wi, r'pub const MAGIC: &\[u8; 6\] = b"([^"]*)";', "wire MAGIC")
    c["wireVersion"] = arith(one(wi, r"pub const VERSION: u32 = ([^;]+);", "wire VERSION"))
    c["maxFrame"] = arith(one(wi, r"pub const MAX_FRAME: u32 = ([^;]+);", "MAX_FRAME"))
    ar = read("src/bin/copia/archive.rs")
    c["archiveFormatVersion"] = arith(one(ar, r"const FORMAT_VERSION: u32 = ([^;]+);", "FORMAT_VERSION"))
    # staging suffixes (all four sites must agree, otherwise the reserved-name domain is not one name)
    sites = {
        "bidir.rs": one(read("src/bin/copia/bidir.rs"), r'fn copy_atomic.*?tmp\.push\("([^"]+)"\)', "bidir staging suffix"),
        "incremental.rs": one(read("src/bin/copia/incremental.rs"), r'fn tmp_path.*?s\.push\("([^"]+)"\)', "incremental staging suffix"),
        # serve.rs: per-process name `.<pid>.copia-tmp` (format!(".{}.copia-tmp", pid)) — the reserved suffix is what follows the pid
        "serve.rs": one(read("src/bin/copia/serve.rs"), r'fn tmp_of.*?s\.push\((?:format!\()?"(?:\.\{\})?([^"]+)"', "serve staging suffix"),
        "transfer.rs": one(read("src/bin/copia/transfer.rs"), r'format!\("\{escaped\}([^"]+)"\)', "push staging suffix"),
    }
    if len(set(sites.values())) != 1:
        raise ExtractError(f"staging suffixes differ between sites: {sites}")
    c["stagingSuffix"] = sites["bidir.rs"]
    # the remote listing format handed to `find -printf` (meta.rs); Rust string escapes undone
    fmt = one(read("src/bin/copia/meta.rs"), r"find \. -type f -printf '([^']*)'", "find -printf format")
    c["findPrintf"] = [ord(ch) for ch in fmt.replace("\\\\", "\\")]
    # the `$'...'` escaping chain: every site must use the same replace chain, in the same order
    chains = {}
    for rel in ("dir_sync.rs", "meta.rs", "single_sync.rs", "transfer.rs"):
        txt = read("src/bin/copia/" + rel)
        found = re.findall(r"((?:\.replace\('(?:\\.|[^'\\])',\s*\"(?:\\.|[^\"\\])*\"\))+)(?=[^;]*?;|\s*\))", txt)
        found = [f for f in found if f.count(".replace(") >= 1 and "\\\\" in f]
        if not found:
            raise ExtractError(f"no escaping chain found in {rel}")
        for f in found:
            chains.setdefault(f, []).append(rel)
    if len(chains) != 1:
        raise ExtractError(f"escaping chains differ between sites: {chains}")
    chain = next(iter(chains))
    pairs = []
    for m in re.finditer(r"\.replace\('((?:\\.|[^'\\]))',\s*\"((?:\\.|[^\"\\])*)\"\)", chain):
        unesc = lambda t: bytes(t, "utf-8").decode("unicode_escape")
        pairs.append((ord(unesc(m.group(1))), [ord(ch) for ch in unesc(m.group(2))]))
    c["escapePairs"] = pairs
    # every remote path interpolated into a command must sit inside $'...'
    c["quoteSites"] = sum(len(re.findall(r"\$'\{[a-z_]*\}", read("src/bin/copia/" + rel))) for rel in ("dir_sync.rs", "meta.rs", "single_sync.rs", "transfer.rs"))
    # the remote command for name lists (push --delete, remote mkdir): the format string of `guarded_xargs`, and every
    # `xargs` in the two files must be inside it (no call site may hand a list to a bare `xargs -0`)
    tr_txt = read("src/bin/copia/transfer.rs"); inc_txt = read("src/bin/copia/incremental.rs")
    gx = one(tr_txt, r'pub fn guarded_xargs\(tool: &str, len: usize\) -> String \{\s*format!\(\s*"((?:[^"\\]|\\.)*)"\s*\)\s*\}', "guarded_xargs format string")
    c["guardedXargs"] = bytes(gx, "utf-8").decode("unicode_escape")
    code_only = lambda t: re.sub(r"//[^\n]*", "", t)
    n_x = len(re.findall(r"xargs", code_only(tr_txt))) + len(re.findall(r"xargs", code_only(inc_txt)))
    n_calls = len(re.findall(r"guarded_xargs\(", code_only(tr_txt))) + len(re.findall(r"guarded_xargs\(", code_only(inc_txt)))
    if n_x != n_calls + 1:          # one literal `xargs` in the format string, the rest are calls of the helper (incl. its definition)
        raise ExtractError(f"`xargs` occurs {n_x} times in transfer.rs/incremental.rs but guarded_xargs( only {n_calls} times: a bare xargs command?")
    # the remote command of a push (`transfer_file_to_remote`): ONE and-or list; split into its stages and connectives
    fn = tr_txt[tr_txt.index("pub async fn transfer_file_to_remote"):]
    fn = fn[:fn.index("\npub ", 10)] if "\npub " in fn[10:] else fn
    touch = one(fn, r'let touch = mtime\.map_or\(String::new\(\), \|t\| \{?\s*format!\(\s*"((?:[^"\\]|\\.)*)"\s*\)\s*\}?\s*\);', "push: touch suffix")
    cmd = one(fn, r'\.arg\(format!\(\s*"((?:[^"\\]|\\.)*)"\s*,?\s*\)\)', "push: remote command")
    unesc = lambda x: bytes(x, "utf-8").decode("unicode_escape")
    if cmd.count("{touch}") != 1 or not cmd.endswith("{touch}"):
        raise ExtractError("push: the remote command no longer ends in {touch}")
    c["pushStages"], c["pushConns"] = and_or_list(unesc(cmd.replace("{touch}", touch)))
    c["serveChunk"] = arith(one(read("src/bin/copia/serve.rs"), r"vec!\[0u8; ([0-9_\s\*]+)\]", "serve chunk"))
    c["pushChunk"] = arith(one(read("src/bin/copia/transfer.rs"), r"vec!\[0u8; ([0-9_\s\*]+)\]", "push chunk"))
    return c


def and_or_list(cmd):
    """split a shell and-or list at its top-level `&&` / `||`; anything else at top level that sequences or groups commands
    (`;`, `|`, `&`, `{`, `(`, newline) is refused — the model (Model/Shell.lean) has and-or lists only"""
    stages, conns, cur, i, conn = [], [], "", 0, 0
    n = len(cmd)

    def skip_quoted(i):
        # returns the index after the quoted / substituted piece starting at i
        if cmd.startswith("$'", i):
            j = i + 2
            while cmd[j] != "'":
                j += 2 if cmd[j] == "\\" else 1
            return j + 1
        if cmd[i] == "'":
            return cmd.index("'", i + 1) + 1
        if cmd[i] == '"':
            j = i + 1
            while cmd[j] != '"':
                if cmd[j] == "\\":
                    j += 2
                elif cmd.startswith("$(", j):
                    j = skip_quoted(j)
                else:
                    j += 1
            return j + 1
        if cmd.startswith("$(", i):
            depth, j = 1, i + 2
            while depth:
                if cmd[j] in "'\"" or cmd.startswith("$'", j) or cmd.startswith("$(", j):
                    j = skip_quoted(j)
                    continue
                if cmd[j] == "(":
                    depth += 1
                elif cmd[j] == ")":
                    depth -= 1
                j += 1
            return j
        return None
    try:
        while i < n:
            j = skip_quoted(i)
            if j is not None:
                cur += cmd[i:j]; i = j
                continue
            if cmd.startswith("&&", i) or cmd.startswith("||", i):
                stages.append(cur.strip()); conns.append(conn)
                conn = 1 if cmd[i] == "&" else 2
                cur = ""; i += 2
                continue
            m_ = re.match(r"\{[a-z_]+\}", cmd[i:])
            if m_:                                  # a format placeholder, not a shell brace group
                cur += m_.group(0); i += len(m_.group(0))
                continue
            if cmd[i] in ";|&{}()\n`":
                raise ExtractError(f"push: remote command is not a plain and-or list (top-level {cmd[i]!r})")
            cur += cmd[i]; i += 1
    except (IndexError, ValueError):
        raise ExtractError("push: unbalanced quoting in the remote command")
    stages.append(cur.strip()); conns.append(conn)
    if any(not s_ for s_ in stages):
        raise ExtractError("push: empty stage in the remote command")
    return stages, conns


def lean_str(s):
    return '"' + s.replace("\\", "\\\\").replace('"', '\\"') + '"'


def render(c):
    L = []
    L.append("/-! GENERATED by tools/gen_constants.py from /repo on every check run — do not edit. -/")
    L.append("namespace Copia.Gen")
    for k in ["rollingMod", "fastMod", "normalizeInterval", "minBlock", "maxBlock", "builderMinBlock",
              "builderMaxBlock", "parThreshold", "protocolVersion", "maxPayloadSize", "frameHeaderSize",
              "wireVersion", "maxFrame", "archiveFormatVersion", "serveChunk", "pushChunk"]:
        L.append(f"def {k} : Nat := {c[k]}")
    L.append(f"def protocolMagic : List Nat := {list(c['protocolMagic'].encode())}")
    L.append(f"def wireMagic : List Nat := {list(c['wireMagic'].encode())}")
    L.append(f"def msgTypeCodes : List Nat := {c['msgTypeCodes']}")
    L.append(f"def fromU8Arms : List Nat := {c['fromU8Arms']}")
    L.append(f"def findPrintf : List Nat := {c['findPrintf']}")
    L.append("def escapePairs : List (Nat × List Nat) := [" + ", ".join(f"({a}, {b})" for a, b in c["escapePairs"]) + "]")
    L.append(f"def stagingSuffix : String := {lean_str(c['stagingSuffix'])}")
    L.append(f"def guardedXargs : String := {lean_str(c['guardedXargs'])}")
    L.append("def pushStages : List String := [" + ", ".join(lean_str(x) for x in c["pushStages"]) + "]")
    L.append(f"def pushConns : List Nat := {c['pushConns']}")
    L.append("end Copia.Gen")
    return "\n".join(L) + "\n"


def main():
    try:
        text = render(extract())
    except (ExtractError, OSError, AttributeError) as e:
        print(f"gen_constants: {e}", file=sys.stderr)
        return 1
    out = os.path.normpath(OUT)
    os.makedirs(os.path.dirname(out), exist_ok=True)
    old = open(out).read() if os.path.exists(out) else None
    if old != text:
        with open(out, "w") as f:
            f.write(text)
    return 0


if __name__ == "__main__":
    sys.exit(main())
