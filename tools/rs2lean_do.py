#!/usr/bin/env python3
"""Translator for copia's LOOP functions: Rust source text → Lean `do` blocks, statement by statement.

Regenerates on every check run
  lean/Copia/Gen/LoopsReconcile.lean from src/bin/copia/reconcile.rs: reconcile (the whole-tree three-way reconcile)
  lean/Copia/Gen/LoopsPlan.lean      from src/bin/copia/plan.rs: build_plan, is_excluded, glob_match
(`rs2lean_do.py reconcile|plan` regenerates one of them, no argument both)
`Copia/Lemmas/GenEqLoops*.lean` proves each generated definition equal to the hand-written model
(`Copia.Reconcile.reconcile`, `Copia.Plan.buildPlan`, `isExcluded`, `globMatch`) that the C18 / C19 /
C15 / C04 theorems are about, so those theorems are re-checked against what the source says now.

The translation is syntactic: a `let [mut]` stays a `let [mut]`, `x = e` / `x += e` / `v.push(e)` /
`v.sort()` / `v.dedup()` become re-assignments of the same variable, `for … in …`, `if`, `if let`,
`continue`, `return` stay what they are (Lean's `do` notation has all of them). What is interpreted:
  * containers: a `BTreeMap` is an association list in key order (`keys`, `lookup`), a `Vec` / `&str` /
    `&Path` is a `List`; `.iter() .copied() .clone() .collect() .chars() .to_string_lossy()`, `&` and `*`
    are the identity; `sort` / `sort_unstable` is `mergeSort le` for the key order `le` (a parameter);
  * `rel.components()` yields `Comp.normal c` for the `/`-separated pieces of a normalised relative path;
  * `usize` is `Nat`; `p[i]` is `p[i]!` (every use in the source sits behind its bounds test);
  * `while c { … }` becomes at most `fuel` rounds of `if !c then break; …`; a function with a `while`
    takes `fuel` and returns `Option`: `none` = some loop had not finished after `fuel` rounds.
Anything outside the subset is a TranslateError = broken obligation.
"""
import os, re, sys

REPO = os.environ.get("COPIA_REPO", "/repo")
OUTDIR = os.environ.get("RS2LEAN_DO_OUT") or os.path.normpath(os.path.join(os.path.dirname(os.path.abspath(__file__)), "..", "lean", "Copia", "Gen"))


class TranslateError(Exception):
    pass


TOK = re.compile(r"\s*('(?:\\.|[^'\\])'|\"(?:[^\"\\]|\\.)*\"|\+=|-=|==|!=|<=|>=|&&|\|\||::|->|=>|[A-Za-z_][A-Za-z0-9_]*|\d[\d_]*[a-z0-9]*|[{}()\[\],;:.|!&=<>+\-*/%#?])")


def tokenize(src):
    src = re.sub(r"//[^\n]*", "", src)
    toks, i = [], 0
    while i < len(src):
        m = TOK.match(src, i)
        if not m:
            if src[i:].strip() == "":
                break
            raise TranslateError(f"cannot tokenize at: {src[i:i+30]!r}")
        toks.append(m.group(1))
        i = m.end()
    return toks


def fn_source(text, name):
    m = None
    for m_ in re.finditer(r"\bfn " + re.escape(name) + r"\s*(?=[<(])", text):
        e_ = m_.end()
        if text[e_] == "<":
            # generic parameters, possibly nested (`T: for<'de> Deserialize<'de>`)
            depth = 0
            while True:
                if text[e_] == "<":
                    depth += 1
                elif text[e_] == ">" and text[e_ - 1] != "-":
                    depth -= 1
                    if depth == 0:
                        break
                e_ += 1
            e_ += 1
            while text[e_].isspace():
                e_ += 1
            if text[e_] != "(":
                continue
        # the definition, not a trait's declaration (`fn f(..) -> T;`)
        pe, depth = e_, 0
        while pe < len(text):                       # past the parameter list (a `;` inside it — `[u8; 32]` — is not the end of a declaration)
            depth += {"(": 1, ")": -1}.get(text[pe], 0)
            pe += 1
            if depth == 0:
                break
        # … and past the return type: the first `{` or `;` OUTSIDE brackets decides (`-> [u8; Self::SIZE] {` is a definition)
        q, depth, a, b = pe, 0, -1, -1
        while q < len(text):
            ch = text[q]
            if ch in "[(":
                depth += 1
            elif ch in "])":
                depth -= 1
            elif depth == 0 and ch == "{":
                a = q
                break
            elif depth == 0 and ch == ";":
                b = q
                break
            q += 1
        if a != -1 and (b == -1 or a < b):
            m = m_
            mend = e_
            break
    if not m:
        raise TranslateError(f"fn {name} not found")
    j = text.index("{", mend)
    sig = " ".join(text[m.start():j].split())
    depth, k = 0, j
    while True:
        if text[k] == "{":
            depth += 1
        elif text[k] == "}":
            depth -= 1
            if depth == 0:
                break
        k += 1
    return sig, text[j:k + 1]


IDENT = re.compile(r"^[A-Za-z_][A-Za-z0-9_]*$")
KEYWORDS = {"let", "mut", "for", "in", "if", "else", "while", "continue", "return", "true", "false", "None", "Some"}


class Fn:
    """one function: parse its body and emit Lean `do` lines"""

    def __init__(self, toks, cfg):
        self.t, self.i = toks, 0
        self.cfg = cfg
        self.calls = cfg.get("calls", {})        # rust fn name -> callable(args) -> lean
        self.paths = cfg.get("paths", {})        # "A::B" -> lean term / constructor
        self.has_while = False
        self.nloop = 0
        self.tail_var = None
        self.loop_stack = []
        self.idents = cfg.get("idents", {})      # rust identifier -> lean term
        self.fields = cfg.get("fields", {})      # rust field -> lean field
        self.effects = cfg.get("effects", {})    # statement-level calls with side effects on the modelled world
        self.retval = cfg.get("retval")          # what `Ok(())` / falling off the end returns (functions over a modelled world)

    def peek(self, k=0):
        return self.t[self.i + k] if self.i + k < len(self.t) else None

    def eat(self, x=None):
        tok = self.peek()
        if tok is None or (x is not None and tok != x):
            raise TranslateError(f"expected {x!r}, found {tok!r}: … {' '.join(self.t[max(0, self.i-8):self.i+6])}")
        self.i += 1
        return tok

    # ------------------------------------------------------------------ expressions
    def expr(self, nostruct=False):
        return self.or_()

    def or_(self):
        a = self.and_()
        while self.peek() == "||":
            self.eat()
            a = f"({a} || {self.and_()})"
        return a

    def and_(self):
        a = self.cmp()
        while self.peek() == "&&":
            self.eat()
            a = f"({a} && {self.cmp()})"
        return a

    def cmp(self):
        a = self.add()
        if self.peek() in ("==", "!=", "<", "<=", ">", ">="):
            op = self.eat()
            b = self.add()
            if op == ">=" and a.endswith(".digest") and b.endswith(".digest"):
                return f"(ge {a} {b})"           # the byte order of two digests is a parameter of the model
            # comparisons are decided as Booleans (`decide` for the orders on Nat)
            return f"({a} {op} {b})" if op in ("==", "!=") else f"(decide ({a} {op} {b}))"
        return a

    def add(self):
        a = self.mul()
        while self.peek() in ("+", "-"):
            op = self.eat()
            a = f"({a} {op} {self.mul()})"
        return a

    def mul(self):
        a = self.cast()
        while self.peek() == "*":
            self.eat()
            a = f"({a} * {self.cast()})"
        return a

    def cast(self):
        a = self.unary()
        while self.peek() == "as":
            self.eat()
            ty = self.eat()
            if ty in ("usize", "u64"):
                pass                                  # sizes and offsets are unbounded naturals in the model
            elif ty == "u32":
                a = f"({a} % 4294967296)"
            else:
                raise TranslateError(f"cast to {ty}")
        return a

    def unary(self):
        if self.peek() == "!":
            self.eat()
            return f"(!{self.unary()})"
        if self.peek() in ("&", "*"):
            self.eat()
            if self.peek() == "mut":
                self.eat()
            return self.unary()
        return self.postfix()

    def args(self):
        self.eat("(")
        out = []
        while self.peek() != ")":
            out.append(self.expr())
            if self.peek() == ",":
                self.eat()
        self.eat(")")
        return out

    def postfix(self):
        e = self.primary()
        while True:
            if self.peek() == "." and self.peek(1) == ".":
                return e                              # `a..b`: the caller (an index) handles the range
            if self.peek() == ".":
                self.eat()
                name = self.eat()
                if self.peek() == "(":
                    a = self.args()
                    e = self.method(e, name, a)
                else:
                    e = f"{e}.{self.fields.get(name, name)}"
            elif self.peek() == "[":
                self.eat()
                lo = None if self.peek() == "." else self.expr()
                if self.peek() == "." and self.peek(1) == ".":
                    self.eat(); self.eat()
                    hi = None if self.peek() == "]" else self.expr()
                    self.eat("]")
                    lo_ = lo or "(0 : Nat)"
                    e = f"({e}.drop {lo_})" if hi is None else f"(({e}.drop {lo_}).take ({hi} - {lo_}))"
                else:
                    self.eat("]")
                    e = f"{e}[{lo}]!"
            else:
                return e

    def method(self, r, name, a):
        n = len(a)
        if name in self.cfg.get("methods", {}):
            return self.cfg["methods"][name](r, a)
        ident = {"iter", "copied", "clone", "collect", "chars", "to_string_lossy", "cloned", "into_iter", "to_path_buf", "to_owned", "as_os_str"}
        if name == "join" and n == 1:
            return f"({r}, {a[0]})"              # a location: (replica root, relative path)
        if name == "is_err" and n == 0:
            return f"{r}.isNone"
        if name == "is_ok" and n == 0:
            return f"{r}.isSome"
        if name in ident and n == 0:
            return r
        if name == "keys" and n == 0:
            return f"(keys {r})"
        if name == "chain" and n == 1:
            return f"({r} ++ {a[0]})"
        if name == "get" and n == 1:
            return f"(lookup {r} {a[0]})"
        if name == "contains_key" and n == 1:
            return f"(lookup {r} {a[0]}).isSome"
        if name == "len" and n == 0:
            return f"{r}.length"
        if name == "is_empty" and n == 0:
            return f"{r}.isEmpty"
        if name == "contains" and n == 1:
            return f"({r}.contains {a[0]})"
        if name == "trim_end_matches" and a == ["'/'"]:
            return f"(trimEndSlash {r})"
        if name == "components" and n == 0:
            return f"(components {r})"
        raise TranslateError(f"method .{name}/{n} is outside the translated subset")

    def primary(self):
        tok = self.peek()
        if tok == "|":
            # a closure `|p, _| body` (as handed to `retain`): a function of one pair
            self.eat()
            names = []
            while self.peek() != "|":
                names.append(self.pattern()[0])
                if self.peek() == ",":
                    self.eat()
            self.eat("|")
            if self.peek() == "{":
                self.eat()
                while self.peek() == "#" and self.peek(1) == "[":      # attributes inside the closure body
                    depth, k = 0, self.i + 1
                    while True:
                        depth += {"[": 1, "]": -1}.get(self.t[k], 0)
                        k += 1
                        if depth == 0:
                            break
                    self.i = k
                body = self.expr()
                self.eat("}")
            else:
                body = self.expr()
            arg = names[0] if len(names) == 1 and names[0].startswith("(") else "(" + ", ".join(names) + ")"
            return f"(fun {arg} => {body})"
        if tok == "(" and self.peek(1) == ")":
            self.eat(); self.eat()
            return "()"
        if tok == "(":
            self.eat()
            items = [self.expr()]
            while self.peek() == ",":
                self.eat()
                if self.peek() == ")":
                    break
                items.append(self.expr())
            self.eat(")")
            return items[0] if len(items) == 1 else "(" + ", ".join(items) + ")"
        if tok == "if":
            self.eat()
            c = self.expr()
            self.eat("{")
            a = self.expr()
            self.eat("}")
            self.eat("else")
            self.eat("{")
            b = self.expr()
            self.eat("}")
            return f"(if {c} then {a} else {b})"
        if tok is None:
            raise TranslateError("unexpected end of input")
        if tok.startswith("'"):
            self.eat()
            return tok
        if tok.startswith('"'):
            self.eat()
            return tok if self.cfg.get("strings_plain") else f"{tok}.toList"
        if re.match(r"^\d", tok):
            self.eat()
            m = re.match(r"^(\d[\d_]*)(usize|u64|u32)?$", tok)
            if not m:
                raise TranslateError(f"literal {tok}")
            return f"({m.group(1).replace('_', '')} : Nat)"
        if tok in ("true", "false"):
            self.eat()
            return tok
        if tok == "None":
            self.eat()
            return "none"
        if tok == "Some":
            self.eat()
            a = self.args()
            if len(a) != 1:
                raise TranslateError("Some/arity")
            return f"(some {a[0]})"
        if IDENT.match(tok):
            self.eat()
            parts = [tok]
            while self.peek() == "::":
                self.eat()
                parts.append(self.eat())
            key = "::".join(parts)
            if len(parts) > 1:
                if key in self.cfg.get("struct_ctors", {}) and self.peek() == "{":
                    # `Enum::Variant { f: e, … }` → the model's constructor applied to the fields in ITS order (all must be given)
                    ctor, order = self.cfg["struct_ctors"][key]
                    self.eat("{")
                    got = {}
                    while self.peek() != "}":
                        fld = self.eat()
                        val = self.idents.get(fld, fld)
                        if self.peek() == ":":
                            self.eat()
                            val = self.expr()
                        got[fld] = val
                        if self.peek() == ",":
                            self.eat()
                    self.eat("}")
                    if sorted(got) != sorted(order):
                        raise TranslateError(f"{key}: fields {sorted(got)} are not {sorted(order)}")
                    return "(" + ctor + " " + " ".join(got[f_] for f_ in order) + ")"
                if key not in self.paths:
                    raise TranslateError(f"path {key} is outside the translated subset")
                v = self.paths[key]
                if self.peek() == "(":
                    a = self.args()
                    return v if not a else f"({v} {' '.join(a)})"
                return v
            if tok in self.cfg.get("structs", ()) and self.peek() == "{":
                self.eat("{")
                fs_ = []
                while self.peek() != "}":
                    fld = self.eat()
                    val = self.idents.get(fld, fld)
                    if self.peek() == ":":
                        self.eat()
                        val = self.expr()
                    fs_.append(f"{self.fields.get(fld, fld)} := {val}")
                    if self.peek() == ",":
                        self.eat()
                self.eat("}")
                return "{ " + ", ".join(fs_) + " }"
            if self.peek() == "(":
                if tok not in self.calls:
                    raise TranslateError(f"call of {tok} is outside the translated subset")
                return self.calls[tok](self.args())
            if tok in KEYWORDS:
                raise TranslateError(f"unexpected keyword {tok}")
            return self.idents.get(tok, tok)
        raise TranslateError(f"unexpected token {tok!r}")

    # ------------------------------------------------------------------ patterns
    def pattern(self):
        """a `let` / `for` / `if let` pattern → (lean pattern, [(name, is_mut)])"""
        tok = self.peek()
        for rust, lean_pat in self.cfg.get("patterns", {}).items():
            tk = tokenize(rust)
            if self.t[self.i:self.i + len(tk)] == tk:
                self.i += len(tk)
                return lean_pat, []
        if tok == "(":
            self.eat()
            subs = []
            while self.peek() != ")":
                subs.append(self.pattern())
                if self.peek() == ",":
                    self.eat()
            self.eat(")")
            return "(" + ", ".join(s[0] for s in subs) + ")", [v for s in subs for v in s[1]]
        if tok == "&":
            self.eat()
            return self.pattern()
        if tok == "_":
            self.eat()
            return "_", []
        mut = False
        if re.match(r"^\d+$", tok or ""):
            self.eat()
            return tok, []
        if tok == "mut":
            self.eat()
            mut = True
        name = self.eat()
        if name == "Some":
            self.eat("(")
            inner = self.pattern()
            self.eat(")")
            return (f"some ({inner[0]})" if " " in inner[0] else f"some {inner[0]}"), inner[1]
        parts = [name]
        while self.peek() == "::":
            self.eat()
            parts.append(self.eat())
        if len(parts) > 1:
            key = "::".join(parts)
            if key not in self.paths:
                raise TranslateError(f"pattern path {key}")
            if self.peek() == "(":
                self.eat("(")
                inner = self.pattern()
                self.eat(")")
                return f"{self.paths[key]} {inner[0]}", inner[1]
            if self.peek() == "{":
                self.eat("{")
                names = []
                while self.peek() != "}":
                    fld = self.eat()
                    if self.peek() == ":":                # `field: binding`
                        self.eat()
                        fld = self.eat()
                    names.append(self.idents.get(fld, fld))
                    if self.peek() == ",":
                        self.eat()
                self.eat("}")
                return f"{self.paths[key]} {' '.join(names)}", [(n_, False) for n_ in names]
            return self.paths[key], []
        if not IDENT.match(name):
            raise TranslateError(f"pattern {name}")
        name = self.idents.get(name, name)
        return name, [(name, mut)]

    def skip_type(self):
        depth = 0
        while True:
            tok = self.peek()
            if tok in ("<", "("):
                depth += 1
            elif tok in (">", ")"):
                depth -= 1
            elif tok == "=" and depth == 0:
                return
            self.eat()

    # ------------------------------------------------------------------ statements
    def lvalue_assign(self, lv, rhs):
        """`x := rhs` or, for a field path `x.f`, a structure update of `x`"""
        parts = lv.split(".")
        if len(parts) == 1:
            return f"{lv} := {rhs}"
        if len(parts) == 2:
            return f"{parts[0]} := {{ {parts[0]} with {parts[1]} := {rhs} }}"
        raise TranslateError(f"assignment target {lv}")

    def block(self, ind):
        self.eat("{")
        out = self.stmts(ind, "}")
        self.eat("}")
        return out or [" " * ind + "pure ()"]

    def stmts(self, ind, end):
        out, pad = [], " " * ind
        while self.peek() != end:
            tok = self.peek()
            hit = None
            for rust, lean_line in self.cfg.get("verbatim", []):
                tk = tokenize(rust)
                if self.t[self.i:self.i + len(tk)] == tk:
                    hit = (len(tk), lean_line)
                    break
            if tok == "#" and self.peek(1) == "[":
                depth, k = 0, self.i + 1
                while True:
                    depth += {"[": 1, "]": -1}.get(self.t[k], 0)
                    k += 1
                    if depth == 0:
                        break
                self.i = k                            # an attribute: no run-time meaning
                continue
            if tok == "{" and not hit:
                out += self.block(ind)                # a bare block: its statements, in place (unless the block as a whole is listed)
                continue
            if tok in ("eprintln", "println") and self.peek(1) == "!":
                depth, k = 0, self.i + 2
                while True:
                    depth += {"(": 1, ")": -1}.get(self.t[k], 0)
                    k += 1
                    if depth == 0:
                        break
                if self.t[k] != ";":
                    raise TranslateError("print macro used as a value")
                self.i = k + 1                        # terminal output is not part of the modelled world
                continue
            bh = None
            for h_ in self.cfg.get("block_heads", []):
                tk = tokenize(h_["rust"])
                if self.t[self.i:self.i + len(tk)] == tk:
                    bh = (len(tk), h_)
                    break
            if bh:
                # a construct whose HEAD is known token-for-token (a closure handed to a known function, a read loop):
                # the head and the tail get their listed meaning, the statements in between are translated as usual
                self.i += bh[0]
                h_ = bh[1]
                before_ = h_.get("before", "")
                fin_ = None
                if h_.get("loop"):
                    # a loop whose HEAD is listed: a fuel loop like `while`, left in an orderly way through @FIN@ (or a `break` in its body)
                    self.has_while = True
                    self.nloop += 1
                    fin_ = f"fin{self.nloop}"
                    out.append(f"{pad}let mut {fin_} := false")
                    before_ = before_.replace("@FIN@", fin_)
                    self.loop_stack.append(fin_)
                out += [pad + ln_ for ln_ in before_.split("\n") if ln_]
                saved = self.tail_var
                self.tail_var = h_.get("tail_var")
                body = self.stmts(ind + h_.get("indent", 0), "}")
                self.tail_var = saved
                self.eat("}")
                if fin_:
                    self.loop_stack.pop()
                for c_ in tokenize(h_.get("close", "")):
                    self.eat(c_)
                out += body or ([" " * (ind + h_.get("indent", 0)) + "pure ()"] if h_.get("indent", 0) else [])
                out += [pad + ln_ for ln_ in h_.get("after", "").split("\n") if ln_]
                if fin_:
                    out.append(f"{pad}if !{fin_} then")
                    out.append(f"{pad}  return none")
                continue
            if hit:
                self.i += hit[0]
                if hit[1]:
                    out += [pad + ln_ for ln_ in hit[1].split("\n")]
                continue
            if tok == "let":
                self.eat()
                if self.peek() == "_" and self.peek(1) == "=":
                    # `let _ = effect(args);` — the result is dropped, the effect stays
                    self.eat(); self.eat()
                    out.append(pad + self.effect_stmt(question_ok=False))
                    continue
                pat, vars_ = self.pattern()
                if self.peek() == ":":
                    self.eat()
                    self.skip_type()
                self.eat("=")
                if self.peek() == "{":
                    # a block expression: only the ones listed in the function's table (token-for-token), with their meaning
                    depth, k = 0, self.i
                    while True:
                        depth += {"{": 1, "}": -1}.get(self.t[k], 0)
                        k += 1
                        if depth == 0:
                            break
                    body = " ".join(self.t[self.i + 1:k - 1])
                    (n, m), = vars_
                    known = self.cfg.get("block_exprs", {}).get(n)
                    if known is None or " ".join(tokenize(known[0])) != body:
                        raise TranslateError(f"block expression bound to `{n}` is not the one the translator knows: {body[:120]}")
                    self.i = k
                    self.eat(";")
                    out.append(f"{pad}let {n} := {known[1]}")
                    continue
                if pat.startswith("(") and self.peek() == "(":
                    save = self.i
                    # `let (mut a, mut b) = (e1, e2);` → one `let` per component
                    self.eat("(")
                    rhs = []
                    while self.peek() != ")":
                        rhs.append(self.expr())
                        if self.peek() == ",":
                            self.eat()
                    self.eat(")")
                    if self.peek() == ";" and len(rhs) == len(vars_) and all("some " not in x for x in [pat]):
                        for (n, m), e in zip(vars_, rhs):
                            out.append(f"{pad}let {'mut ' if m else ''}{n} := {e}")
                        self.eat(";")
                        continue
                    self.i = save
                e = self.expr()
                if self.peek() == "else":
                    # let-else: the only alternative translated is leaving the function with its normal result
                    self.eat()
                    self.eat("{"); self.eat("return"); alt = self.expr(); self.eat(";"); self.eat("}")
                    self.eat(";")
                    out.append(f"{pad}let {pat} := {e} | return {self.ret(alt)}")
                    continue
                if pat.startswith("("):
                    if any(m for _, m in vars_):
                        raise TranslateError("tuple let with `mut` from a non-literal")
                    out.append(f"{pad}let {pat} := {e}")
                else:
                    (n, m), = vars_
                    out.append(f"{pad}let {'mut ' if m else ''}{n} := {e}")
                self.eat(";")
            elif tok == "for":
                self.eat()
                pat, _ = self.pattern()
                self.eat("in")
                it = self.expr()
                out.append(f"{pad}for {pat} in {it} do")
                out += self.block(ind + 2)
            elif tok in ("while", "loop"):
                self.eat()
                self.has_while = True
                self.nloop += 1
                fin = f"fin{self.nloop}"
                out.append(f"{pad}let mut {fin} := false")
                out.append(f"{pad}for _ in List.replicate fuel () do")
                if tok == "while":
                    c = self.expr()
                    out.append(f"{pad}  if !{c} then")
                    out.append(f"{pad}    {fin} := true")
                    out.append(f"{pad}    break")
                self.loop_stack.append(fin)
                out += self.block(ind + 2)
                self.loop_stack.pop()
                out.append(f"{pad}if !{fin} then")
                out.append(f"{pad}  return none")
            elif tok == "break" and self.loop_stack:
                # leaving a fuel loop by `break` is an orderly end of the loop (not an exhausted fuel)
                self.eat()
                self.eat(";")
                out.append(f"{pad}{self.loop_stack[-1]} := true")
                out.append(f"{pad}break")
            elif tok == "if":
                out += self.if_(ind)
            elif tok == "match":
                out += self.match_(ind)
            elif self.is_effect_call():
                out += [pad + ln_ for ln_ in self.effect_stmt(question_ok=True).split("\n")]
            elif tok == "continue":
                self.eat()
                self.eat(";")
                out.append(f"{pad}continue")
            elif tok == "return":
                self.eat()
                e = self.expr()
                self.eat(";")
                out.append(f"{pad}return {self.ret(e)}")
            else:
                save = self.i
                # `target.method(args);` mutators, assignments, or the trailing expression
                e = self.expr_or_mutation(ind)
                if e is not None:
                    out.append(e)
                    continue
                self.i = save
                e = self.expr()
                if self.peek() in ("=", "+=", "-="):
                    op = self.eat()
                    rhs = self.expr()
                    self.eat(";")
                    if op != "=":
                        rhs = f"{e} {op[0]} {rhs}"
                    out.append(pad + self.lvalue_assign(e, rhs))
                elif self.peek() == end and self.tail_var:
                    out.append(f"{pad}{self.tail_var} := {e}")
                elif self.peek() == end:
                    out.append(f"{pad}return {self.ret(e)}")
                else:
                    raise TranslateError(f"statement at … {' '.join(self.t[save:save+8])}")
        return out

    def match_(self, ind):
        pad, out = " " * ind, []
        self.eat("match")
        e = None
        for rust, (pre, val) in self.cfg.get("match_effects", {}).items():
            tk = tokenize(rust)
            if self.t[self.i:self.i + len(tk)] == tk:
                # the scrutinee is a call with an effect: the effect first, then the case split on its outcome
                self.i += len(tk)
                out += [pad + ln_ for ln_ in pre.split("\n") if ln_]
                e = val
                break
        if e is None:
            e = self.expr(nostruct=True)
        self.eat("{")
        out.append(f"{pad}match {e} with")
        while self.peek() != "}":
            pats = [self.pattern()[0]]
            while self.peek() == "|":
                self.eat()
                pats.append(self.pattern()[0])
            pats = [p_ for p_ in pats if not p_.startswith("∅")]      # alternatives that cannot occur in the modelled world
            self.eat("=>")
            out.append(f"{pad}| {' | '.join(pats)} =>")
            if self.peek() == "{":
                out += self.block(ind + 2)
            elif self.peek() == "return":
                self.eat()
                e = self.expr()
                out.append(f"{pad}  return {self.ret(e)}")
            elif self.peek() == "match":
                out += self.match_(ind + 2)
            elif self.peek() == "break" and self.loop_stack:
                self.eat()
                out.append(f"{pad}  {self.loop_stack[-1]} := true")
                out.append(f"{pad}  break")
            elif self.is_effect_call():
                # `pattern => effect(args)?,` — the call with its listed meaning (no `;`: the arm's value is `()`)
                parts = []
                while IDENT.match(self.peek()) or self.peek() == "::":
                    parts.append(self.eat())
                name = "".join(parts)
                a = self.args()
                q = False
                if self.peek() == "?":
                    self.eat(); q = True
                fallible, fn = self.effects[name]
                if fallible != q:
                    raise TranslateError(f"{name}: error handling changed (`?` {'expected' if fallible else 'unexpected'})")
                out += [f"{pad}  {ln_}" for ln_ in fn(a).split("\n")]
            elif self.tail_var:
                out.append(f"{pad}  {self.tail_var} := {self.expr()}")
            else:
                lv = self.expr()
                if self.peek() not in ("=", "+=", "-="):
                    raise TranslateError("match arm that is neither a block, a return, a break nor an assignment")
                op = self.eat()
                rhs = self.expr()
                if op != "=":
                    rhs = f"{lv} {op[0]} {rhs}"
                out.append(f"{pad}  " + self.lvalue_assign(lv, rhs))
            if self.peek() == ",":
                self.eat()
        self.eat("}")
        return out

    def ret(self, e):
        if self.retval is not None:
            if e != "OK":
                raise TranslateError(f"this function can only return Ok(()), found {e}")
            return self.retval
        return f"(some {e})" if self.cfg.get("option") else e

    def is_effect_call(self):
        k = self.i
        parts = []
        while k < len(self.t) and (IDENT.match(self.t[k]) or self.t[k] == "::"):
            parts.append(self.t[k]); k += 1
        return "".join(parts) in self.effects and k < len(self.t) and self.t[k] == "("

    def effect_stmt(self, question_ok):
        parts = []
        while IDENT.match(self.peek()) or self.peek() == "::":
            parts.append(self.eat())
        name = "".join(parts)
        if name not in self.effects:
            raise TranslateError(f"call of {name} is outside the translated subset")
        a = self.args()
        q = False
        if self.peek() == "?":
            self.eat(); q = True
        self.eat(";")
        fallible, fn = self.effects[name]
        if fallible != q or (q and not question_ok):
            raise TranslateError(f"{name}: error handling changed (`?` {'expected' if fallible else 'unexpected'})")
        return fn(a)

    def expr_or_mutation(self, ind):
        """`a.b.push(x);` / `.sort()` / `.sort_unstable()` / `.dedup()` — else None (caller rewinds)"""
        pad = " " * ind
        toks = []
        k = self.i
        while k < len(self.t) and (IDENT.match(self.t[k]) or self.t[k] == "."):
            toks.append(self.t[k])
            k += 1
        if len(toks) < 3 or toks[-2] != "." or k >= len(self.t) or self.t[k] != "(":
            return None
        name = toks[-1]
        lv0 = "".join(toks[:-2])
        if (lv0, name) in self.cfg.get("mutators", {}):
            self.i = k
            a = self.args()
            self.eat(";")
            return pad + self.cfg["mutators"][(lv0, name)](a)
        if name not in ("push", "sort", "sort_unstable", "dedup", "insert", "remove", "retain"):
            return None
        lv = "".join(toks[:-2])
        self.i = k
        a = self.args()
        self.eat(";")
        if name == "push" and len(a) == 1 and lv in self.cfg.get("push_override", {}):
            return pad + self.cfg["push_override"][lv]
        if name == "retain" and len(a) == 1:
            return pad + self.lvalue_assign(lv, f"{lv}.filter {a[0]}")
        if name == "insert" and len(a) == 2:
            return pad + self.lvalue_assign(lv, f"cIns {lv} {a[0]} {a[1]}")
        if name == "remove" and len(a) == 1:
            return pad + self.lvalue_assign(lv, f"cDel {lv} {a[0]}")
        if name == "push" and len(a) == 1:
            return pad + self.lvalue_assign(lv, f"{lv} ++ [{a[0]}]")
        if name in ("sort", "sort_unstable") and not a:
            return pad + self.lvalue_assign(lv, f"{lv}.mergeSort le")
        if name == "dedup" and not a:
            return pad + self.lvalue_assign(lv, f"dedupAdj {lv}")
        raise TranslateError(f"mutator .{name}/{len(a)}")

    def if_(self, ind):
        pad = " " * ind
        self.eat("if")
        if self.peek() == "let":
            self.eat()
            pat, _ = self.pattern()
            self.eat("=")
            e = self.expr()
            head = f"if let {pat} := {e} then"
        else:
            head = f"if {self.expr()} then"
        out = [pad + head] + self.block(ind + 2)
        if self.peek() == "else":
            self.eat()
            if self.peek() == "if":
                rest = self.if_(ind)
                out.append(pad + "else " + rest[0].lstrip())
                out += rest[1:]
            else:
                out.append(pad + "else")
                out += self.block(ind + 2)
        return out


def rp(args):
    return "(Copia.Gen.reconcilePath " + " ".join(args) + ")"



def _scan_cfg(file, fn, lean_name):
    return dict(group="delta", file=file, fn=fn, sig=None,
        name=f"{fn} (the scan: from `let mut pos = 0usize;` to the tail literal)",
        slice=("let mut pos = 0usize;", "delta.push_literal(&source_data[pos..]);"), slice_close=1, option=True,
        lean=f"def {lean_name} {{D : Type}} [DecidableEq D] (fuel : Nat) (H : List Nat → D) (table : List (BlockSig D)) (block_size : Nat)\n"
             "    (source_data : List Nat) (rops0 : List Op) : Option (List Op) := Id.run do\n"
             "  -- world: the op list under construction (`delta.ops`, kept in the model's accumulator form)\n"
             "  let mut rops := rops0",
        epilogue=["return (some rops)"],
        paths={"FastRollingChecksum::new": "Fast.new", "u64::from": "id"},
        methods={"has_weak_match": lambda r, a: f"(hasWeak {r} {a[0]})",
                 "find_match": lambda r, a: f"(findStrong H {r} {a[0]} {a[1]})",
                 "digest": lambda r, a: f"{r}.digest",
                 "min": lambda r, a: f"(min {r} {a[0]})"},
        mutators={("rolling", "roll"): lambda a: f"rolling := rolling.roll {a[0]} {a[1]}",
                  ("delta", "push_copy"): lambda a: f"rops := pushCopy rops {a[0]} {a[1]}",
                  ("delta", "push_literal_byte"): lambda a: f"rops := pushLiteralByte rops {a[0]}",
                  ("delta", "push_literal"): lambda a: f"rops := pushLiteral rops {a[0]}"},
        calls={})


_PATCH_PATHS = {"DeltaOp::Copy": "Op.copy", "DeltaOp::Literal": "Op.literal", "u64::from": "id"}


def _patch_cfg(file, lean_name, is_async):
    vb = [("delta.validate()?;", "if !(validate delta) then\n  return (PatchResult.invalidCopyBounds, output)"),
          ("let mut hasher = blake3::Hasher::new();", "let mut hasher : List Nat := []"),
          ("basis.seek(SeekFrom::Start(*offset))?;", "let pos := offset"),
          ("basis.seek(std::io::SeekFrom::Start(*offset))?;", "let pos := offset"),
          ("let mut buffer = vec![0u8; *len as usize];", ""),
          ("basis.read_exact(&mut buffer)?;", "if !(decide (pos + len ≤ basis.length)) then\n  return (PatchResult.io, output)\nlet buffer := (basis.drop pos).take len"),
          ("output.write_all(&buffer)?;", "output := output ++ buffer"),
          ("hasher.update(&buffer);", "hasher := hasher ++ buffer"),
          ("output.write_all(data)?;", "output := output ++ data"),
          ("hasher.update(data);", "hasher := hasher ++ data"),
          ("output.flush()?;", ""),
          ("let computed = StrongHash::from_bytes(*hasher.finalize().as_bytes());", "let computed := H hasher"),
          ("return Err(CopiaError::ChecksumMismatch { expected: *delta.checksum.as_bytes(), actual: *computed.as_bytes(), });",
           "return (PatchResult.checksumMismatch, output)"),
          ('debug_assert_eq!( delta.expected_output_size(), delta.source_size, "expected output size must equal source size" );', ""),
          ('debug_assert_eq!( bytes_written, delta.source_size, "bytes written must equal source size" );', "")]
    return dict(group="delta", file=file, fn="patch", sig=None, name="patch",
        subst=[("self.config.verify_checksum", "verify_checksum")] + ([(".await", "")] if is_async else []),
        lean=f"def {lean_name} {{D : Type}} [DecidableEq D] (H : List Nat → D) (verify_checksum : Bool) (basis : List Nat) (delta : Delta D) :\n"
             "    PatchResult × List Nat := Id.run do\n"
             "  -- world: the bytes written to `output` so far (returned with the verdict), the bytes fed to the hasher\n"
             "  let mut output : List Nat := []",
        retval="(PatchResult.ok, output)",
        calls={"Ok": lambda a: "OK" if a == ["()"] else (_ for _ in ()).throw(TranslateError("Ok(..) with a value"))},
        verbatim=vb, paths=_PATCH_PATHS, methods={"len": lambda r, a: f"{r}.length"})


_OPS_PATHS = {"DeltaOp::Copy": "Op.copy", "DeltaOp::Literal": "Op.literal", "u64::from": "id"}
_OPS_COMMON = dict(group="delta", file="src/delta.rs", calls={}, paths=_OPS_PATHS, epilogue=["return ops"],
                   subst=[("self.ops.last_mut()", "ops_last")], idents={"ops_last": "ops.getLast?"},
                   methods={"checked_add": lambda r, a: f"(checkedAdd32 {r} {a[0]})", "is_empty": lambda r, a: f"{r}.isEmpty"})

FUNCS = [
    dict(group="delta", file="src/signature.rs", name="compute", sig="fn compute(index: u32, data: &[u8]) -> Self",
         lean="def blockCompute {D : Type} (H : List Nat → D) (index : Nat) (data : List Nat) : BlockSig D :=",
         expr_body=True, structs=("Self",), fields={"weak_hash": "weak", "strong_hash": "strong"},
         calls={}, paths={"RollingChecksum::new": "Copia.Checksum.Rolling.new", "StrongHash::compute": "H"},
         methods={"digest": lambda r, a: f"{r}.digest"}),
    dict(group="delta", file="src/async_sync.rs", fn="signature", sig=None, option=True,
         name="AsyncCopiaSync::signature (from `let mut blocks = Vec::new();` to the end of the `loop`)",
         slice=("let mut blocks = Vec::new();", "index = index.saturating_add(1);"), slice_close=1,
         lean="def signatureAsync {D : Type} (H : List Nat → D) (fuel : Nat) (block_size : Nat) (reader0 : Reader) :\n"
              "    Option (Nat × List (BlockSig D)) := Id.run do\n"
              "  -- world: the reader (what it still holds, and how many bytes each coming `read` is willing to hand out); `buffer` is\n"
              "  -- modelled by its FILLED prefix (the only part `&buffer[..bytes_read]` looks at)\n"
              "  let mut reader := reader0",
         epilogue=["return (some (file_size, blocks))"],
         calls={}, paths={"Vec::new": "[]", "BlockSignature::compute": "blockCompute H"},
         methods={"saturating_add": lambda r, a: f"(min ({r} + {a[0]}) 4294967295)"},
         match_effects={"reader.read(&mut buffer[bytes_read..]).await?":
                        ("let rd := readInto reader (block_size - bytes_read)\nreader := rd.2\nbuffer := buffer.take bytes_read ++ rd.1", "rd.1.length")},
         verbatim=[("let mut buffer = vec![0u8; block_size];", "let mut buffer : List Nat := []"),
                   ("let mut bytes_read = 0;", "let mut bytes_read : Nat := 0"),
                   ("let data = &buffer[..bytes_read];", "let data := buffer.take bytes_read")]),
    # ---- main.rs: `copia patch`
    dict(group="delta", file="src/bin/copia/main.rs", name="validate_block_size", sig=None,
         lean="def validateBlockSizeGen (size : Nat) : Bool := Id.run do\n  -- true = Ok(())", calls={}, paths={},
         verbatim=[('if !size.is_power_of_two() { return Err(format!("Block size must be a power of 2, got {size}")); }', "if !(decide (2 ^ Nat.log2 size = size)) then\n  return false"),
                   ('if !(512..=65536).contains(&size) { return Err(format!("Block size must be 512-65536, got {size}")); }', "if !(decide (512 ≤ size ∧ size ≤ 65536)) then\n  return false"),
                   ("Ok(())", "return true")]),
    # ---- single_sync.rs: which of the three single-file runs a pair of endpoints gets (after the block-size test)
    dict(group="delta", file="src/bin/copia/single_sync.rs", name="run_sync", sig=None,
         lean="def singleDispatchGen (block_size : Nat) (src_remote dst_remote : Bool) : Option Nat := Id.run do\n"
              "  -- the endpoints as local / remote; result: 0 = local to local, 1 = local to remote, 2 = remote to local; none = refused (nothing runs)",
         calls={}, paths={},
         verbatim=[("validate_block_size(block_size)?;", "if !(validateBlockSizeGen block_size) then\n  return none"),
                   ("match (&source, &dest) { (FileLocation::Local(local_src), FileLocation::Local(local_dest)) => { run_sync_local_to_local(local_src, local_dest, block_size, verbose).await } "
                    "(FileLocation::Local(local_src), FileLocation::Remote { host, path }) => { run_sync_local_to_remote(local_src, host, path, block_size, verbose).await } "
                    "(FileLocation::Remote { host, path }, FileLocation::Local(local_dest)) => { run_sync_remote_to_local(host, path, local_dest, block_size, verbose).await } "
                    "( FileLocation::Remote { host: src_host, path: src_path, }, FileLocation::Remote { host: dst_host, path: dst_path, }, ) => "
                    'Err(format!( "Remote-to-remote sync not yet supported: {src_host}:{src_path} -> {dst_host}:{dst_path}" ) .into()), }',
                    "return (match (src_remote, dst_remote) with\n  | (false, false) => some 0\n  | (false, true) => some 1\n  | (true, false) => some 2\n  | (true, true) => none)")]),
    # ---- single_sync.rs: the single-file local run (`copia sync LOCAL LOCAL`): `sync_files` with the given block size, nothing else
    dict(group="delta", file="src/bin/copia/single_sync.rs", name="run_sync_local_to_local", sig=None,
         lean="def singleLocalGen {R : Type} (sync_files : Nat → Option R) (block_size : Nat) : Bool := Id.run do\n"
              "  -- world: the result of `AsyncCopiaSync::with_block_size(block_size).sync_files(source, dest)` (translated on its own: `syncFilesGen`): none = Err; true = Ok(())",
         calls={}, paths={},
         verbatim=[("let sync = AsyncCopiaSync::with_block_size(block_size);", "let sync := sync_files block_size"),
                   ('if verbose { eprintln!("Syncing {} -> {}", source.display(), dest.display()); eprintln!("Block size: {block_size}"); }', ""),
                   ("let result = sync.sync_files(source, dest).await?;", "let some _result := sync | return false"),
                   ('if verbose { eprintln!("Source size: {} bytes", result.source_size); eprintln!("Basis size: {} bytes", result.basis_size); '
                    'eprintln!("Bytes matched: {} bytes", result.bytes_matched); eprintln!("Bytes literal: {} bytes", result.bytes_literal); '
                    'eprintln!( "Compression ratio: {:.1}%", result.compression_ratio() * 100.0 ); eprintln!( "Bandwidth savings: {:.1}%", result.bandwidth_savings() * 100.0 ); }', ""),
                   ("Ok(())", "return true")]),
    # ---- single_sync.rs: the single-file push (`copia sync LOCAL host:FILE`): the push primitive of `sync -r`, without a time stamp
    dict(group="delta", file="src/bin/copia/single_sync.rs", name="run_sync_local_to_remote", sig=None,
         lean="def singlePushGen (transfer : Option Nat) : Bool := Id.run do\n"
              "  -- world: the result of `transfer_file_to_remote(source, host, remote_path, None)` (translated on its own, group `deliver`): some n = n bytes sent, none = Err; true = Ok(())",
         calls={}, paths={},
         verbatim=[('if block_size != 4096 { eprintln!("Warning: --block-size is not yet implemented for remote transfers. Using SSH streaming."); }', ""),
                   ('if verbose { eprintln!("Syncing {} -> {}:{}", source.display(), host, remote_path); }', ""),
                   ("let size = transfer_file_to_remote(source, host, remote_path, None) .await .map_err(|e| -> Box<dyn std::error::Error> { e.into() })?;",
                    "let some _size := transfer | return false"),
                   ('if verbose { eprintln!("Transferred: {size} bytes"); }', ""),
                   ("Ok(())", "return true")]),
    # ---- single_sync.rs: the single-file pull (`copia sync host:FILE LOCAL`)
    dict(group="delta", file="src/bin/copia/single_sync.rs", name="run_sync_remote_to_local", sig=None,
         lean="def singlePullGen (ssh : Option (Bool × List Nat)) (write_ok : Bool) : Option (List Nat) := Id.run do\n"
              "  -- world: what `ssh host \"cat FILE\"` gives (none = it cannot be run; else exit status ok? and its whole stdout), whether `fs::write(dest, …)` succeeds;\n"
              "  -- result: some b = Ok(()) with `dest` holding b; none = Err. Terminal output is not modelled",
         calls={}, paths={},
         verbatim=[('if block_size != 4096 { eprintln!("Warning: --block-size is not yet implemented for remote transfers. Using SSH streaming."); }', ""),
                   ("use tokio::process::Command;", ""),
                   ('if verbose { eprintln!("Syncing {}:{} -> {}", host, remote_path, dest.display()); }', ""),
                   ('let output = Command::new("ssh") .arg(host) .arg(format!( "cat $\'{}\'", remote_path.replace(\'\\\\\', "\\\\\\\\").replace(\'\\\'\', "\\\\\'") )) .output() .await?;',
                    "let some output := ssh | return none"),
                   ('if !output.status.success() { let stderr = String::from_utf8_lossy(&output.stderr); return Err(format!("SSH transfer failed: {stderr}").into()); }',
                    "if !output.1 then\n  return none"),
                   ("let remote_data = output.stdout;", "let remote_data := output.2"),
                   ("let remote_size = remote_data.len();", ""),
                   ("tokio::fs::write(dest, &remote_data).await?;", "if !write_ok then\n  return none"),
                   ('if verbose { eprintln!("Remote size: {remote_size} bytes"); }', ""),
                   ("Ok(())", "return (some remote_data)")]),
    dict(group="delta", file="src/bin/copia/main.rs", name="run_patch", sig=None,
         lean="def runPatchGen {D : Type} [DecidableEq D] (H : List Nat → D) (deserialize : Option (Delta D)) (basis_bytes : Option (List Nat)) :\n"
              "    Bool × Option (List Nat) := Id.run do\n"
              "  -- world: what reading + `bincode::deserialize` of the delta file gives (none = either fails), the basis file's bytes (none = it cannot\n"
              "  -- be opened), and the OUTPUT file (`out`: none = not created). Result: (the command exits 0, the output file)\n"
              "  let mut out : Option (List Nat) := none",
         calls={}, paths={},
         verbatim=[('let output = output.unwrap_or_else(|| { let mut p = basis.clone(); p.set_extension("patched"); p });', ""),
                   ("let delta_data = tokio::fs::read(delta).await?;", ""),
                   ("let delta: copia::Delta = bincode::deserialize(&delta_data)?;", "let some delta := deserialize | return (false, out)"),
                   ("validate_block_size(delta.block_size as usize)?;", "if !(validateBlockSizeGen delta.blockSize) then\n  return (false, out)"),
                   ("let sync = AsyncCopiaSync::with_block_size(delta.block_size as usize);", ""),
                   ("let basis_file = tokio::fs::File::open(basis).await?;", "let some basis_file := basis_bytes | return (false, out)"),
                   ("let output_file = tokio::fs::File::create(&output).await?;", "out := some []"),
                   ("sync.patch(basis_file, &delta, output_file).await?;",
                    "let r := Copia.Delta.patch H true basis_file delta\nout := some r.2\nif r.1 != Copia.Delta.PatchResult.ok then\n  return (false, out)"),
                   ("Ok(())", "return (true, out)")]),
    dict(group="delta", file="src/bin/copia/main.rs", name="run_signature", sig=None,
         lean="def runSignatureGen {D : Type} (H : List Nat → D) (block_size : Nat) (file_bytes : Option (List Nat)) : Bool × Option (Signature D) := Id.run do\n"
              "  -- world: the input file's bytes (none = it cannot be opened) and the OUTPUT file, as the value `bincode::serialize` is given (`out`: none = not written)\n"
              "  let mut out : Option (Signature D) := none",
         calls={}, paths={},
         verbatim=[("validate_block_size(block_size)?;", "if !(validateBlockSizeGen block_size) then\n  return (false, out)"),
                   ('let output = output.unwrap_or_else(|| { let mut p = file.clone(); p.set_extension("sig"); p });', ""),
                   ("let sync = AsyncCopiaSync::with_block_size(block_size);", ""),
                   ("let file_handle = tokio::fs::File::open(file).await?;", "let some file_handle := file_bytes | return (false, out)"),
                   ("let reader = tokio::io::BufReader::new(file_handle);", ""),
                   ("let signature = sync.signature(reader).await?;", "let signature := Copia.Delta.signature H block_size file_handle"),
                   ("let serialized = bincode::serialize(&signature)?;", ""),
                   ("tokio::fs::write(&output, serialized).await?;", "out := some signature"),
                   ("Ok(())", "return (true, out)")]),
    dict(group="delta", file="src/bin/copia/main.rs", name="run_delta", sig=None,
         lean="def runDeltaGen {D : Type} [DecidableEq D] (H : List Nat → D) (deserialize : Option (Signature D)) (source_bytes : Option (List Nat)) :\n"
              "    Bool × Option (Delta D) := Id.run do\n"
              "  -- world: what reading + `bincode::deserialize` of the signature file gives, the source file's bytes, and the OUTPUT file as the value serialised\n"
              "  let mut out : Option (Delta D) := none",
         calls={}, paths={},
         verbatim=[('let output = output.unwrap_or_else(|| { let mut p = source.clone(); p.set_extension("delta"); p });', ""),
                   ("let sig_data = tokio::fs::read(signature).await?;", ""),
                   ("let sig: copia::Signature = bincode::deserialize(&sig_data)?;", "let some sig := deserialize | return (false, out)"),
                   ("validate_block_size(sig.block_size)?;", "if !(validateBlockSizeGen sig.blockSize) then\n  return (false, out)"),
                   ("let sync = AsyncCopiaSync::with_block_size(sig.block_size);", ""),
                   ("let file_handle = tokio::fs::File::open(source).await?;", "let some file_handle := source_bytes | return (false, out)"),
                   ("let reader = tokio::io::BufReader::new(file_handle);", ""),
                   ("let delta = sync.delta(reader, &sig).await?;", "let delta := Copia.Delta.delta H sig file_handle"),
                   ("let serialized = bincode::serialize(&delta)?;", ""),
                   ("tokio::fs::write(&output, serialized).await?;", "out := some delta"),
                   ("Ok(())", "return (true, out)")]),
    # ---- delta.rs: the two counters every report and C16's bound read
    dict(group="delta", file="src/delta.rs", name="bytes_matched", sig=None,
         lean="def bytesMatchedGen (ops : List Op) : Nat := Id.run do", calls={}, paths={},
         verbatim=[("self.ops .iter() .filter_map(|op| match op { DeltaOp::Copy { len, .. } => Some(u64::from(*len)), DeltaOp::Literal(_) => None, }) .sum()",
                    "return (ops.filterMap fun op => match op with\n  | Op.copy _ len => some len\n  | Op.literal _ => none).sum")]),
    dict(group="delta", file="src/delta.rs", name="bytes_literal", sig=None,
         lean="def bytesLiteralGen (ops : List Op) : Nat := Id.run do", calls={}, paths={},
         verbatim=[("self.ops .iter() .filter_map(|op| match op { DeltaOp::Literal(data) => Some(data.len() as u64), DeltaOp::Copy { .. } => None, }) .sum()",
                    "return (ops.filterMap fun op => match op with\n  | Op.literal data => some data.length\n  | Op.copy _ _ => none).sum")]),
    # ---- async_sync.rs::sync_files: the single-file `copia sync SRC DST`
    dict(group="delta", file="src/async_sync.rs", name="sync_files", sig=None, option=True, no_loop=True,
         lean="def syncFilesGen {D : Type} [DecidableEq D] (H : List Nat → D) (block_size : Nat) (source_data : List Nat) (dst : Option (List Nat)) :\n"
              "    Option (List Nat × Nat × Nat) := Id.run do\n"
              "  -- world: the destination file (`dest`; none = absent) and the source's bytes; reads and writes succeed (their `?` are the only other exits).\n"
              "  -- Result: the destination's content afterwards, bytes_matched, bytes_literal; none = the function returns an error, destination untouched\n"
              "  let mut dest := dst",
         calls={}, paths={},
         verbatim=[("use crate::sync::Sync;", ""), ("use std::io::Cursor;", ""),
                   ("let source_path = source_path.as_ref();", ""), ("let dest_path = dest_path.as_ref();", ""),
                   ("let dest_exists = tokio::fs::try_exists(dest_path).await.unwrap_or(false);", "let dest_exists := dest.isSome"),
                   ("if !dest_exists { let source_data = tokio::fs::read(source_path).await?; let source_size = source_data.len() as u64; tokio::fs::write(dest_path, &source_data).await?; "
                    '#[cfg(feature = "tracing")] { tracing::Span::current().record("source_size", source_size); tracing::Span::current().record("basis_size", 0_u64); '
                    'tracing::Span::current().record("bytes_matched", 0_u64); tracing::Span::current().record("bytes_literal", source_size); } '
                    "return Ok(SyncResult { bytes_matched: 0, bytes_literal: source_size, source_size, basis_size: 0, }); }",
                    "if !dest_exists then\n  let source_size := source_data.length\n  dest := some source_data\n  return (some (source_data, 0, source_size))"),
                   ("let source_data = tokio::fs::read(source_path).await?;", ""),
                   ("let basis_data = tokio::fs::read(dest_path).await?;", "let some basis_data := dest | return none"),
                   ("let source_size = source_data.len() as u64;", "let source_size := source_data.length"),
                   ("let basis_size = basis_data.len() as u64;", ""),
                   ("if source_data == basis_data { "
                    '#[cfg(feature = "tracing")] { tracing::Span::current().record("source_size", source_size); tracing::Span::current().record("basis_size", basis_size); '
                    'tracing::Span::current().record("bytes_matched", source_size); tracing::Span::current().record("bytes_literal", 0_u64); } '
                    "return Ok(SyncResult { bytes_matched: source_size, bytes_literal: 0, source_size, basis_size, }); }",
                    "if source_data == basis_data then\n  return (some (basis_data, source_size, 0))"),
                   ("let signature = crate::Signature::generate(&mut Cursor::new(&basis_data), self.config.block_size)?;", "let signature := Copia.Delta.signature H block_size basis_data"),
                   ("let sync = crate::CopiaSync::with_block_size(self.config.block_size);", ""),
                   ("let delta = sync.delta(Cursor::new(&source_data), &signature)?;", "let delta := Copia.Delta.delta H signature source_data"),
                   ("let bytes_matched = delta.bytes_matched();", "let bytes_matched := Copia.Delta.matchedBytes delta.ops"),
                   ("let bytes_literal = delta.bytes_literal();", "let bytes_literal := Copia.Delta.literalBytes delta.ops"),
                   ("let mut output = Vec::with_capacity(source_data.len());", ""),
                   ("sync.patch(Cursor::new(&basis_data), &delta, &mut output)?;",
                    "let output ← match Copia.Delta.patch H true basis_data delta with\n  | (Copia.Delta.PatchResult.ok, out) => pure out\n  | _ => return none"),
                   ('let temp_path = dest_path.with_extension("copia.tmp");', ""),
                   ("tokio::fs::write(&temp_path, &output).await?;", ""),
                   ("tokio::fs::rename(&temp_path, dest_path).await?;", "dest := some output"),
                   ('{ tracing::Span::current().record("source_size", source_size); tracing::Span::current().record("basis_size", basis_size); '
                    'tracing::Span::current().record("bytes_matched", bytes_matched); tracing::Span::current().record("bytes_literal", bytes_literal); }', ""),
                   ("Ok(SyncResult { bytes_matched, bytes_literal, source_size, basis_size, })", "return (some (output, bytes_matched, bytes_literal))")]),
    # ---- signature.rs::SignatureTable: the two-level lookup the scans go through
    dict(group="delta", file="src/signature.rs", name="from_signature", sig=None,
         lean="def tableIndex {D : Type} (blocks : List (BlockSig D)) : List (Nat × List Nat) := Id.run do\n"
              "  -- world: `weak_index`, the map weak hash ↦ positions in the block list, as an association list",
         epilogue=["return weak_index"], calls={}, paths={},
         verbatim=[("let mut weak_index: FxHashMap<u32, Vec<usize>> = FxHashMap::with_capacity_and_hasher(signature.blocks.len(), rustc_hash::FxBuildHasher);",
                    "let mut weak_index : List (Nat × List Nat) := []"),
                   ("for (i, block) in signature.blocks.iter().enumerate() { weak_index.entry(block.weak_hash).or_default().push(i); }",
                    "for (i, block) in enumerate blocks do\n  weak_index := idxPush weak_index block.weak i"),
                   ("Self { weak_index, signature, }", "")]),
    dict(group="delta", file="src/signature.rs", name="find_match", sig=None, option=True, no_loop=True,
         lean="def findMatchGen {D : Type} [DecidableEq D] (H : List Nat → D) (weak_index : List (Nat × List Nat)) (blocks : List (BlockSig D))\n"
              "    (weak : Nat) (data : List Nat) : Option (BlockSig D) := Id.run do",
         calls={}, paths={"StrongHash::compute": "H"},
         verbatim=[("let candidates = self.weak_index.get(&weak)?;", "let some candidates := idxGet weak_index weak | return none"),
                   ("candidates .iter() .map(|&i| &self.signature.blocks[i]) .find(|sig| sig.strong_hash == strong)",
                    "return (candidates.filterMap fun i => blocks[i]?).find? (fun sig => decide (sig.strong = strong))")]),
    dict(group="delta", file="src/signature.rs", name="has_weak_match", sig=None,
         lean="def hasWeakGen (weak_index : List (Nat × List Nat)) (weak : Nat) : Bool := Id.run do",
         calls={}, paths={},
         verbatim=[("self.weak_index.contains_key(&weak)", "return (idxGet weak_index weak).isSome")]),
    dict(group="delta", file="src/signature.rs", fn="generate", sig=None, name="generate (the block list: `let blocks = if … else …;`)",
         slice=("let blocks: Vec<BlockSignature> = if", "let expected_blocks"), slice_until=True,
         lean="def generateBlocks {D : Type} (H : List Nat → D) (block_size : Nat) (data : List Nat) : List (BlockSig D) := Id.run do",
         epilogue=["return blocks"], calls={}, paths={"BlockSignature::compute": "blockCompute H"},
         verbatim=[('tracing::Span::current().record("file_size", file_size);', ""),
                   ('tracing::Span::current().record("block_count", blocks.len());', ""),
                   ('tracing::Span::current().record("parallel", data.len() > 64 * 1024);', "")],
         methods={"par_chunks": lambda r, a: f"(chunks {r} {a[0]})", "chunks": lambda r, a: f"(chunks {r} {a[0]})",
                  "enumerate": lambda r, a: f"(enumerate {r})", "map": lambda r, a: f"({r}.map {a[0]})"}),
    dict(_OPS_COMMON, name="push_copy", sig="fn push_copy(&mut self, offset: u64, len: u32)",
         lean="def pushCopyFwd (ops0 : List Op) (offset len : Nat) : List Op := Id.run do\n  -- world: `self.ops`, oldest first\n  let mut ops := ops0",
         verbatim=[('debug_assert!(len > 0, "copy operation must have non-zero length");', ""),
                   ("*prev_len = new_len; return;", "ops := ops.dropLast ++ [Op.copy prev_offset new_len]\nreturn ops"),
                   ("self.ops.push(DeltaOp::copy(offset, len));", "ops := ops ++ [Op.copy offset len]")]),
    dict(_OPS_COMMON, name="push_literal", sig="fn push_literal(&mut self, data: &[u8])",
         lean="def pushLiteralFwd (ops0 : List Op) (data : List Nat) : List Op := Id.run do\n  let mut ops := ops0",
         verbatim=[("return;", "return ops"),
                   ("prev_data.extend_from_slice(data); return;", "ops := ops.dropLast ++ [Op.literal (prev_data ++ data)]\nreturn ops"),
                   ("self.ops.push(DeltaOp::literal_from_slice(data));", "ops := ops ++ [Op.literal data]")]),
    dict(_OPS_COMMON, name="push_literal_byte", sig="fn push_literal_byte(&mut self, byte: u8)",
         lean="def pushLiteralByteFwd (ops0 : List Op) (byte : Nat) : List Op := Id.run do\n  let mut ops := ops0",
         verbatim=[("prev_data.push(byte); return;", "ops := ops.dropLast ++ [Op.literal (prev_data ++ [byte])]\nreturn ops"),
                   ("self.ops.push(DeltaOp::literal(vec![byte]));", "ops := ops ++ [Op.literal [byte]]")]),

    _patch_cfg("src/sync.rs", "patchSync", False),
    _patch_cfg("src/async_sync.rs", "patchAsync", True),
    dict(group="delta", file="src/delta.rs", name="validate", sig="fn validate(&self) -> Result<()>",
         lean="def validateGen {D : Type} (delta : Delta D) : Bool := Id.run do",
         retval="true", idents={"self": "delta", "end": "end_"}, fields={"basis_size": "basisSize"},
         calls={"Ok": lambda a: "OK" if a == ["()"] else (_ for _ in ()).throw(TranslateError("Ok(..) with a value"))},
         verbatim=[("return Err(CopiaError::InvalidCopyBounds { offset: *offset, len: *len, basis_size: self.basis_size, });", "return false")],
         paths=_PATCH_PATHS,
         methods={"saturating_add": lambda r, a: f"(min ({r} + {a[0]}) 18446744073709551615)"}),
    _scan_cfg("src/sync.rs", "delta", "scanSync"),
    _scan_cfg("src/async_sync.rs", "delta", "scanAsync"),
    dict(group="reconcile", file="src/bin/copia/reconcile.rs", name="reconcile",
         sig="fn reconcile(a: &FpMap, b: &FpMap, base: &FpMap, trust_base: bool) -> Vec<(PathBuf, Action)>",
         lean="def reconcile {K D : Type} [DecidableEq K] [DecidableEq D] (le : K → K → Bool)\n"
              "    (a b base : List (K × Copia.Reconcile.Fp D)) (trust_base : Bool) : List (K × Copia.Reconcile.Action) := Id.run do",
         calls={"reconcile_path": rp},
         paths={"Vec::new": "[]", "Action::Noop": "Copia.Reconcile.Action.noop"}),
    dict(group="hub", file="src/bin/copia/serve.rs", name="safe_join", sig="fn safe_join(root: &Path, rel: &str) -> Option<PathBuf>",
         lean="def safeJoin (root rel : List Char) : Option (List Char) := Id.run do",
         calls={}, paths={"Path::new": "id", "Component::ParentDir": "Comp.parentDir", "Component::RootDir": "Comp.rootDir",
                          "Component::Prefix": "∅", "Component::Normal": "Comp.normal", "Component::CurDir": "Comp.curDir"},
         methods={"is_absolute": lambda r, a: f"({r}.head? == some '/')",
                  "components": lambda r, a: f"(components {r})",
                  "join": lambda r, a: f"({r} ++ '/' :: {a[0]})"}),
    # ---- serve.rs handlers as the sequence of file-system calls they issue + the reply they write (labels of `HubConc.soloPut`)
    dict(group="hubput", file="src/bin/copia/serve.rs", name="handle_put", sig=None,
         lean="def handlePut (hashOf : List Chunk → Hash) (safe : Bool) (chunks : List Chunk) (len : Nat) (hash : Hash)\n"
              "    (expected cur_dst : Option Hash) (commit_ok conflict_ok : Bool) : List Call × Copia.Hub.Reply Hash := Id.run do\n"
              "  -- world: the file-system calls issued so far (the labels of `HubConc.soloPut`); `chunks` is what the input holds after the\n"
              "  -- frame (lengths counted in chunks), `cur_dst` what `current_hash(&dst)` finds under the lock, `commit_ok` / `conflict_ok`\n"
              "  -- whether the respective `rename` succeeds, `safe` whether `safe_join` accepts the path\n"
              "  let mut calls : List Call := []",
         subst=[('format!("commit failed: {e}")', '"commit failed"'), ('format!("conflict-copy failed: {e}")', '"conflict-copy failed"')],
         idents={"n": "(1 : Nat)", "hasher": "hashed"},
         paths={"Response::Error": "Copia.Hub.Reply.error", "Cas::Commit": "true", "Cas::Conflict": "false"},
         struct_ctors={"Response::PutResult": ("Copia.Hub.Reply.putResult", ["committed", "current"])},
         calls={"write_frame": lambda a: f"(calls, {a[1]})",
                "cas_decide": lambda a: f"(Copia.Hub.casCommit {a[0]} {a[1]})"},
         strings_plain=True,
         methods={"into": lambda r, a: r,
                  "finalize": lambda r, a: f"(hashOf {r})", "as_bytes": lambda r, a: r},
         effects={"std::fs::remove_file": (False, lambda a: "calls := calls ++ [Call.discard]")},
         patterns={"Ok(())": "true", "Err(e)": "false"},
         match_effects={"std::fs::rename(&tmp, &dst)": ("calls := calls ++ [Call.commit]", "commit_ok"),
                        "std::fs::rename(&tmp, target)": ("calls := calls ++ [Call.conflict]", "conflict_ok")},
         block_heads=[dict(rust="loop { let n = limited.read(&mut buf)?; if n == 0 { break; }", before="for chunk in limited do", indent=2),
                      dict(rust="let resp = with_commit_lock(lockdir, || {", close=")?;", tail_var="resp",
                           before="calls := calls ++ [Call.lock]\nlet mut resp : Copia.Hub.Reply Hash := Copia.Hub.Reply.error \"\"",
                           after="calls := calls ++ [Call.unlock]")],
         verbatim=[("let Some(dst) = safe_join(root, path) else { std::io::copy(&mut r.take(len), &mut std::io::sink())?; "
                    "return write_frame(w, &Response::Error(\"bad path\".into())); };",
                    "if !safe then\n  return (calls, Copia.Hub.Reply.error \"bad path\")"),
                   ("if let Some(p) = dst.parent() { std::fs::create_dir_all(p)?; }", ""),
                   ("let tmp = tmp_of(&dst);", ""),
                   ("let mut hasher = blake3::Hasher::new();", "let mut hashed : List Chunk := []"),
                   ("let mut received: u64 = 0;", "let mut received : Nat := 0"),
                   ("let mut tf = std::fs::File::create(&tmp)?;", "calls := calls ++ [Call.create]"),
                   ("let mut limited = r.take(len);", "let limited := chunks.take len"),
                   ("let mut buf = vec![0u8; 256 * 1024];", ""),
                   ("hasher.update(&buf[..n]);", "hashed := hashed ++ [chunk]"),
                   ("tf.write_all(&buf[..n])?;", "calls := calls ++ [Call.write]"),
                   ("tf.sync_all()?;", ""),
                   ("let current = current_hash(&dst);", "calls := calls ++ [Call.read]\nlet current := cur_dst"),
                   # the conflict-copy name (translated on its own below, `ccPickGen`): no file-system MUTATION, no label
                   ('let mut cn = dst.as_os_str().to_owned(); cn.push(format!(".conflict-{}", super::wire::short_hash(&hash))); '
                    'let mut target = PathBuf::from(&cn); let mut n = 0u32; '
                    'while std::fs::symlink_metadata(&target).is_ok() && current_hash(&target) != Some(hash) { '
                    'n += 1; let mut alt = cn.clone(); alt.push(format!("-{n}")); target = PathBuf::from(alt); }', "")]),
    dict(group="hubput", file="src/bin/copia/serve.rs", fn="handle_put", sig=None, option=True,
         name="handle_put (the conflict-copy name: from `let mut cn = …` to the end of the `while`)",
         slice=("let mut cn = dst.as_os_str().to_owned();", "target = PathBuf::from(alt);"), slice_close=1,
         subst=[("std::fs::symlink_metadata(&target).is_ok()", "occupied_at(&target)")],
         lean="def ccPickGen {H : Type} [DecidableEq H] (hashB : Copia.Hub.Bytes → H) (t : Copia.Hub.HTree) (p short : List Char) (hash : H)\n"
              "    (fuel : Nat) : Option (List Char) := Id.run do\n"
              "  -- world: the hub's tree `t`, read only (the loop runs under the commit lock); `p` is the request path, `short` the 12 hex of `hash`",
         epilogue=["return (some target)"],
         calls={"occupied_at": lambda a: f"(Copia.Hub.occupied t (Copia.Hub.osResolve {a[0]}))",
                "current_hash": lambda a: f"((Copia.Hub.hget t (Copia.Hub.osResolve {a[0]})).map hashB)"},
         paths={"PathBuf::from": "id"}, methods={"clone": lambda r, a: r},
         verbatim=[("let mut cn = dst.as_os_str().to_owned();", "let mut cn := p"),
                   ('cn.push(format!(".conflict-{}", super::wire::short_hash(&hash)));', 'cn := cn ++ ".conflict-".toList ++ short'),
                   ('alt.push(format!("-{n}"));', "alt := alt ++ '-' :: Copia.Meta.decimal n")]),
    dict(group="hubput", file="src/bin/copia/serve.rs", name="handle_get", sig=None,
         lean="def handleGet (hashOf : List Chunk → Hash) (safe : Bool) (file : Option (List Chunk)) (is_file : Bool) :\n"
              "    List GCall × Copia.Hub.Reply Hash := Id.run do\n"
              "  -- world: the calls made on the ONE handle `f` (labels of `HubGet.soloGet`); `file` is what the name points to at `File::open`\n"
              "  -- (lengths counted in chunks), `is_file` what `metadata()` says of it\n"
              "  let mut calls : List GCall := []",
         strings_plain=True,
         paths={"Response::Error": "Copia.Hub.Reply.error"},
         calls={"write_frame": lambda a: f"(calls, {a[1]})"},
         methods={"into": lambda r, a: r},
         verbatim=[("let Some(dst) = safe_join(root, path) else { return write_frame(w, &Response::Error(\"bad path\".into())); };",
                    "if !safe then\n  return (calls, Copia.Hub.Reply.error \"bad path\")"),
                   ("let Ok(mut f) = std::fs::File::open(&dst) else { return write_frame(w, &Response::Error(\"not found\".into())); };",
                    "calls := calls ++ [GCall.open]\nlet some f := file | return (calls, Copia.Hub.Reply.error \"not found\")"),
                   ("let m = match f.metadata() { Ok(m) if m.is_file() => m, _ => return write_frame(w, &Response::Error(\"not found\".into())), };",
                    "calls := calls ++ [GCall.stat]\nif !is_file then\n  return (calls, Copia.Hub.Reply.error \"not found\")\nlet m_len := f.length"),
                   ("let mut hasher = blake3::Hasher::new();", "calls := calls ++ [GCall.hashStart]\nlet mut hashed : List Chunk := []"),
                   ("std::io::copy(&mut f, &mut hasher)?;", "for chunk in f do\n  hashed := hashed ++ [chunk]\n  calls := calls ++ [GCall.hashRead]\ncalls := calls ++ [GCall.hashEof]"),
                   ("let hash = *hasher.finalize().as_bytes();", "let hash := hashOf hashed"),
                   ("std::io::Seek::seek(&mut f, std::io::SeekFrom::Start(0))?;", ""),
                   ("write_frame(w, &Response::Content { len: m.len(), hash })?;", "let header := (m_len, hash)"),
                   ("std::io::copy(&mut (&mut f).take(m.len()), w)?;", "let mut sent : List Chunk := []\nfor chunk in f.take m_len do\n  sent := sent ++ [chunk]\n  calls := calls ++ [GCall.sendRead]\ncalls := calls ++ [GCall.sendDone]"),
                   ("w.flush()", "return (calls, Copia.Hub.Reply.content header.1 header.2 sent)")]),
    dict(group="hubput", file="src/bin/copia/serve.rs", name="handle_delete", sig=None,
         lean="def handleDelete (safe : Bool) (expected cur_dst : Option Hash) : List Call × Copia.Hub.Reply Hash := Id.run do\n"
              "  let mut calls : List Call := []",
         paths={"Response::Error": "Copia.Hub.Reply.error", "Cas::Commit": "true", "Cas::Conflict": "false"},
         struct_ctors={"Response::DeleteResult": ("Copia.Hub.Reply.deleteResult", ["deleted", "current"])},
         calls={"write_frame": lambda a: f"(calls, {a[1]})",
                "cas_decide": lambda a: f"(Copia.Hub.casCommit {a[0]} {a[1]})"},
         strings_plain=True, methods={"into": lambda r, a: r},
         effects={"std::fs::remove_file": (False, lambda a: "calls := calls ++ [Call.remove]")},
         block_heads=[dict(rust="let resp = with_commit_lock(lockdir, || {", close=")?;", tail_var="resp",
                           before="calls := calls ++ [Call.lock]\nlet mut resp : Copia.Hub.Reply Hash := Copia.Hub.Reply.error \"\"",
                           after="calls := calls ++ [Call.unlock]")],
         verbatim=[("let Some(dst) = safe_join(root, path) else { return write_frame(w, &Response::Error(\"bad path\".into())); };",
                    "if !safe then\n  return (calls, Copia.Hub.Reply.error \"bad path\")"),
                   ("let current = current_hash(&dst);", "calls := calls ++ [Call.read]\nlet current := cur_dst")]),
    # ---- wire.rs::read_frame over an in-memory input: what is tested before what is reserved before what is read
    dict(group="wire", file="src/bin/copia/wire.rs", name="read_frame", sig=None,
         lean="def readFrame {R : Type} (decode : Copia.Hub.Bytes → Option R) (inp : Copia.Hub.Bytes) : FrameRes R := Id.run do\n"
              "  -- world: the bytes not yet read (`rest`) and the size of the buffer reserved for the frame body (`alloc`)",
         idents={"MAX_FRAME": "Copia.Gen.maxFrame"},
         paths={"u32::from_be_bytes": "Copia.Hub.be32"}, calls={}, strings_plain=True,
         verbatim=[("let mut lenb = [0u8; 4];", ""),
                   ("match r.read_exact(&mut lenb) { Ok(()) => {} Err(e) if e.kind() == std::io::ErrorKind::UnexpectedEof => return Ok(None), Err(e) => return Err(e), }",
                    "if inp.length < 4 then\n  return FrameRes.eof\nlet lenb := inp.take 4\nlet mut rest := inp.drop 4"),
                   ('return Err(std::io::Error::new( std::io::ErrorKind::InvalidData, "frame exceeds MAX_FRAME", ));', "return FrameRes.tooLarge"),
                   ("let mut buf = vec![0u8; len as usize];", "let alloc := len"),
                   ("r.read_exact(&mut buf)?;", "if rest.length < len then\n  return FrameRes.short alloc\nlet buf := rest.take len\nrest := rest.drop len"),
                   ("from_reader(&buf[..]) .map(Some) .map_err(|e| std::io::Error::new(std::io::ErrorKind::InvalidData, e.to_string()))",
                    "return (match decode buf with\n  | some req => FrameRes.frame req alloc rest\n  | none => FrameRes.badBody alloc)")]),
    # ---- archive.rs::root_pair_hash: WHAT is hashed to name a root pair's record
    dict(group="archive", file="src/bin/copia/archive.rs", name="root_pair_hash", sig="fn root_pair_hash(a: &Path, b: &Path) -> String",
         lean="def rootPairHash {P D : Type} (H : List Nat → D) (canon : P → List Nat) (a b : P) : D := Id.run do\n"
              "  -- `canon p`: the bytes of `canonicalize(p)`, or of `p` itself when it cannot be resolved (a parameter: the file system's answer)",
         calls={"canon": lambda a: f"(canon {a[0]})"}, paths={},
         methods={"as_os_str": lambda r, a: r, "as_encoded_bytes": lambda r, a: r, "finalize": lambda r, a: f"(H {r})",
                  "to_hex": lambda r, a: r, "to_string": lambda r, a: r},
         mutators={("h", "update"): lambda a: f"h := h ++ {a[0]}"},
         verbatim=[("let canon = |p: &Path| std::fs::canonicalize(p).unwrap_or_else(|_| p.to_path_buf());", ""),
                   ("let mut h = blake3::Hasher::new();", "let mut h : List Nat := []"),
                   ('h.update(b"\\0");', "h := h ++ [0]")]),
    dict(group="archive", file="src/bin/copia/archive.rs", name="archive_path", sig=None,
         lean="def archivePathGen (home_var : Option (List Char)) (pair_hash : List Char) : List (List Char) := Id.run do\n"
              "  -- a path as its components: the HOME value (one opaque component), then the joined names",
         calls={}, paths={},
         verbatim=[('let home = std::env::var("HOME").unwrap_or_else(|_| "/tmp".to_string());', 'let home := home_var.getD "/tmp".toList'),
                   ('PathBuf::from(home) .join(".copia") .join("archive") .join(format!("{pair_hash}.json"))',
                    'return [home, ".copia".toList, "archive".toList, pair_hash ++ ".json".toList]')]),
    dict(group="archive", file="src/bin/copia/archive.rs", name="load", sig=None, option=True, no_loop=True,
         lean="def archiveLoadGen {A B : Type} (read : Option B) (from_slice : B → Option A) (format_version : A → Nat) (root_pair_hash : A → List Nat)\n"
              "    (expected_pair : List Nat) : Option A := Id.run do\n"
              "  -- world: what `std::fs::read(path)` gives (none = any error), serde's answer on those bytes (none = any error), the two members compared",
         calls={}, paths={"FORMAT_VERSION": "Copia.Gen.archiveFormatVersion"},
         verbatim=[("let bytes = std::fs::read(path).ok()?;", "let some bytes := read | return none"),
                   ("let a: Self = serde_json::from_slice(&bytes).ok()?;", "let some a := from_slice bytes | return none"),
                   ("if a.format_version == FORMAT_VERSION && a.root_pair_hash == expected_pair { Some(a) } else { None }",
                    "if format_version a == Copia.Gen.archiveFormatVersion && root_pair_hash a == expected_pair then\n  return (some a)\nelse\n  return none")]),
    dict(group="archive", file="src/bin/copia/bidir.rs", name="run_bisync (from `let loaded = Archive::load(&apath, &pair);` to the no-base banner)", fn="run_bisync", sig=None,
         slice=("let loaded = Archive::load(&apath, &pair);", ".map_or_else(FpMap::new, |z| z.entries.clone());"),
         lean="def bisyncTrustGen {A E : Type} (load : Option A) (entries : A → List E) : Bool × List E := Id.run do\n"
              "  -- world: `Archive::load`'s answer for this pair's archive file",
         epilogue=["return (trust_base, base)"], calls={}, paths={},
         verbatim=[("let loaded = Archive::load(&apath, &pair);", "let loaded := load"),
                   ("let trust_base = loaded.is_some();", "let trust_base := loaded.isSome"),
                   ("let base: FpMap = loaded .as_ref() .map_or_else(FpMap::new, |z| z.entries.clone());",
                    "let base := match loaded with\n  | none => []\n  | some z => entries z")]),
    # ---- protocol.rs: the framed codec around `Message::encode` / `decode` and `FrameHeader`
    dict(group="codec", file="src/protocol.rs", name="write_message", sig=None, option=True, no_loop=True,
         lean="def writeMessageGen (message : Message) : Option Bytes := Id.run do\n"
              "  -- world: the bytes written so far\n"
              "  let mut out : Bytes := []",
         idents={"MAX_PAYLOAD_SIZE": "Copia.Gen.maxPayloadSize"},
         paths={"FrameHeader::new": "FrameHeader.new"}, calls={"Ok": lambda a: "out"}, strings_plain=True,
         methods={"msg_type": lambda r, a: f"(msgType {r})"},
         verbatim=[("let payload = message.encode()?;", "let payload := encMsg message"),
                   ('let payload_len = u32::try_from(payload.len()) .map_err(|e| CopiaError::ProtocolError(format!("Payload too large for u32: {e}")))?;',
                    "if payload.length > 4294967295 then\n  return none\nlet payload_len := payload.length"),
                   ('tracing::Span::current().record("payload_len", payload_len);', ""),
                   ('return Err(CopiaError::ProtocolError(format!( "Payload exceeds maximum size: {payload_len} > {MAX_PAYLOAD_SIZE}" )));', "return none"),
                   ("header.write_to(writer)?;", "out := out ++ header.encode"),
                   ("writer.write_all(&payload)?;", "out := out ++ payload")]),
    dict(group="codec", file="src/protocol.rs", name="encode", sig=None,
         lean="def headerEncodeGen (self_ : FrameHeader) : Bytes := Id.run do\n"
              "  -- `self.magic[i]`, `len[i]`, `flg[i]`: the i-th byte (`getD i 0`; the arrays have 4, 4 and 2 bytes)",
         calls={}, paths={},
         verbatim=[("let len = self.length.to_le_bytes();", "let len := le 4 self_.length"),
                   ("let flg = self.flags.to_le_bytes();", "let flg := le 2 self_.flags"),
                   ("let buf = [ self.magic[0], self.magic[1], self.magic[2], self.magic[3], len[0], len[1], len[2], len[3], self.msg_type as u8, self.version, flg[0], flg[1], ];",
                    "let buf := [self_.magic.getD 0 0, self_.magic.getD 1 0, self_.magic.getD 2 0, self_.magic.getD 3 0, len.getD 0 0, len.getD 1 0, len.getD 2 0, len.getD 3 0, "
                    "self_.msgType, self_.version, flg.getD 0 0, flg.getD 1 0]"),
                   ('debug_assert_eq!(buf[0], b\'C\', "encoded magic must match");', ""),
                   ("buf", "return buf")]),
    dict(group="codec", file="src/protocol.rs", name="decode", sig=None, option=True, no_loop=True,
         lean="def headerDecodeGen (buf : Bytes) : Option FrameHeader := Id.run do\n"
              "  -- `buf` is the 12-byte array; `MessageType::from_u8` and `validate` are the regenerated `Gen.fromU8Arms` / `Gen.headerValid`",
         calls={}, paths={},
         verbatim=[("let magic: [u8; 4] = [buf[0], buf[1], buf[2], buf[3]];", "let magic := [buf.getD 0 0, buf.getD 1 0, buf.getD 2 0, buf.getD 3 0]"),
                   ("let length = u32::from_le_bytes([buf[4], buf[5], buf[6], buf[7]]);", "let length := ofLe [buf.getD 4 0, buf.getD 5 0, buf.getD 6 0, buf.getD 7 0]"),
                   ("let msg_type = MessageType::from_u8(buf[8])?;", "let msg_type := buf.getD 8 0\nif !(Copia.Gen.fromU8Arms.contains msg_type) then\n  return none"),
                   ("let version = buf[9];", "let version := buf.getD 9 0"),
                   ("let flags = u16::from_le_bytes([buf[10], buf[11]]);", "let flags := ofLe [buf.getD 10 0, buf.getD 11 0]"),
                   ("let header = Self { magic, length, msg_type, version, flags, };",
                    "let header : FrameHeader := { magic := magic, length := length, msgType := msg_type, version := version, flags := flags }"),
                   ("header.validate()?;", "if !(Copia.Gen.headerValid header.magic header.version header.length) then\n  return none"),
                   ("Ok(header)", "return (some header)")]),
    dict(group="codec", file="src/protocol.rs", name="read_from", sig=None, option=True, no_loop=True,
         lean="def readHeaderGen (inp : Bytes) : Option (FrameHeader × Bytes) := Id.run do",
         idents={"PROTOCOL_MAGIC": "Copia.Gen.protocolMagic"}, paths={}, calls={}, strings_plain=True,
         verbatim=[("let mut buf = [0u8; Self::SIZE];", ""),
                   ("reader.read_exact(&mut buf)?;", "let some (buf, rest) := rdN Copia.Gen.frameHeaderSize inp | return none"),
                   ("let magic = [buf[0], buf[1], buf[2], buf[3]];", "let magic := buf.take 4"),
                   ('return Err(CopiaError::ProtocolError(format!( "Invalid magic: expected {PROTOCOL_MAGIC:?}, got {magic:?}" )));', "return none"),
                   ("Self::decode(&buf)", "return (FrameHeader.decode buf).map fun h => (h, rest)")]),
    dict(group="codec", file="src/protocol.rs", name="read_message", sig=None, option=True, no_loop=True,
         lean="def readMessageGen (utf8 : Bytes → Bool) (inp : Bytes) : Option (Message × Bytes × Nat) := Id.run do\n"
              "  -- world: the bytes not yet read; `alloc` = the size `read_buf` is resized to",
         paths={}, calls={}, strings_plain=True,
         verbatim=[("let header = FrameHeader::read_from(reader)?;", "let some (header, rest) := readHeaderGen inp | return none"),
                   ("header.validate()?;", "if !(Copia.Gen.headerValid header.magic header.version header.length) then\n  return none"),
                   ('tracing::Span::current().record("msg_type", tracing::field::debug(header.msg_type));', ""),
                   ('tracing::Span::current().record("payload_len", header.length);', ""),
                   ("debug_assert_eq!(header.magic, PROTOCOL_MAGIC);", ""),
                   ("self.read_buf.resize(header.length as usize, 0);", "let alloc := header.length"),
                   ("reader.read_exact(&mut self.read_buf)?;", "let some (read_buf, rest2) := rdN header.length rest | return none"),
                   ("Message::decode(&self.read_buf)", "return (decodeMsg utf8 read_buf).map fun m => (m, rest2, alloc)")]),
    # ---- serve.rs::serve: the prologue, then the dispatch loop (handlers = the model's `handle`, translated on their own above)
    dict(group="wire", file="src/bin/copia/wire.rs", name="write_frame", sig=None, option=True, no_loop=True,
         lean="def writeFrameGen {T : Type} (into_writer : T → Option Copia.Hub.Bytes) (msg : T) : Option Copia.Hub.Bytes := Id.run do\n"
              "  -- world: ciborium's answer for the message (none = it fails) and the bytes handed to the sink (which accepts them all)\n"
              "  let mut out : Copia.Hub.Bytes := []",
         calls={}, paths={},
         verbatim=[("let mut buf = Vec::new();", ""),
                   ("into_writer(msg, &mut buf) .map_err(|e| std::io::Error::new(std::io::ErrorKind::InvalidData, e.to_string()))?;",
                    "let some buf := into_writer msg | return none"),
                   ('let len = u32::try_from(buf.len()) .map_err(|_| std::io::Error::new(std::io::ErrorKind::InvalidData, "frame too large"))?;',
                    "if buf.length ≥ 4294967296 then\n  return none\nlet len := buf.length"),
                   ('if len > MAX_FRAME { return Err(std::io::Error::new( std::io::ErrorKind::InvalidData, "frame exceeds MAX_FRAME", )); }',
                    "if decide (len > Copia.Gen.maxFrame) then\n  return none"),
                   ("w.write_all(&len.to_be_bytes())?;", "out := out ++ Copia.WireSupport.be32enc len"),
                   ("w.write_all(&buf)?;", "out := out ++ buf"),
                   ("w.flush()", "return (some out)")]),
    dict(group="wire", file="src/bin/copia/wire.rs", name="read_magic", sig=None, option=True, no_loop=True,
         lean="def readMagic (inp : Copia.Hub.Bytes) : Option (Bool × Copia.Hub.Bytes) := Id.run do",
         idents={"MAGIC": "Copia.Gen.wireMagic"}, paths={}, calls={},
         verbatim=[("let mut m = [0u8; 6];", ""),
                   ("r.read_exact(&mut m)?;", "if inp.length < 6 then\n  return none\nlet m := inp.take 6\nlet rest := inp.drop 6"),
                   ("Ok(&m == MAGIC)", "return (some (m == Copia.Gen.wireMagic, rest))")]),
    dict(group="wire", file="src/bin/copia/serve.rs", name="serve", sig=None, option=True,
         lean="def serveGen {H : Type} [DecidableEq H] (hash : Copia.Hub.Bytes → H) (short : H → List Char) (decode : Copia.Hub.Bytes → Option (Req H))\n"
              "    (fuel : Nat) (inp : Copia.Hub.Bytes) (t : HTree) : Option (Session H) := Id.run do\n"
              "  -- world: the unread input, the served tree, the replies written and the frame buffers reserved so far\n"
              "  let mut input := inp\n  let mut tree := t\n  let mut replies : List (Reply H) := []\n  let mut allocs : List Nat := []",
         retval="(some { replies := replies, tree := tree, exit := Exit.clean, allocs := allocs })",
         idents={"VERSION": "Copia.Gen.wireVersion", "hash": "hash_"},
         paths={"Request::List": "Req.list", "Request::Get": "Req.get", "Request::Put": "Req.put", "Request::Delete": "Req.delete", "Request::Bye": "Req.bye",
                "Response::Fingerprints": "Reply.fingerprints"},
         patterns={"Request::Hello { .. }": "Req.hello _"},
         struct_ctors={"Response::Hello": ("Reply.hello", ["version"])},
         calls={"Ok": lambda a: "OK"},
         effects={"write_frame": (True, lambda a: f"replies := replies ++ [{a[1]}]"),
                  "handle_get": (True, lambda a: "let st := Copia.Hub.handle hash short tree (Req.get path) input\nif st.fatal then\n  return (some { replies := replies, tree := tree, exit := Exit.ioError, allocs := allocs })\ntree := st.tree\ninput := input.drop st.consumed\nmatch st.reply with\n| some r_ => replies := replies ++ [r_]\n| none => pure ()"),
                  "handle_put": (True, lambda a: "let st := Copia.Hub.handle hash short tree (Req.put path expected len hash_) input\nif st.fatal then\n  return (some { replies := replies, tree := tree, exit := Exit.ioError, allocs := allocs })\ntree := st.tree\ninput := input.drop st.consumed\nmatch st.reply with\n| some r_ => replies := replies ++ [r_]\n| none => pure ()"),
                  "handle_delete": (True, lambda a: "let st := Copia.Hub.handle hash short tree (Req.delete path expected) input\nif st.fatal then\n  return (some { replies := replies, tree := tree, exit := Exit.ioError, allocs := allocs })\ntree := st.tree\ninput := input.drop st.consumed\nmatch st.reply with\n| some r_ => replies := replies ++ [r_]\n| none => pure ()")},
         block_heads=[dict(rust="while let Some(req) = read_frame::<_, Request>(&mut r)? {", indent=4, loop=True,
                           before="for _ in List.replicate fuel () do\n"
                                  "  match readFrame decode input with\n"
                                  "  | FrameRes.eof =>\n    @FIN@ := true\n    break\n"
                                  "  | FrameRes.tooLarge => return (some { replies := replies, tree := tree, exit := Exit.frameTooLarge, allocs := allocs })\n"
                                  "  | FrameRes.short a_ => return (some { replies := replies, tree := tree, exit := Exit.ioError, allocs := allocs ++ [a_] })\n"
                                  "  | FrameRes.badBody a_ => return (some { replies := replies, tree := tree, exit := Exit.badBody, allocs := allocs ++ [a_] })\n"
                                  "  | FrameRes.frame req a_ rest_ =>\n    allocs := allocs ++ [a_]\n    input := rest_")],
         verbatim=[("std::fs::create_dir_all(root)?;", ""),
                   ('let lockdir = root.join(".copia");', ""),
                   ("std::fs::create_dir_all(&lockdir)?;", ""),
                   ("let mut r = BufReader::new(std::io::stdin().lock());", ""),
                   ("let mut w = BufWriter::new(std::io::stdout().lock());", ""),
                   ('if !super::wire::read_magic(&mut r)? { return Err("client sent a bad protocol prologue (not copia)".into()); }',
                    "let some (ok_, rest0_) := readMagic input | return (some { replies := [], tree := tree, exit := Exit.ioError, allocs := [] })\n"
                    "if !ok_ then\n  return (some { replies := [], tree := tree, exit := Exit.badPrologue, allocs := [] })\ninput := rest0_"),
                   ("let fps = discover_local_fingerprints(root).unwrap_or_default();", ""),
                   ('let map = fps .into_iter() .filter(|(p, _)| !p.starts_with(".copia")) .map(|(p, f)| (p.to_string_lossy().into_owned(), f)) .collect();',
                    'let map := (tree.filter fun e => e.1.head? ≠ some ".copia".toList).map fun e => (e.1, hash e.2)')]),
    dict(group="hubsync", file="src/bin/copia/hub.rs", name="hub_sync (the end: from `client.bye();` to the result)", fn="hub_sync", sig=None,
         slice=("client.bye();", "re-run to reconcile\").into())"), slice_close=1,
         lean="def hubSyncExitGen (conflicts : Nat) : Bool := Id.run do\n"
              "  -- the function's result: true = Ok(()) (exit status 0), false = Err (exit status 1)",
         calls={}, paths={},
         verbatim=[("client.bye();", ""),
                   ('if conflicts == 0 { Ok(()) } else { Err(format!("{conflicts} CAS conflict(s) — re-run to reconcile").into()) }',
                    "if conflicts == 0 then\n  return true\nelse\n  return false")]),
    # ---- the two command-line location parsers (`find(':')` + the two slices around the index = `Meta.cut`)
    dict(group="target", file="src/bin/copia/hub.rs", name="split_target", sig=None, option=True, no_loop=True,
         lean="def splitTargetGen (t : List Char) : Option (List Char × List Char) := Id.run do", calls={}, paths={},
         verbatim=[("let idx = t.find(':')?;", "let some (before_, after_) := Copia.Meta.cut ':' t | return none"),
                   ("let host = &t[..idx];", "let host := before_"),
                   ("if host.is_empty() || host.contains('/') { None } else { Some((host, &t[idx + 1..])) }",
                    "if host.isEmpty || host.contains '/' then\n  return none\nelse\n  return (some (host, after_))")]),
    # ---- main.rs: which function a parsed command line runs, and with which of its flags
    dict(group="target", file="src/bin/copia/main.rs", name="run", sig=None,
         lean="def cliRunGen (cmd : Nat) (recursive : Bool) : Nat := Id.run do\n"
              "  -- cmd: 0 Sync, 1 Bisync, 2 Serve, 3 HubSync, 4 Signature, 5 Delta, 6 Patch (the clap enum, in declaration order of the arms);\n"
              "  -- result: 0 run_sync_recursive(parse(source), parse(dest), {jobs, verbose, dry_run, delete, excludes}), 1 run_sync(parse(source), parse(dest), block_size, verbose),\n"
              "  -- 2 run_bisync(a, b, {dry_run, verbose}), 3 serve(root), 4 hub_sync(local, target), 5 run_signature, 6 run_delta, 7 run_patch — each flag handed on under its own name",
         calls={}, paths={},
         verbatim=[("match cli.command { Commands::Sync { source, dest, block_size, recursive, jobs, verbose, dry_run, delete, excludes, } => { "
                    "let src_loc = FileLocation::parse(&source); let dest_loc = FileLocation::parse(&dest); "
                    "if recursive { let opts = SyncOptions { jobs, verbose, dry_run, delete, excludes, }; run_sync_recursive(src_loc, dest_loc, opts).await } "
                    "else { run_sync(src_loc, dest_loc, block_size, verbose).await } } "
                    "Commands::Bisync { a, b, dry_run, verbose, } => bidir::run_bisync(&a, &b, &bidir::BidirOptions { dry_run, verbose }), "
                    "Commands::Serve { root } => serve::serve(&root), "
                    "Commands::HubSync { local, target } => hub::hub_sync(&local, &target), "
                    "Commands::Signature { file, output, block_size, } => run_signature(&file, output, block_size).await, "
                    "Commands::Delta { source, signature, output, } => run_delta(&source, &signature, output).await, "
                    "Commands::Patch { basis, delta, output, } => run_patch(&basis, &delta, output).await, }",
                    "return (match cmd with\n  | 0 => if recursive then 0 else 1\n  | 1 => 2\n  | 2 => 3\n  | 3 => 4\n  | 4 => 5\n  | 5 => 6\n  | _ => 7)")]),
    dict(group="target", file="src/bin/copia/main.rs", name="parse", sig=None,
         lean="def parseLocationGen (s : List Char) : Copia.Target.Loc := Id.run do", calls={}, paths={},
         verbatim=[("if let Some(colon_pos) = s.find(':') { let before_colon = &s[..colon_pos]; "
                    "if before_colon.len() > 1 && !before_colon.contains('/') && !before_colon.contains('\\\\') { "
                    "return Self::Remote { host: before_colon.to_string(), path: s[colon_pos + 1..].to_string(), }; } }",
                    "if let some (before_colon, after_) := Copia.Meta.cut ':' s then\n"
                    "  if decide (Copia.Target.utf8Len before_colon > 1) && !before_colon.contains '/' && !before_colon.contains '\\\\' then\n"
                    "    return (Copia.Target.Loc.remote before_colon after_)"),
                   ("Self::Local(PathBuf::from(s))", "return (Copia.Target.Loc.localPath s)")]),
    # ---- hub.rs: the client's List and the handshake's verdict
    dict(group="hubsync", file="src/bin/copia/hub.rs", name="list", sig=None,
         lean="def clientListGen {H : Type} (recv : Option (Copia.Hub.Reply H)) : Bool × Option (List (List (List Char) × H)) := Id.run do\n"
              "  -- world: the hub's next reply (none = `recv` fails). Result: (a List request was sent, Ok(map) or none)\n"
              "  let mut sent := false",
         calls={}, paths={},
         verbatim=[("self.send(&Request::List)?;", "sent := true"),
                   ('match self.recv()? { Response::Fingerprints(m) => Ok(m), other => Err(std::io::Error::new( std::io::ErrorKind::InvalidData, format!("expected Fingerprints, got {other:?}"), )), }',
                    "return (match recv with\n  | some (Copia.Hub.Reply.fingerprints m) => (sent, some m)\n  | _ => (sent, none))")]),
    dict(group="hubsync", file="src/bin/copia/hub.rs", name="connect (the handshake's verdict)", fn="connect", sig=None,
         slice=("match me.recv()? {", "format!(\"bad hub handshake: {other:?}\"),"), slice_close=1,
         lean="def handshakeGen {H : Type} (recv : Option (Copia.Hub.Reply H)) : Bool := Id.run do\n  -- true = Ok(me): the connection is used",
         calls={}, paths={},
         verbatim=[('match me.recv()? { Response::Hello { version } if version >= 1 => Ok(me), other => Err(std::io::Error::new( std::io::ErrorKind::InvalidData, format!("bad hub handshake: {other:?}"), )), }',
                    "return (match recv with\n  | some (Copia.Hub.Reply.hello version) => decide (version ≥ 1)\n  | _ => false)")]),
    # ---- hub.rs: the client side of one Put
    dict(group="hubsync", file="src/bin/copia/hub.rs", name="put", sig=None,
         lean="def clientPutGen {P H : Type} (metadata_len : Option Nat) (file_bytes : Option Copia.Hub.Bytes) (recv : Option (Copia.Hub.Reply H))\n"
              "    (rel : P) (expected : Option H) (hash : H) : Option Bool × List (Copia.HubSync.Sent P H) := Id.run do\n"
              "  -- world: `metadata(local)?.len()` (none = it fails), the bytes `File::open` + `io::copy` read (none = either fails),\n"
              "  -- the hub's next reply (none = `recv` fails), and everything written to the hub's stdin so far (`sent`)\n"
              "  let mut sent : List (Copia.HubSync.Sent P H) := []",
         calls={}, paths={},
         verbatim=[("let len = std::fs::metadata(local)?.len();", "let some len := metadata_len | return (none, sent)"),
                   ("self.send(&Request::Put { path: rel.to_string(), expected, len, hash, })?;", "sent := sent ++ [Copia.HubSync.Sent.putFrame rel expected len hash]"),
                   ("let mut f = std::fs::File::open(local)?;", "let some f := file_bytes | return (none, sent)"),
                   ("std::io::copy(&mut f, &mut self.w)?;", "sent := sent ++ [Copia.HubSync.Sent.raw f]"),
                   ("self.w.flush()?;", "sent := sent ++ [Copia.HubSync.Sent.flush]"),
                   ('match self.recv()? { Response::PutResult { committed, .. } => Ok(committed), other => Err(std::io::Error::new( std::io::ErrorKind::InvalidData, format!("expected PutResult, got {other:?}"), )), }',
                    "return (match recv with\n  | some (Copia.Hub.Reply.putResult committed _) => (some committed, sent)\n  | _ => (none, sent))")]),
    # ---- incremental.rs: which of the three runs a pair of endpoints gets, and the staging name of a delivery
    dict(group="oneway", file="src/bin/copia/incremental.rs", name="run_sync_recursive", sig=None,
         lean="def dispatchGen (source dest : Copia.Target.Loc) : Option (Nat × List Char × List Char × List Char) := Id.run do\n"
              "  -- result: (0 = push | 1 = pull | 2 = local, host, remote path / source path, local path / destination path); none = refused",
         calls={}, paths={},
         verbatim=[("match (source, dest) { (FileLocation::Local(local), FileLocation::Remote { host, path }) => { run_remote(Dir::Push, &host, &path, &local, &opts).await } "
                    "(FileLocation::Remote { host, path }, FileLocation::Local(local)) => { run_remote(Dir::Pull, &host, &path, &local, &opts).await } "
                    "(FileLocation::Local(from), FileLocation::Local(to)) => run_local(&from, &to, &opts).await, "
                    '_ => Err("Recursive sync supports local->remote, local->local, and remote->local (not remote->remote)".into()), }',
                    "return (match (source, dest) with\n"
                    "  | (Copia.Target.Loc.localPath local_, Copia.Target.Loc.remote host path) => some (0, host, path, local_)\n"
                    "  | (Copia.Target.Loc.remote host path, Copia.Target.Loc.localPath local_) => some (1, host, path, local_)\n"
                    "  | (Copia.Target.Loc.localPath from_, Copia.Target.Loc.localPath to) => some (2, [], from_, to)\n"
                    "  | _ => none)")]),
    dict(group="oneway", file="src/bin/copia/incremental.rs", name="tmp_path", sig=None,
         lean="def tmpPathGen (dst : List Char) : List Char := Id.run do", calls={}, paths={},
         verbatim=[("let mut s = dst.as_os_str().to_owned();", "let mut s := dst"),
                   ('s.push(".copia-tmp");', 's := s ++ ".copia-tmp".toList'),
                   ("PathBuf::from(s)", "return s")]),
    # ---- incremental.rs: the delete list a push hands to the remote `xargs -0 rm`
    dict(group="oneway", file="src/bin/copia/incremental.rs", name="apply_remote_deletes (the push list)", fn="apply_remote_deletes", sig=None,
         slice=("let mut list = String::new();", 'let _ = write!(list, "{}/{}\\0", remote_root, rel.display());'), slice_close=1,
         lean="def deleteListGen (remote_root : List Char) (dels : List (List Char)) : List Char := Id.run do",
         epilogue=["return list"], calls={}, paths={},
         verbatim=[("let mut list = String::new();", "let mut list : List Char := []"),
                   ('for rel in dels { let _ = write!(list, "{}/{}\\0", remote_root, rel.display()); }',
                    "for rel in dels do\n  list := list ++ (remote_root ++ '/' :: rel ++ ['\\x00'])")]),
    # ---- transfer.rs: the directory list a push hands to the remote `xargs -0 mkdir -p`
    dict(group="oneway", file="src/bin/copia/transfer.rs", name="create_remote_dirs (the directory list)", fn="create_remote_dirs", sig=None,
         slice=('let mut dir_list = format!("{remote_root}\\0");', 'dir.display()\n            );'), slice_close=2,
         lean="def remoteDirListGen (remote_root : List Char) (dirs : List (List Char)) : List Char := Id.run do",
         epilogue=["return dir_list"], calls={}, paths={},
         verbatim=[('let mut dir_list = format!("{remote_root}\\0");', "let mut dir_list : List Char := remote_root ++ ['\\x00']"),
                   ('for dir in dirs { if write!(dir_list, "{}/{}\\0", remote_root, dir.display()).is_err() { eprintln!( "Warning: failed to format directory path: {}", dir.display() ); } }',
                    "for dir in dirs do\n  dir_list := dir_list ++ (remote_root ++ '/' :: dir ++ ['\\x00'])")]),
    # ---- dir_sync.rs: the counters the parallel transfers share (AtomicU64 fetch_add as addition: a run has fewer than 2^64 files)
    dict(group="oneway", file="src/bin/copia/dir_sync.rs", name="record_ok", sig=None,
         lean="def recordOkGen (p : Nat × Nat × Nat) (size : Nat) : Nat × Nat × Nat := Id.run do\n"
              "  -- world: (bytes_transferred, files_done, files_failed); the periodic progress line is terminal output\n"
              "  let mut bytes := p.1\n  let mut done := p.2.1\n  let failed := p.2.2",
         epilogue=["return (bytes, done, failed)"], calls={}, paths={},
         verbatim=[("self.bytes_transferred.fetch_add(size, Ordering::Relaxed);", "bytes := bytes + size"),
                   ("let n = self.files_done.fetch_add(1, Ordering::Relaxed) + 1;", "done := done + 1"),
                   ('if n % 50 == 0 || n == self.total_files { let transferred = self.bytes_transferred.load(Ordering::Relaxed); '
                    'eprintln!( "  [{n}/{}] {} transferred", self.total_files, format_bytes(transferred) ); }', "")]),
    dict(group="oneway", file="src/bin/copia/dir_sync.rs", name="record_err", sig=None,
         lean="def recordErrGen (p : Nat × Nat × Nat) : Nat × Nat × Nat := Id.run do\n"
              "  let bytes := p.1\n  let done := p.2.1\n  let mut failed := p.2.2",
         epilogue=["return (bytes, done, failed)"], calls={}, paths={},
         verbatim=[("self.files_failed.fetch_add(1, Ordering::Relaxed);", "failed := failed + 1")]),
    dict(group="oneway", file="src/bin/copia/dir_sync.rs", name="failed", sig=None,
         lean="def failedGen (p : Nat × Nat × Nat) : Nat := Id.run do", calls={}, paths={},
         verbatim=[("self.files_failed.load(Ordering::Relaxed)", "return p.2.2")]),
    # ---- incremental.rs / main.rs: from the number of failed transfers to the process's exit status
    dict(group="oneway", file="src/bin/copia/incremental.rs", name="report", sig=None,
         lean="def reportGen (failed : Nat) : Bool := Id.run do\n"
              "  -- world: the number of failed transfers (`progress.failed()`); true = Ok(()), false = Err — terminal output is not modelled",
         calls={}, paths={}, methods={"failed": lambda r, a: "failed"},
         verbatim=[("let elapsed = start.elapsed();", ""), ("let tx = progress.bytes();", ""),
                   ('if verbose { eprintln!("{src_desc} -> {dst_desc}"); }', ""),
                   ('return Err(format!("{} file(s) failed to transfer", progress.failed()).into());', "return false"),
                   ("Ok(())", "return true")]),
    dict(group="oneway", file="src/bin/copia/main.rs", name="main (the exit status)", fn="main", sig=None,
         slice=("match run(cli).await {", 'eprintln!("Error: {e}");\n            ExitCode::FAILURE'), slice_close=2,
         lean="def exitStatusGen (ok : Bool) : Nat := Id.run do\n"
              "  -- `run(cli).await` is Ok(()) (`ok`) or an error; ExitCode::SUCCESS is status 0, ExitCode::FAILURE status 1",
         calls={}, paths={},
         verbatim=[('match run(cli).await { Ok(()) => ExitCode::SUCCESS, Err(e) => { eprintln!("Error: {e}"); ExitCode::FAILURE } }',
                    "if ok then\n  return 0\nelse\n  return 1")]),
    # ---- incremental.rs: the orchestration of a local recursive run
    dict(group="oneway", file="src/bin/copia/incremental.rs", name="run_local", sig=None,
         lean="def runLocalGen {K C : Type} [DecidableEq K] (le : K → K → Bool) (excl : K → Bool) (delete_ dry_run : Bool)\n"
              "    (S D : Copia.OneWay.Tree K C) : Copia.OneWay.Result K C := Id.run do\n"
              "  -- world: the source tree and the destination tree (`dest`); a scan is the tree's metadata (the scans themselves: group `scan`),\n"
              "  -- a delivery is `OneWay.deliver` (its calls: group `deliver`), `remove_file` is `tdel`; terminal output is not modelled\n"
              "  let mut dest := D",
         subst=[("opts.dry_run", "dry_run"), ("opts.delete", "delete_")],
         paths={}, calls={"build_plan": lambda a: f"(Copia.Gen.Loops.buildPlan le excl {a[0]} {a[1]} {a[3]})",
                          "Ok": lambda a: "OK"},
         methods={"is_empty": lambda r, a: f"{r}.isEmpty"},
         effects={"std::fs::remove_file": (False, lambda a: "dest := Copia.OneWay.tdel dest rel")},
         block_heads=[dict(rust="for rel in &plan.transfer {", indent=2, before="for rel in plan.transfer do"),
                      dict(rust="for rel in &plan.delete {", indent=2, before="for rel in plan.delete do")],
         verbatim=[("let start = Instant::now();", ""),
                   ("let src_meta = discover_local_with_meta(src)?;", "let src_meta := Copia.OneWay.metaOf S"),
                   ('if src_meta.is_empty() && !delete_ { eprintln!("No files found."); return Ok(()); }',
                    "if src_meta.isEmpty && !delete_ then\n  return { dest := dest, plan := { transfer := [], skipped := 0, delete := [] }, ranPlan := false }"),
                   ("return Ok(());", "return { dest := dest, plan := plan, ranPlan := true }"),
                   ("let dst_meta = discover_local_with_meta(dst).unwrap_or_default();", "let dst_meta := Copia.OneWay.metaOf D"),
                   ("print_plan(&plan, dry_run);", ""),
                   ("create_local_dirs(dst, &collect_dirs(&plan.transfer))?;", ""),
                   ("let semaphore = Arc::new(Semaphore::new(opts.jobs));", ""),
                   ("let progress = TransferProgress::new(plan.transfer.len() as u64);", ""),
                   ("let mut handles = Vec::with_capacity(plan.transfer.len());", ""),
                   ("let mtime = src_meta.get(rel).map(|m| m.mtime);", ""),
                   ("let s = src.join(rel);", ""), ("let d = dst.join(rel);", ""), ("let sem = Arc::clone(&semaphore);", ""),
                   ("let prog = progress.clone();", ""), ("let rel_disp = rel.display().to_string();", ""),
                   ("handles.push(tokio::spawn(async move { let _permit = sem.acquire().await; match deliver_local(&s, &d, mtime).await { Ok(size) => prog.record_ok(size), Err(e) => prog.record_err(&rel_disp, &e), } }));",
                    "dest := Copia.OneWay.deliver S dest rel"),
                   ("join_handles(handles).await;", ""),
                   ("report( start, &progress, &plan, &src.display().to_string(), &dst.display().to_string(), opts.verbose, )",
                    "return { dest := dest, plan := plan, ranPlan := true }")]),
    # ---- run_local once more, from the directories to the result, in the world of per-file OUTCOMES (which deliveries fail)
    dict(group="oneway", file="src/bin/copia/incremental.rs", name="run_local (from `create_local_dirs` to the result: outcomes)", fn="run_local", sig=None,
         slice=("create_local_dirs(dst, &collect_dirs(&plan.transfer))?;", "opts.verbose,\n    )"),
         lean="def runLocalOutcomeGen {K : Type} (deliver_local : K → Option Nat) (mkdirs_ok : Bool) (transfer : List K) : Bool := Id.run do\n"
              "  -- world: whether the directories could be made, and for each planned file what `deliver_local` returns (some size / none = Err);\n"
              "  -- the shared counters are the translated `TransferProgress` (`fetch_add` commutes: the tasks' order is immaterial); true = Ok(())\n"
              "  let mut progress : Nat × Nat × Nat := (0, 0, 0)",
         calls={}, paths={},
         block_heads=[dict(rust="for rel in &plan.transfer {", indent=2, before="for rel in transfer do")],
         verbatim=[("create_local_dirs(dst, &collect_dirs(&plan.transfer))?;", "if !mkdirs_ok then\n  return false"),
                   ("let semaphore = Arc::new(Semaphore::new(opts.jobs));", ""),
                   ("let progress = TransferProgress::new(plan.transfer.len() as u64);", ""),
                   ("let mut handles = Vec::with_capacity(plan.transfer.len());", ""),
                   ("let mtime = src_meta.get(rel).map(|m| m.mtime);", ""),
                   ("let s = src.join(rel);", ""), ("let d = dst.join(rel);", ""), ("let sem = Arc::clone(&semaphore);", ""),
                   ("let prog = progress.clone();", ""), ("let rel_disp = rel.display().to_string();", ""),
                   ("handles.push(tokio::spawn(async move { let _permit = sem.acquire().await; match deliver_local(&s, &d, mtime).await { Ok(size) => prog.record_ok(size), Err(e) => prog.record_err(&rel_disp, &e), } }));",
                    "progress := (match deliver_local rel with\n  | some size => recordOkGen progress size\n  | none => recordErrGen progress)"),
                   ("join_handles(handles).await;", ""),
                   ('if !plan.delete.is_empty() { for rel in &plan.delete { let _ = std::fs::remove_file(dst.join(rel)); } eprintln!("Deleted {} stale file(s)", plan.delete.len()); }', ""),
                   ("report( start, &progress, &plan, &src.display().to_string(), &dst.display().to_string(), opts.verbose, )",
                    "return reportGen (failedGen progress)")]),
    # ---- run_remote once more, from the directories to the result, in the world of per-file outcomes
    dict(group="oneway", file="src/bin/copia/incremental.rs", name="run_remote (from `collect_dirs` to the result: outcomes)", fn="run_remote", sig=None,
         slice=("let dirs = collect_dirs(&plan.transfer);", "report(start, &progress, &plan, &src_desc, &dst_desc, opts.verbose)"),
         lean="def runRemoteOutcomeGen {K : Type} (push : Bool) (deliver_push deliver_pull : K → Option Nat) (mkdirs_remote_ok mkdirs_local_ok : Bool) (transfer : List K) : Bool := Id.run do\n"
              "  -- world: the direction, whether the directories could be made (remote for a push, local for a pull), and for each planned file what\n"
              "  -- `transfer_file_to_remote` / `deliver_pull` returns (some size / none = Err); counters and `report` as translated; true = Ok(())\n"
              "  let mut progress : Nat × Nat × Nat := (0, 0, 0)",
         calls={}, paths={},
         block_heads=[dict(rust="for rel in &plan.transfer {", indent=2, before="for rel in transfer do")],
         verbatim=[("let dirs = collect_dirs(&plan.transfer);", ""),
                   ("match dir { Dir::Push => create_remote_dirs(host, remote_root, &dirs).await?, Dir::Pull => create_local_dirs(local_root, &dirs)?, }",
                    "if push then\n  if !mkdirs_remote_ok then\n    return false\nelse\n  if !mkdirs_local_ok then\n    return false"),
                   ("let semaphore = Arc::new(Semaphore::new(opts.jobs));", ""),
                   ("let progress = TransferProgress::new(plan.transfer.len() as u64);", ""),
                   ("let mut handles = Vec::with_capacity(plan.transfer.len());", ""),
                   ("let mtime = src_meta.get(rel).map(|m| m.mtime);", ""),
                   ('let remote_file = format!("{}/{}", remote_root, rel.display());', ""), ("let local_file = local_root.join(rel);", ""),
                   ("let host = host.to_string();", ""), ("let sem = Arc::clone(&semaphore);", ""),
                   ("let prog = progress.clone();", ""), ("let rel_disp = rel.display().to_string();", ""),
                   ("handles.push(tokio::spawn(async move { let _permit = sem.acquire().await; let res = match dir { "
                    "Dir::Push => transfer_file_to_remote(&local_file, &host, &remote_file, mtime).await, "
                    "Dir::Pull => deliver_pull(&host, &remote_file, &local_file, mtime).await, }; "
                    "match res { Ok(size) => prog.record_ok(size), Err(e) => prog.record_err(&rel_disp, &e), } }));",
                    "let res := if push then deliver_push rel else deliver_pull rel\nprogress := (match res with\n  | some size => recordOkGen progress size\n  | none => recordErrGen progress)"),
                   ("join_handles(handles).await;", ""),
                   ("if !plan.delete.is_empty() { apply_remote_deletes(dir, host, remote_root, local_root, &plan.delete).await; }", ""),
                   ("report(start, &progress, &plan, &src_desc, &dst_desc, opts.verbose)", "return reportGen (failedGen progress)")]),
    dict(group="oneway", file="src/bin/copia/incremental.rs", name="run_remote", sig=None,
         lean="def runRemoteGen {K C : Type} [DecidableEq K] (le : K → K → Bool) (excl : K → Bool) (delete_ dry_run : Bool)\n"
              "    (S D : Copia.OneWay.Tree K C) : Copia.OneWay.Result K C := Id.run do\n"
              "  -- world: as for `run_local`, for either direction (`S` is the local tree on push, the remote one on pull); a delivery\n"
              "  -- (`transfer_file_to_remote` / `deliver_pull`) is `OneWay.deliver`, `apply_remote_deletes` removes the listed paths\n"
              "  let mut dest := D",
         subst=[("opts.dry_run", "dry_run"), ("opts.delete", "delete_")],
         paths={}, calls={"build_plan": lambda a: f"(Copia.Gen.Loops.buildPlan le excl {a[0]} {a[1]} {a[3]})",
                          "Ok": lambda a: "OK"},
         methods={"is_empty": lambda r, a: f"{r}.isEmpty"},
         block_heads=[dict(rust="for rel in &plan.transfer {", indent=2, before="for rel in plan.transfer do")],
         verbatim=[("let start = Instant::now();", ""),
                   ('let (src_desc, dst_desc) = match dir { Dir::Push => ( local_root.display().to_string(), format!("{host}:{remote_root}"), ), '
                    'Dir::Pull => ( format!("{host}:{remote_root}"), local_root.display().to_string(), ), };', ""),
                   ("let (src_meta, dst_meta): (MetaMap, MetaMap) = match dir { Dir::Push => { let local = discover_local_with_meta(local_root)?; "
                    "let remote = discover_remote_with_meta(host, remote_root) .await .unwrap_or_default(); (local, remote) } "
                    "Dir::Pull => { let remote = discover_remote_with_meta(host, remote_root).await?; "
                    "let local = discover_local_with_meta(local_root).unwrap_or_default(); (remote, local) } };",
                    "let src_meta := Copia.OneWay.metaOf S\nlet dst_meta := Copia.OneWay.metaOf D"),
                   ('if src_meta.is_empty() && !delete_ { eprintln!("No files found."); return Ok(()); }',
                    "if src_meta.isEmpty && !delete_ then\n  return { dest := dest, plan := { transfer := [], skipped := 0, delete := [] }, ranPlan := false }"),
                   ("return Ok(());", "return { dest := dest, plan := plan, ranPlan := true }"),
                   ("print_plan(&plan, dry_run);", ""),
                   ("let dirs = collect_dirs(&plan.transfer);", ""),
                   ("match dir { Dir::Push => create_remote_dirs(host, remote_root, &dirs).await?, Dir::Pull => create_local_dirs(local_root, &dirs)?, }", ""),
                   ("let semaphore = Arc::new(Semaphore::new(opts.jobs));", ""),
                   ("let progress = TransferProgress::new(plan.transfer.len() as u64);", ""),
                   ("let mut handles = Vec::with_capacity(plan.transfer.len());", ""),
                   ("let mtime = src_meta.get(rel).map(|m| m.mtime);", ""),
                   ('let remote_file = format!("{}/{}", remote_root, rel.display());', ""),
                   ("let local_file = local_root.join(rel);", ""), ("let host = host.to_string();", ""), ("let sem = Arc::clone(&semaphore);", ""),
                   ("let prog = progress.clone();", ""), ("let rel_disp = rel.display().to_string();", ""),
                   ("handles.push(tokio::spawn(async move { let _permit = sem.acquire().await; let res = match dir { "
                    "Dir::Push => transfer_file_to_remote(&local_file, &host, &remote_file, mtime).await, "
                    "Dir::Pull => deliver_pull(&host, &remote_file, &local_file, mtime).await, }; "
                    "match res { Ok(size) => prog.record_ok(size), Err(e) => prog.record_err(&rel_disp, &e), } }));",
                    "dest := Copia.OneWay.deliver S dest rel"),
                   ("join_handles(handles).await;", ""),
                   ("apply_remote_deletes(dir, host, remote_root, local_root, &plan.delete).await;", "dest := plan.delete.foldl Copia.OneWay.tdel dest"),
                   ("report(start, &progress, &plan, &src_desc, &dst_desc, opts.verbose)",
                    "return { dest := dest, plan := plan, ranPlan := true }")]),
    # ---- the 12 hex characters of conflict-copy names
    dict(group="hubput", file="src/bin/copia/wire.rs", name="short_hash", sig=None,
         lean="def shortHashGen (h : List Nat) : List Char := Id.run do",
         calls={}, paths={}, epilogue=[],
         verbatim=[("use std::fmt::Write as _;", ""),
                   ("let mut out = String::with_capacity(12);", "let mut out : List Char := []"),
                   ('for b in &h[..6] { let _ = write!(out, "{b:02x}"); }', "for b in h.take 6 do\n  out := out ++ Copia.HexSupport.hex2 b"),
                   ("out", "return out")]),
    dict(group="bidir", file="src/bin/copia/bidir.rs", name="short_hex", sig=None,
         lean="def shortHexGen (h : List Nat) : List Char := Id.run do",
         calls={}, paths={}, epilogue=[],
         verbatim=[("use std::fmt::Write as _;", ""),
                   ("let mut out = String::with_capacity(12);", "let mut out : List Char := []"),
                   ('for b in &h[..6] { let _ = write!(out, "{b:02x}"); }', "for b in h.take 6 do\n  out := out ++ Copia.HexSupport.hex2 b"),
                   ("out", "return out")]),
    # ---- serve.rs: the commit lock bracket, the staging name, the CAS's view of the live file
    dict(group="hubput", file="src/bin/copia/serve.rs", name="with_commit_lock", sig=None,
         lean="def withCommitLockGen (open_ok lock_ok : Bool) : List LockCall × Bool := Id.run do\n"
              "  -- world: the calls made, in order (`body` = the closure `f` runs), and whether the function returned Ok\n"
              "  let mut calls : List LockCall := []",
         calls={}, paths={},
         verbatim=[('let lf = std::fs::OpenOptions::new() .create(true) .truncate(false) .write(true) .open(lockdir.join("commit.lock"))?;',
                    "calls := calls ++ [LockCall.openLockFile true false true]\nif !open_ok then\n  return (calls, false)"),
                   ("lf.lock_exclusive()?;", "calls := calls ++ [LockCall.lockExclusive]\nif !lock_ok then\n  return (calls, false)"),
                   ("let out = f();", "calls := calls ++ [LockCall.body]"),
                   ("let _ = fs2::FileExt::unlock(&lf);", "calls := calls ++ [LockCall.unlock]"),
                   ("Ok(out)", "return (calls, true)")]),
    dict(group="hubput", file="src/bin/copia/serve.rs", name="tmp_of", sig=None,
         lean="def tmpOfGen (dst : List Char) (process_id : List Char) : List Char := Id.run do",
         calls={}, paths={},
         verbatim=[("let mut s = dst.as_os_str().to_owned();", "let mut s := dst"),
                   ('s.push(format!(".{}.copia-tmp", std::process::id()));', "s := s ++ ('.' :: process_id ++ \".copia-tmp\".toList)"),
                   ("PathBuf::from(s)", "return s")]),
    dict(group="hubput", file="src/bin/copia/serve.rs", name="current_hash", sig=None,
         lean="def currentHashGen {F H : Type} (fingerprint_path : Option F) (blake3 : F → H) : Option H := Id.run do\n"
              "  -- world: what `fingerprint_path(dst)` gives (none = any error: absent, a directory, unreadable)",
         calls={}, paths={},
         verbatim=[("super::meta::fingerprint_path(dst).ok().map(|f| f.blake3)", "return fingerprint_path.map blake3")]),
    # ---- transfer.rs: the directories a run creates before it delivers
    dict(group="scan", file="src/bin/copia/transfer.rs", name="collect_dirs", sig=None, option=True,
         lean="def collectDirsGen (fuel : Nat) (files : List (List String)) : Option (List (List String)) := Id.run do\n"
              "  -- world: a relative path is its list of components; `parent()` drops the last one (none for the empty path), `as_os_str().is_empty()` = no\n"
              "  -- component left; the BTreeSet as a duplicate-free list (`setIns`); none = the fuel ran out",
         calls={}, paths={"std::collections::BTreeSet::new": "([] : List (List String))"},
         methods={"as_path": lambda r, a: r, "as_os_str": lambda r, a: r, "is_empty": lambda r, a: f"{r}.isEmpty", "to_path_buf": lambda r, a: r,
                  "into_iter": lambda r, a: r, "collect": lambda r, a: r},
         mutators={("dirs", "insert"): lambda a: f"dirs := Copia.ScanSupport.setIns dirs {a[0]}"},
         block_heads=[dict(rust="while let Some(parent) = cur.parent() {", indent=4, loop=True,
                           before="for _ in List.replicate fuel () do\n"
                                  "  match Copia.ScanSupport.parentOf cur with\n"
                                  "  | none =>\n    @FIN@ := true\n    break\n"
                                  "  | some parent =>")]),
    # ---- dir_sync.rs: the directories are made before anything is delivered
    dict(group="scan", file="src/bin/copia/dir_sync.rs", name="create_local_dirs", sig=None,
         lean="def createLocalDirsGen {W P R : Type} (create_dir_all : W → P → Option W) (join : P → R → P) (w0 : W) (local_root : P) (dirs : List R) : Option W := do\n"
              "  -- world: `create_dir_all` on a path either fails (none: the `?` returns, nothing further is created) or gives the next file-system state\n"
              "  let mut w := w0",
         retval="w", paths={},
         calls={"Ok": lambda a: "OK" if a == ["()"] else (_ for _ in ()).throw(TranslateError("Ok(..) with a value"))},
         effects={"std::fs::create_dir_all": (True, lambda a: f"w ← create_dir_all w {a[0]}")},
         methods={"join": lambda r, a: f"(join {r} {a[0]})"},
         block_heads=[dict(rust="for dir in dirs {", indent=2, before="for dir in dirs do")]),
    # ---- transfer.rs: the walker itself
    dict(group="scan", file="src/bin/copia/transfer.rs", name="discover_local_files", sig=None, option=True,
         lean="def discoverFilesGen {P R : Type} (read_dir : P → Option (List (Option (Copia.ScanSupport.Ent P)))) (is_file : P → Bool)\n"
              "    (strip_prefix : P → Option R) (le : R → R → Bool) (fuel : Nat) (root : P) : Option (Option (List R)) := Id.run do\n"
              "  -- world: what `read_dir` gives for a directory (none = it fails; an entry is none when the iterator yields an error),\n"
              "  -- each entry's own type (none = `file_type()` fails), whether a path FOLLOWED is a regular file, and `strip_prefix(root)`.\n"
              "  -- outer none = fuel exhausted, inner none = the walk fails",
         paths={"Vec::new": "[]"}, calls={"Ok": lambda a: f"(some {a[0]})"},
         methods={"is_dir": lambda r, a: f"({r} == Copia.ScanSupport.FT.dir)", "is_symlink": lambda r, a: f"({r} == Copia.ScanSupport.FT.symlink)",
                  "is_file": lambda r, a: f"({r} == Copia.ScanSupport.FT.file)" if r == "ft" else f"(is_file {r})"},
         block_heads=[dict(rust="while let Some(dir) = dirs.pop() {", indent=4, loop=True,
                           before="for _ in List.replicate fuel () do\n"
                                  "  match dirs.getLast? with\n"
                                  "  | none =>\n    @FIN@ := true\n    break\n"
                                  "  | some dir =>\n    dirs := dirs.dropLast")],
         verbatim=[("let mut dirs = vec![root.to_path_buf()];", "let mut dirs := [root]"),
                   ("let entries = std::fs::read_dir(&dir)?;", "let some entries := read_dir dir | return (some none)"),
                   ("let entry = entry?;", "let some entry := entry | return (some none)"),
                   ("let path = entry.path();", "let path := entry.path"),
                   ("let ft = entry.file_type()?;", "let some ft := entry.ft | return (some none)"),
                   ("let rel = path.strip_prefix(root)?.to_path_buf();", "let some rel := strip_prefix path | return (some none)")]),
    # ---- meta.rs: the two local scans built on the walker
    dict(group="scan", file="src/bin/copia/meta.rs", name="fingerprint_path", sig=None, option=True, no_loop=True,
         lean="def fingerprintPathGen {D : Type} (H : List Nat → D) (symlink_metadata : Option Bool) (read_link : Option (List Nat)) (file_bytes : Option (List Nat)) :\n"
              "    Option (Copia.Reconcile.Fp D) := Id.run do\n"
              "  -- world: `symlink_metadata(full)` (none = it fails; some true = a symlink), `read_link(full)` (the target's bytes), and the bytes\n"
              "  -- `File::open` + `io::copy` feed the hasher (none = either fails); `H` is BLAKE3",
         calls={}, paths={},
         verbatim=[("let meta = std::fs::symlink_metadata(full)?;", "let some is_symlink := symlink_metadata | return none"),
                   ("if meta.file_type().is_symlink() { let target = std::fs::read_link(full)?; let h = blake3::hash(target.as_os_str().as_encoded_bytes()); "
                    "Ok(Fingerprint { blake3: *h.as_bytes(), ftype: FileType::Symlink, }) } else { let mut hasher = blake3::Hasher::new(); "
                    "let mut f = std::fs::File::open(full)?; std::io::copy(&mut f, &mut hasher)?; "
                    "Ok(Fingerprint { blake3: *hasher.finalize().as_bytes(), ftype: FileType::File, }) }",
                    "if is_symlink then\n  let some target := read_link | return none\n  return (some { digest := H target, ftype := Copia.Reconcile.FType.symlink })\n"
                    "else\n  let some f := file_bytes | return none\n  return (some { digest := H f, ftype := Copia.Reconcile.FType.file })")]),
    dict(group="scan", file="src/bin/copia/meta.rs", name="mtime_secs", sig=None,
         lean="def mtimeSecsGen (modified : Copia.ScanSupport.MTime) : Int := Id.run do\n"
              "  -- world: `meta.modified()` and `duration_since(UNIX_EPOCH)`: an error, or a time at / after the epoch (whole seconds, nanoseconds),\n"
              "  -- or one BEFORE it (the distance to the epoch: whole seconds, nanoseconds)",
         calls={}, paths={},
         verbatim=[("let Ok(t) = meta.modified() else { return 0 };", "let t := modified\nif t == Copia.ScanSupport.MTime.err then\n  return 0"),
                   ("match t.duration_since(UNIX_EPOCH) { Ok(d) => i64::try_from(d.as_secs()).unwrap_or(i64::MAX), "
                    "Err(e) => { let d = e.duration(); let whole = i64::try_from(d.as_secs()).unwrap_or(i64::MAX); -whole - i64::from(d.subsec_nanos() > 0) } }",
                    "match t with\n| Copia.ScanSupport.MTime.after secs _ => return (Copia.ScanSupport.toI64OrMax secs)\n"
                    "| Copia.ScanSupport.MTime.before secs nanos =>\n  let whole := Copia.ScanSupport.toI64OrMax secs\n  return (-whole - (if nanos > 0 then 1 else 0))\n"
                    "| Copia.ScanSupport.MTime.err => return 0")]),
    dict(group="scan", file="src/bin/copia/meta.rs", name="set_local_mtime", sig=None,
         lean="def setLocalMtimeGen (secs : Int) : Copia.ScanSupport.MTime := Id.run do\n"
              "  -- the time handed to `set_modified` (opening the file for writing and the call itself succeed)",
         calls={}, paths={},
         verbatim=[("let t = if secs >= 0 { UNIX_EPOCH + Duration::from_secs(secs.unsigned_abs()) } else { UNIX_EPOCH - Duration::from_secs(secs.unsigned_abs()) };",
                    "let t := if secs >= 0 then Copia.ScanSupport.MTime.after secs.natAbs 0 else Copia.ScanSupport.MTime.before secs.natAbs 0"),
                   ("std::fs::File::options() .write(true) .open(path)? .set_modified(t)", "return t")]),
    dict(group="scan", file="src/bin/copia/meta.rs", name="discover_local_fingerprints", sig=None, option=True, no_loop=True,
         lean="def discoverFingerprints {P C : Type} [DecidableEq P] (discover_local_files : Option (List P)) (fingerprint_path : P → Option C) :\n"
              "    Option (List (P × C)) := Id.run do\n"
              "  -- world: the walker's answer (none = it failed) and, per listed file, whether its fingerprint could be read",
         paths={"FpMap::new": "[]"}, calls={"Ok": lambda a: a[0]},
         block_heads=[dict(rust="for rel in discover_local_files(root)? {", indent=2,
                           before="let some files_ := discover_local_files | return none\nfor rel in files_ do")],
         verbatim=[("if let Ok(fp) = fingerprint_path(&root.join(&rel)) { out.insert(rel, fp); }",
                    "if let some fp := fingerprint_path rel then\n  out := Copia.ScanSupport.mapIns out rel fp")]),
    dict(group="scan", file="src/bin/copia/meta.rs", name="discover_local_with_meta", sig=None, option=True, no_loop=True,
         lean="def discoverWithMeta {P M : Type} [DecidableEq P] (discover_local_files : Option (List P)) (metadata : P → StatRes M) :\n"
              "    Option (List (P × M)) := Id.run do\n"
              "  -- world: the walker's answer and, per listed file, what its `stat` gives: the metadata, NotFound, or another error",
         paths={"MetaMap::new": "[]"}, calls={"Ok": lambda a: a[0]},
         block_heads=[dict(rust="for rel in discover_local_files(root)? {", indent=2,
                           before="let some files_ := discover_local_files | return none\nfor rel in files_ do")],
         verbatim=[("match std::fs::metadata(root.join(&rel)) { Ok(meta) => { out.insert( rel, FileMeta { size: meta.len(), mtime: mtime_secs(&meta), }, ); } "
                    "Err(e) if e.kind() == std::io::ErrorKind::NotFound => {} Err(e) => return Err(e.into()), }",
                    "match metadata rel with\n| StatRes.ok m_ => out := Copia.ScanSupport.mapIns out rel m_\n| StatRes.notFound => pure ()\n| StatRes.otherError => return none")]),
    dict(group="scan", file="src/bin/copia/meta.rs", name="parse_remote_meta_output", sig="fn parse_remote_meta_output(stdout: &[u8]) -> MetaMap",
         lean="def parseRemoteMetaGen (stdout : List Char) : List (List Char × Copia.Plan.FileMeta) := Id.run do",
         paths={"MetaMap::new": "[]", "String::from_utf8_lossy": "id", "PathBuf::from": "id"}, calls={},
         structs=("FileMeta",),
         methods={"is_empty": lambda r, a: f"{r}.isEmpty"},
         mutators={("out", "insert"): lambda a: f"out := Copia.Meta.insertAL out {a[0]} {a[1]}"},
         block_heads=[dict(rust="for entry in stdout.split(|&b| b == 0) {", indent=2, before="for entry in Copia.Meta.splitOnChar '\\x00' stdout do")],
         verbatim=[("let mut parts = s.splitn(3, '\\t');", ""),
                   ("let (Some(size), Some(mtime), Some(path)) = (parts.next(), parts.next(), parts.next()) else { continue; };",
                    "let some (size, rest_) := Copia.Meta.cut '\\t' s | continue\nlet some (mtime, path) := Copia.Meta.cut '\\t' rest_ | continue"),
                   ("let Ok(size) = size.parse::<u64>() else { continue; };", "let some size := Copia.Meta.parseU64 size | continue"),
                   ("let mtime = mtime .split('.') .next() .and_then(|s| s.parse::<i64>().ok()) .unwrap_or(0);",
                    "let mtime := match Copia.Meta.splitOnChar '.' mtime with\n  | h :: _ => (Copia.Meta.parseI64 h).getD 0\n  | [] => 0"),
                   ('let rel = path.strip_prefix("./").unwrap_or(path);', "let rel := Copia.Meta.stripDotSlash path")]),
    dict(group="scan", file="src/bin/copia/meta.rs", name="discover_remote_with_meta", sig=None, option=True, no_loop=True,
         lean="def discoverRemoteGen (output_ : Option (Bool × List Char)) : Option (List (List Char × Copia.Plan.FileMeta)) := Id.run do\n"
              "  -- world: what `Command::output()` gives for the listing command (the command string itself: `gen_constants.py`): none = ssh could\n"
              "  -- not be run, else (exit status is success, the WHOLE of stdout)",
         calls={"Ok": lambda a: a[0]}, paths={},
         verbatim=[("let escaped = remote_root.replace('\\\\', \"\\\\\\\\\").replace('\\'', \"\\\\'\");", ""),
                   ('let output = tokio::process::Command::new("ssh") .arg(host) .arg(format!( "CDPATH= cd $\'{escaped}\' && find . -type f -printf \'%s\\\\t%T@\\\\t%p\\\\0\'" )) .output() .await?;',
                    "let some output := output_ | return none"),
                   ('if !output.status.success() { let stderr = String::from_utf8_lossy(&output.stderr); return Err(format!("Failed to list {host}:{remote_root}: {stderr}").into()); }',
                    "if !output.1 then\n  return none"),
                   ("Ok(parse_remote_meta_output(&output.stdout))", "return (some (parseRemoteMetaGen output.2))")]),
    dict(group="hubsync", file="src/bin/copia/hub.rs", fn="hub_sync", sig=None,
         name="hub_sync (the push loop: from the counters to the end of the `for`)",
         slice=("let (mut sent, mut skipped, mut conflicts) = (0u64, 0u64, 0u64);", "hub kept a conflict-copy\");"), slice_close=2,
         lean="def pushLoop {H : Type} [DecidableEq H] (hash : Copia.Hub.Bytes → H) (cname : Copia.Hub.HTree → List (List Char) → H → List (List Char))\n"
              "    (hub : List (List Char) → Option H) (t : Copia.Hub.HTree) (local_ : List (List (List Char) × Copia.Hub.Bytes)) :\n"
              "    Copia.Hub.HTree × Copia.HubSync.Counters := Id.run do\n"
              "  -- world: the hub's tree (changed by `client.put`); `hub` is the listing taken at the start, `fp` a local file's bytes\n"
              "  let mut hubtree := t",
         epilogue=["return (hubtree, { sent := sent, skipped := skipped, conflicts := conflicts })"],
         idents={"local": "local_", "fphash": "(hash fp)"},
         verbatim=[("let rel_s = rel.to_string_lossy().into_owned();", "let rel_s := rel"),
                   ("let expected = hub.get(&rel_s).map(|f| f.blake3);", "let expected := hub rel_s"),
                   ("let committed = client.put(&rel_s, expected, &local_root.join(rel), fp.blake3)?;",
                    "let r := Copia.HubSync.casPut hash cname hubtree rel_s expected fp\nhubtree := r.1\nlet committed := r.2")],
         fields={"blake3": "blake3"}, calls={}, paths={},
         subst=[("Some(fp.blake3)", "Some(fphash)")]),
    dict(group="crash", file="src/bin/copia/bidir.rs", name="copy_atomic", sig="fn copy_atomic(src: &Path, dst: &Path) -> std::io::Result<()>",
         lean="def copyAtomic {P C : Type} (side : Side) (dst : P) (content : C) : List (FsStep P C) := Id.run do\n"
              "  -- world: the list of file-system-mutating calls issued so far; `content` is what the live source holds\n"
              "  let mut steps : List (FsStep P C) := []",
         epilogue=["return steps"], calls={}, paths={},
         verbatim=[("if let Some(p) = dst.parent() { std::fs::create_dir_all(p)?; }", ""),
                   ('let mut tmp = dst.as_os_str().to_owned(); tmp.push(".copia-tmp"); let tmp = PathBuf::from(tmp);', ""),
                   ("std::fs::copy(src, &tmp)?;", "steps := steps ++ [FsStep.stage side dst content]"),
                   ("std::fs::File::open(&tmp)?.sync_all()?;", "steps := steps ++ [FsStep.sync side dst]"),
                   ("std::fs::rename(&tmp, dst)", "steps := steps ++ [FsStep.publish side dst]")]),
    dict(group="crash", file="src/bin/copia/archive.rs", name="save", sig="fn save(&self, path: &Path) -> std::io::Result<()>",
         lean="def archiveSave {P C : Type} (archive_file_exists : Bool) : List (FsStep P C) := Id.run do\n"
              "  let mut steps : List (FsStep P C) := []",
         retval="steps", calls={"Ok": lambda a: "OK"}, paths={},
         methods={"exists": lambda r, a: "archive_file_exists"},
         verbatim=[("if let Some(parent) = path.parent() { std::fs::create_dir_all(parent)?; }", ""),
                   ('let tmp = { let mut s = path.as_os_str().to_owned(); s.push(".tmp"); PathBuf::from(s) };', ""),
                   ("let json = serde_json::to_vec_pretty(self) .map_err(|e| std::io::Error::new(std::io::ErrorKind::InvalidData, e))?;", ""),
                   ("let mut f = std::fs::File::create(&tmp)?;", "steps := steps ++ [FsStep.archStage]"),
                   ("f.write_all(&json)?;", ""),
                   ("f.sync_all()?;", "steps := steps ++ [FsStep.archSync]"),
                   ('let mut bak = path.as_os_str().to_owned(); bak.push(".bak"); let _ = std::fs::rename(path, PathBuf::from(bak));', "steps := steps ++ [FsStep.archBak]"),
                   ("std::fs::rename(&tmp, path)?;", "steps := steps ++ [FsStep.archPublish]"),
                   ("if let Some(parent) = path.parent() { if let Ok(dir) = std::fs::File::open(parent) { let _ = dir.sync_all(); } }", "")]),
    dict(group="deliver", file="src/bin/copia/incremental.rs", name="deliver_local",
         sig="fn deliver_local(src: &Path, dst: &Path, mtime: Option<i64>) -> Result<u64, String>",
         lean="def deliverLocal (chunks : List Copia.Deliver.Bytes) (mtime : Option Int) : List DStep := Id.run do\n"
              "  -- world: the calls made on the destination's staging sibling and on the destination; the data arrives as `chunks`\n"
              "  let mut steps : List DStep := []",
         retval="steps", calls={"Ok": lambda a: "OK"}, paths={},
         verbatim=[("let tmp = tmp_path(dst);", ""),
                   ('let size = tokio::fs::copy(src, &tmp) .await .map_err(|e| format!("copy {}: {e}", src.display()))?;',
                    "steps := steps ++ DStep.openTmp :: chunks.map DStep.chunk"),
                   ('tokio::fs::rename(&tmp, dst) .await .map_err(|e| format!("rename {}: {e}", dst.display()))?;', "steps := steps ++ [DStep.publish]"),
                   ("let _ = set_local_mtime(dst, t);", "steps := steps ++ [DStep.stamp]")]),
    dict(group="deliver", file="src/bin/copia/transfer.rs", name="transfer_file_to_remote", sig=None,
         lean="def pushStreamGen (metadata_len : Option Nat) (spawn_ok stdin_ok : Bool) (file_chunks : Option (List (List Nat))) (write_ok : Bool) (wait : Option Bool) :\n"
              "    Option Nat × Option Nat × List Nat := Id.run do\n"
              "  -- world: `metadata(local).len()` (none = it fails), whether ssh was spawned and its stdin taken, the chunks the read loop gets (none = the file\n"
              "  -- cannot be opened; reads succeed), whether the writes to ssh's stdin succeed, the remote command's exit (none = wait fails).\n"
              "  -- Result: (Ok(bytes) or none, the size written into the remote command's `wc -c` guard (none = no command was issued), the bytes sent)\n"
              "  let mut sent : List Nat := []\n"
              "  let mut announced : Option Nat := none",
         calls={}, paths={},
         block_heads=[dict(rust='loop { let n = file .read(&mut buf) .await .map_err(|e| format!("read: {e}"))?; if n == 0 { break; }', before="for chunk in chunks do", indent=2)],
         verbatim=[("use tokio::io::AsyncReadExt;", ""),
                   ('let metadata = tokio::fs::metadata(local_path) .await .map_err(|e| format!("{}: {e}", local_path.display()))?;', "let some metadata := metadata_len | return (none, announced, sent)"),
                   ("let file_size = metadata.len();", "let file_size := metadata"),
                   ("let escaped = remote_path.replace('\\\\', \"\\\\\\\\\").replace('\\'', \"\\\\'\");", ""),
                   ('let tmp_escaped = format!("{escaped}.copia-tmp");', ""),
                   ('let touch = mtime.map_or(String::new(), |t| format!(" && touch -d @{t} $\'{escaped}\'"));', ""),
                   ('let mut child = tokio::process::Command::new("ssh") .arg(host) .arg(format!( "cat > $\'{tmp_escaped}\' && [ \\"$(wc -c < $\'{tmp_escaped}\')\\" -eq {file_size} ] && [ ! -d $\'{escaped}\' ] && mv -f $\'{tmp_escaped}\' $\'{escaped}\'{touch}" )) '
                    '.stdin(std::process::Stdio::piped()) .stdout(std::process::Stdio::null()) .stderr(std::process::Stdio::piped()) .spawn() .map_err(|e| format!("ssh spawn: {e}"))?;',
                    "if !spawn_ok then\n  return (none, announced, sent)\nannounced := some file_size"),
                   ('let mut stdin = child .stdin .take() .ok_or_else(|| "Failed to open SSH stdin".to_string())?;', "if !stdin_ok then\n  return (none, announced, sent)"),
                   ('let mut file = tokio::fs::File::open(local_path) .await .map_err(|e| format!("open {}: {e}", local_path.display()))?;', "let some chunks := file_chunks | return (none, announced, sent)"),
                   ("let mut buf = vec![0u8; 256 * 1024];", ""),
                   ('tokio::io::AsyncWriteExt::write_all(&mut stdin, &buf[..n]) .await .map_err(|e| format!("write: {e}"))?;', "if !write_ok then\n  return (none, announced, sent)\nsent := sent ++ chunk"),
                   ("drop(stdin);", ""),
                   ('let result = child .wait_with_output() .await .map_err(|e| format!("ssh wait: {e}"))?;', "let some status_success := wait | return (none, announced, sent)"),
                   ('if !result.status.success() { let stderr = String::from_utf8_lossy(&result.stderr); return Err(format!("SSH failed for {}: {stderr}", local_path.display())); }',
                    "if !status_success then\n  return (none, announced, sent)"),
                   ("Ok(file_size)", "return (some file_size, announced, sent)")]),
    dict(group="deliver", file="src/bin/copia/dir_sync.rs", name="transfer_file_from_remote", sig=None, option=True, no_loop=True,
         lean="def pullStreamGen (spawn_ok stdout_ok create_ok : Bool) (copy : Option Nat) (flush_ok : Bool) (wait : Option Bool) : Option Nat := Id.run do\n"
              "  -- world: whether ssh could be spawned, its stdout taken, the local file created; what `tokio::io::copy` returns (none = a read or a\n"
              "  -- write failed); whether the final `flush` — which collects the result of the last write — succeeds; the child's exit (none = wait fails)",
         calls={"Ok": lambda a: a[0]}, paths={},
         verbatim=[("use tokio::io::AsyncWriteExt;", ""),
                   ("let escaped = remote_path.replace('\\\\', \"\\\\\\\\\").replace('\\'', \"\\\\'\");", ""),
                   ('let mut child = tokio::process::Command::new("ssh") .arg(host) .arg(format!("cat $\'{escaped}\'")) .stdout(std::process::Stdio::piped()) .stderr(std::process::Stdio::piped()) .spawn() .map_err(|e| format!("ssh spawn: {e}"))?;',
                    "if !spawn_ok then\n  return none"),
                   ('let mut stdout = child .stdout .take() .ok_or_else(|| "Failed to open SSH stdout".to_string())?;', "if !stdout_ok then\n  return none"),
                   ('let mut file = tokio::fs::File::create(local_path) .await .map_err(|e| format!("create {}: {e}", local_path.display()))?;', "if !create_ok then\n  return none"),
                   ('let written = tokio::io::copy(&mut stdout, &mut file) .await .map_err(|e| format!("stream {}: {e}", local_path.display()))?;', "let some written := copy | return none"),
                   ('file.flush().await.map_err(|e| format!("flush: {e}"))?;', "if !flush_ok then\n  return none"),
                   ("drop(stdout);", ""),
                   ('let result = child .wait_with_output() .await .map_err(|e| format!("ssh wait: {e}"))?;', "let some status_success := wait | return none"),
                   ('if !result.status.success() { let stderr = String::from_utf8_lossy(&result.stderr); return Err(format!("SSH failed for {remote_path}: {stderr}")); }',
                    "if !status_success then\n  return none")]),
    dict(group="deliver", file="src/bin/copia/incremental.rs", name="deliver_pull",
         sig="fn deliver_pull( host: &str, remote_file: &str, local_dest: &Path, mtime: Option<i64>, ) -> Result<u64, String>",
         lean="def deliverPull (chunks : List Copia.Deliver.Bytes) (mtime : Option Int) : List DStep := Id.run do\n"
              "  let mut steps : List DStep := []",
         retval="steps", calls={"Ok": lambda a: "OK"}, paths={},
         verbatim=[("let tmp = tmp_path(local_dest);", ""),
                   ("let size = transfer_file_from_remote(host, remote_file, &tmp).await?;", "steps := steps ++ DStep.openTmp :: chunks.map DStep.chunk"),
                   ('tokio::fs::rename(&tmp, local_dest) .await .map_err(|e| format!("rename {}: {e}", local_dest.display()))?;', "steps := steps ++ [DStep.publish]"),
                   ("let _ = set_local_mtime(local_dest, t);", "steps := steps ++ [DStep.stamp]")]),
    dict(group="bidir", file="src/bin/copia/bidir.rs", name="apply",
         sig="fn apply( root_a: &Path, root_b: &Path, rel: &Path, act: Action, a: &FpMap, b: &FpMap, host: &str, common: &mut FpMap, conflicts: &mut Vec<PathBuf>, ) -> std::io::Result<()>",
         lean="def apply {P C : Type} [DecidableEq P] [DecidableEq C] (ge : C → C → Bool) (cname : P → C → P)\n"
              "    (a b : List (P × Copia.Reconcile.Fp C)) (l : Copia.Bisync.Live P C) (rel : P) (act : Copia.Reconcile.Action) :\n"
              "    Option (Copia.Bisync.Live P C × Bool) := do\n"
              "  -- the file system under the two roots, the `common` map and the conflict list are the function's world\n"
              "  let mut fs : FS P C := (l.A, l.B)\n"
              "  let mut common := l.common\n"
              "  let mut conflicts := false",
         retval="({ A := fs.1, B := fs.2, common := common }, conflicts)",
         calls={"Ok": lambda a: "OK" if a == ["()"] else (_ for _ in ()).throw(TranslateError("Ok(..) with a value"))},
         effects={"copy_atomic": (True, lambda a: f"fs ← fsCopy fs {a[0]} {a[1]}"),
                  "std::fs::remove_file": (False, lambda a: f"fs := fsDel fs {a[0]}")},
         idents={"root_a": "Side.a", "root_b": "Side.b"}, fields={"blake3": "digest"},
         push_override={"conflicts": "conflicts := true"},
         block_exprs={"loser_name": ('let mut n = rel.as_os_str().to_owned(); n.push(format!(".conflict-{host}-{}", short_hex(&lose_fp.blake3))); PathBuf::from(n)',
                                     "cname rel lose_fp.digest")},
         paths={"std::fs::symlink_metadata": "fsGet fs",
                "Action::Noop": "Copia.Reconcile.Action.noop", "Action::ConvergeIdentical": "Copia.Reconcile.Action.convergeIdentical",
                "Action::PropagateAtoB": "Copia.Reconcile.Action.propagateAtoB", "Action::PropagateBtoA": "Copia.Reconcile.Action.propagateBtoA",
                "Action::DeleteA": "Copia.Reconcile.Action.deleteA", "Action::DeleteB": "Copia.Reconcile.Action.deleteB",
                "Action::Conflict": "Copia.Reconcile.Action.conflict",
                "ConflictKind::DeleteVsModify": "Copia.Reconcile.ConflictKind.deleteVsModify", "ConflictKind::BothChanged": "Copia.Reconcile.ConflictKind.bothChanged"}),
    dict(group="bidir", file="src/bin/copia/bidir.rs", name="run_bisync (from `let plan = reconcile(…);` to `arc.save(&apath)?;`)", fn="run_bisync", sig=None,
         slice=("let plan = reconcile(&a, &b, &base, trust_base);", "arc.save(&apath)?;"),
         subst=[("opts.dry_run", "dry_run")],
         lean="def applyAndRecord {P C : Type} [DecidableEq P] [DecidableEq C] (le : P → P → Bool) (ge : C → C → Bool) (cname : P → C → P)\n"
              "    (a b base : List (P × Copia.Reconcile.Fp C)) (trust_base dry_run : Bool) (fs0 : FS P C) :\n"
              "    Option (FS P C × Option (List (P × Copia.Reconcile.Fp C)) × Nat) := do\n"
              "  -- world: the file system under the two roots, the archive file (`recorded`: none = not written), the number of conflict paths\n"
              "  let mut fs := fs0\n"
              "  let mut recorded := none",
         retval="(fs, recorded, (0 : Nat))",
         epilogue=["return (fs, recorded, conflict_paths)"],
         calls={"reconcile": lambda a: "(Copia.Gen.Loops.reconcile le " + " ".join(a) + ")",
                "Ok": lambda a: "OK" if a == ["()"] else (_ for _ in ()).throw(TranslateError("Ok(..) with a value"))},
         verbatim=[("let conflicts = plan .iter() .filter(|(_, act)| matches!(act, Action::Conflict(_))) .count();", ""),
                   ("let host = host_id();", ""),
                   ("let mut conflict_paths: Vec<PathBuf> = Vec::new();", "let mut conflict_paths := (0 : Nat)"),
                   ("apply( root_a, root_b, path, *act, &a, &b, &host, &mut common, &mut conflict_paths, )?;",
                    "let r ← apply ge cname a b { A := fs.1, B := fs.2, common := common } path act\n"
                    "fs := (r.1.A, r.1.B)\n"
                    "common := r.1.common\n"
                    "if r.2 then\n"
                    "  conflict_paths := conflict_paths + 1"),
                   ("let mut arc = loaded.unwrap_or_else(|| Archive::fresh(pair.clone(), host.clone()));", ""),
                   ("arc.entries = common;", ""),
                   ("arc.epoch += 1;", ""),
                   ("arc.host_id = host;", ""),
                   ("arc.save(&apath)?;", "recorded := some common")],
         paths={}),
    dict(group="bidir", file="src/bin/copia/bidir.rs", name="run_bisync (the result: from `if conflict_paths.is_empty() {` to the end)", fn="run_bisync", sig=None,
         slice=("if conflict_paths.is_empty() {", ".into())"), slice_close=1,
         lean="def bisyncExitGen (conflict_paths : Nat) : Bool := Id.run do\n  -- true = Ok(()) (exit status 0); `conflict_paths` = the number of paths `apply` reported as conflicts",
         calls={}, paths={},
         verbatim=[('if conflict_paths.is_empty() { Ok(()) } else { Err(format!( "{} path(s) had conflicts (both versions preserved)", conflict_paths.len() ) .into()) }',
                    "if conflict_paths == 0 then\n  return true\nelse\n  return false")]),
    dict(group="plan", file="src/bin/copia/plan.rs", name="build_plan",
         sig="fn build_plan( src: &MetaMap, dst: &MetaMap, excludes: &[String], with_delete: bool, ) -> SyncPlan",
         lean="def buildPlan {K : Type} [DecidableEq K] (le : K → K → Bool) (excl : K → Bool)\n"
              "    (src dst : List (K × Copia.Plan.FileMeta)) (with_delete : Bool) : Copia.Plan.SyncPlan K := Id.run do",
         calls={"is_excluded": lambda a: (_ for _ in ()).throw(TranslateError("is_excluded called with other patterns")) if a[1] != "excludes" else f"(excl {a[0]})",
                "needs_transfer": lambda a: "(Copia.Gen.needsTransfer " + " ".join(a) + ")"},
         paths={"SyncPlan::default": "({ transfer := [], skipped := 0, delete := [] } : Copia.Plan.SyncPlan K)"}),
    dict(group="plan", file="src/bin/copia/plan.rs", name="is_excluded",
         sig="fn is_excluded(rel: &Path, excludes: &[String]) -> bool",
         lean="def isExcluded (globMatch : List Char → List Char → Bool) (rel : List Char) (excludes : List (List Char)) : Bool := Id.run do",
         calls={"glob_match": lambda a: "(globMatch " + " ".join(a) + ")"},
         paths={"Component::Normal": "Comp.normal"}),
    dict(group="plan", file="src/bin/copia/plan.rs", name="glob_match",
         sig="fn glob_match(pat: &str, text: &str) -> bool", option=True,
         lean="def globMatch (fuel : Nat) (pat text : List Char) : Option Bool := Id.run do",
         calls={}, paths={}),
]

PREAMBLE = '''%s
/-!
GENERATED by tools/rs2lean_do.py from %s — do not edit.
Each definition is the source function statement by statement (see the translator's header for what
is interpreted). `Copia/Lemmas/GenEqLoops*.lean` proves them equal to the hand-written models.
-/
namespace Copia.Gen.Loops
%s
'''

GROUP_HEAD = {
    "reconcile": ("import Copia.Gen.Decisions\nimport Copia.Model.LoopSupport",
                  "open Copia.Reconcile (lookup dedupAdj)\nopen Copia.LoopSupport"),
    "plan": ("import Copia.Gen.Decisions\nimport Copia.Model.LoopSupport",
             "open Copia.Reconcile (lookup dedupAdj)\nopen Copia.Plan (trimEndSlash splitSlash)\nopen Copia.LoopSupport"),
    "bidir": ("import Copia.Gen.Decisions\nimport Copia.Gen.LoopsReconcile\nimport Copia.Model.LoopSupport\nimport Copia.Model.BidirSupport\nimport Copia.Model.HexSupport",
              "open Copia.Reconcile (lookup dedupAdj)\nopen Copia.LoopSupport\nopen Copia.Bisync (cIns cDel)\nopen Copia.BidirSupport"),
    "hub": ("import Copia.Model.Hub", "open Copia.Hub (Comp components)"),
    "hubsync": ("import Copia.Model.HubSync", ""),
    "archive": ("import Copia.Gen.Constants", ""),
    "scan": ("import Copia.Model.ScanSupport\nimport Copia.Model.Meta\nimport Copia.Model.Reconcile", "open Copia.ScanSupport (StatRes)"),
    "codec": ("import Copia.Model.Codec\nimport Copia.Gen.Decisions", "open Copia.Codec"),
    "wire": ("import Copia.Model.Hub\nimport Copia.Model.WireSupport", "open Copia.WireSupport (FrameRes)\nopen Copia.Hub (Req Reply Session Exit HTree)"),
    "hubput": ("import Copia.Model.HubTrace\nimport Copia.Model.HubGetSolo\nimport Copia.Model.Hub\nimport Copia.Model.HubLock\nimport Copia.Model.HexSupport", "open Copia.HubConc (Call Chunk Hash)\nopen Copia.HubGet (GCall)\nopen Copia.HubLock (LockCall)"),
    "deliver": ("import Copia.Model.Deliver", "open Copia.Deliver (DStep)"),
    "target": ("import Copia.Model.Target", ""),
    "oneway": ("import Copia.Model.OneWay\nimport Copia.Gen.LoopsPlan\nimport Copia.Model.Target", ""),
    "crash": ("import Copia.Model.Crash", "open Copia.Crash (Side FsStep)"),
    "delta": ("import Copia.Model.DeltaSupport",
              "open Copia.Delta Copia.DeltaSupport\nopen Copia.Checksum (Fast)"),
}

GROUPS = {"reconcile": "LoopsReconcile.lean", "plan": "LoopsPlan.lean", "bidir": "LoopsBidir.lean", "delta": "LoopsDelta.lean", "hub": "LoopsHub.lean", "hubsync": "LoopsHubSync.lean", "hubput": "LoopsHubPut.lean", "wire": "LoopsWire.lean", "archive": "LoopsArchive.lean", "scan": "LoopsScan.lean", "codec": "LoopsCodec.lean", "crash": "LoopsCrash.lean", "deliver": "LoopsDeliver.lean", "oneway": "LoopsOneWay.lean", "target": "LoopsTarget.lean"}


def translate(group):
    fs = [f for f in FUNCS if f["group"] == group]
    L = [PREAMBLE % (GROUP_HEAD[group][0], ", ".join(sorted({f["file"] for f in fs})), GROUP_HEAD[group][1])]
    for f in fs:
        text = open(os.path.join(REPO, f["file"])).read()
        text = text.split("#[cfg(kani)]")[0].split("#[cfg(test)]")[0]
        sig, body = fn_source(text, f.get("fn", f["name"]))
        sig = re.sub(r"^pub ", "", sig)
        if f.get("sig") is not None and " ".join(sig.split()) != f["sig"]:
            raise TranslateError(f"{f['name']}: signature changed: {sig!r}")
        if "slice" in f:
            # a SECTION of the function body: from the first statement named to the last one named (both must occur exactly once)
            a0, a1 = f["slice"]
            if body.count(a0) != 1 or body.count(a1) != 1 or body.index(a0) > body.index(a1):
                raise TranslateError(f"{f['name']}: the section `{a0}` … `{a1}` is no longer there")
            end_ = body.index(a1) + (0 if f.get("slice_until") else len(a1))
            for _ in range(f.get("slice_close", 0)):
                end_ = body.index("}", end_) + 1      # … and the closing brace(s) of the block the last statement sits in
            body = "{" + body[body.index(a0):end_] + "}"
        for a_, b_ in f.get("subst", []):
            if a_ not in body:
                raise TranslateError(f"{f['name']}: `{a_}` is no longer there")
            body = body.replace(a_, b_)
        t = Fn(tokenize(body), f)
        if f.get("expr_body"):
            t.eat("{")
            lines = ["  " + t.expr()]
            t.eat("}")
        else:
            lines = t.block(2)
        if f.get("epilogue"):
            lines += ["  " + x for x in f["epilogue"]]
        if t.i != len(t.t):
            raise TranslateError(f"{f['name']}: trailing tokens")
        if t.has_while != (bool(f.get("option")) and not f.get("no_loop")):
            raise TranslateError(f"{f['name']}: `while` loops appeared or disappeared")
        L.append(f"/-- `{f['file']}::{f['name']}` -/")
        L.append(f["lean"])
        L += lines
        L.append("")
    L.append("end Copia.Gen.Loops")
    return "\n".join(L) + "\n"


def main():
    groups = [a for a in sys.argv[1:] if a in GROUPS] or list(GROUPS)
    rc = 0
    for g in groups:
        out_path = os.path.join(OUTDIR, GROUPS[g])
        try:
            out = translate(g)
        except (TranslateError, OSError, ValueError) as e:
            print(f"rs2lean_do: TRANSLATE-ERROR ({g}) {e}")
            rc = 2
            continue
        old = open(out_path).read() if os.path.exists(out_path) else None
        if old != out:
            os.makedirs(OUTDIR, exist_ok=True)
            with open(out_path, "w") as fh:
                fh.write(out)
        print(f"rs2lean_do: wrote {out_path} ({len(out.splitlines())} lines)")
    return rc


if __name__ == "__main__":
    sys.exit(main())
