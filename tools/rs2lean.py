#!/usr/bin/env python3
"""Translator for copia's small pure DECISION functions: Rust source text → Lean definitions.

Regenerates lean/Copia/Gen/Decisions.lean from /repo's CURRENT sources on every check run
(DESIGN.md §3.2).  `Copia/Lemmas/GenEq.lean` proves each generated definition equal to the hand-written
model the property theorems are about, so the theorems are re-checked against what the code says now.
A function whose text leaves the supported subset (or whose signature changed) is a hard error: the
check then reports the proof obligation as broken and falls back on the correspondence search.

Supported subset (expressions only, no loops, no mutation):
  match on a variable or a tuple of variables with patterns None / Some(x) / Some(_) / _ / true / false /
  unit enum variants, optional `if` guards (first-match semantics kept by an explicit fall-through);
  if/else; blocks with `let x = e;`; `==`, `!=`, `&&`, `||`, `!`, `&e`; field access; closures as the
  argument of `.map_or(d, |z| e)` and `.is_some_and(|z| e)`; enum constructors; calls of other translated
  functions.
"""
import os, re, sys

REPO = os.environ.get("COPIA_REPO", "/repo")
OUT = os.path.normpath(os.path.join(os.path.dirname(os.path.abspath(__file__)), "..", "lean", "Copia", "Gen", "Decisions.lean"))


class TranslateError(Exception):
    pass


TOKEN = re.compile(r"\s*(=>|==|!=|<=|>=|&&|\|\||::|->|[A-Za-z_][A-Za-z0-9_]*|\d+|\"(?:[^\"\\\\]|\\\\.)*\"|[{}()\[\],;:.|!&=<>_*#?])")


def tokenize(src):
    src = re.sub(r"//[^\n]*", "", src)
    toks, i = [], 0
    while i < len(src):
        m = TOKEN.match(src, i)
        if not m:
            if src[i:].strip() == "":
                break
            raise TranslateError(f"cannot tokenize at: {src[i:i+30]!r}")
        toks.append(m.group(1))
        i = m.end()
    return toks


def fn_source(text, name):
    m = re.search(r"\bfn " + re.escape(name) + r"\s*(?:<[^>]*>)?\s*\(", text)
    if not m:
        raise TranslateError(f"fn {name} not found")
    # signature up to the opening brace of the body
    i = m.start()
    j = text.index("{", m.end())
    sig = " ".join(text[i:j].split())
    depth, k = 0, j
    while True:
        if text[k] == "{":
            depth += 1
        elif text[k] == "}":
            depth -= 1
            if depth == 0:
                break
        k += 1
    return sig, text[j:k + 1]


class P:
    def __init__(self, toks, ctx):
        self.t, self.i, self.ctx = toks, 0, ctx

    def peek(self, k=0):
        return self.t[self.i + k] if self.i + k < len(self.t) else None

    def eat(self, x=None):
        tok = self.peek()
        if tok is None or (x is not None and tok != x):
            raise TranslateError(f"expected {x!r}, found {tok!r} at token {self.i}: {' '.join(self.t[max(0, self.i-6):self.i+6])}")
        self.i += 1
        return tok

    # ---- blocks and statements
    def block(self):
        self.eat("{")
        lets = []
        while self.peek() == "let":
            self.eat("let")
            name = self.eat()
            self.eat("=")
            e = self.expr()
            self.eat(";")
            lets.append((name, e))
        e = self.expr()
        self.eat("}")
        for name, v in reversed(lets):
            e = f"(let {name} := {v}\n  {e})"
        return e

    def expr(self):
        return self.or_()

    def or_(self):
        a = self.and_()
        while self.peek() == "||":
            self.eat()
            b = self.and_()
            a = f"({a} || {b})"
        return a

    def and_(self):
        a = self.cmp()
        while self.peek() == "&&":
            self.eat()
            b = self.cmp()
            a = f"({a} && {b})"
        return a

    def cmp(self):
        a = self.unary()
        if self.peek() in ("==", "!="):
            op = self.eat()
            b = self.unary()
            return f"(decide ({a} = {b}))" if op == "==" else f"(decide ({a} ≠ {b}))"
        if self.peek() in ("<", ">", "<=", ">="):
            op = {"<": "<", ">": ">", "<=": "≤", ">=": "≥"}[self.eat()]
            b = self.unary()
            return f"(decide ({a} {op} {b}))"
        return a

    def unary(self):
        if self.peek() == "!":
            self.eat()
            return f"(!{self.unary()})"
        if self.peek() in ("&", "*"):
            self.eat()
            return self.unary()
        return self.postfix()

    def closure(self):
        self.eat("|")
        v = self.eat()
        self.eat("|")
        body = self.expr()
        return v, body

    def postfix(self):
        e = self.primary()
        while self.peek() == ".":
            self.eat(".")
            name = self.eat()
            if self.peek() == "(":
                self.eat("(")
                if name == "map_or":
                    d = self.expr()
                    self.eat(",")
                    v, body = self.closure()
                    self.eat(")")
                    e = f"(match {e} with | some {v} => {body} | none => {d})"
                elif name == "is_some_and":
                    v, body = self.closure()
                    self.eat(")")
                    e = f"(match {e} with | some {v} => {body} | none => false)"
                elif name in ("copied", "clone") and self.peek() == ")":
                    self.eat(")")
                else:
                    raise TranslateError(f"unsupported method .{name}(…)")
            else:
                e = f"{e}.{self.ctx['fields'].get(name, name)}"
        return e

    def path(self):
        parts = [self.eat()]
        while self.peek() == "::":
            self.eat()
            parts.append(self.eat())
        return parts

    def ctor(self, parts):
        """enum constructor / function path → Lean"""
        if len(parts) == 1:
            return self.ctx.get("consts", {}).get(parts[0], parts[0])
        ty, v = parts[-2], parts[-1]
        if ty == "Self":
            ty = self.ctx["self"]
        if (ty, v) in self.ctx["calls"]:
            return self.ctx["calls"][(ty, v)]
        if ty in self.ctx["enums"]:
            return f"{self.ctx['enums'][ty]}.{v[0].lower() + v[1:]}"
        raise TranslateError(f"unknown path {'::'.join(parts)}")

    def primary(self):
        tok = self.peek()
        if tok == "match":
            return self.match()
        if tok == "if":
            self.eat()
            c = self.expr()
            a = self.block()
            self.eat("else")
            b = self.block() if self.peek() == "{" else self.primary()
            return f"(if {c} then {a} else {b})"
        if tok == "{":
            return self.block()
        if tok == "(":
            self.eat()
            es = [self.expr()]
            while self.peek() == ",":
                self.eat()
                es.append(self.expr())
            self.eat(")")
            return es[0] if len(es) == 1 else ("TUPLE", es)
        if tok in ("true", "false"):
            return self.eat()
        if re.fullmatch(r"[A-Za-z_][A-Za-z0-9_]*", tok or ""):
            parts = self.path()
            head = self.ctor(parts)
            if self.peek() == "(":
                self.eat("(")
                args = []
                if self.peek() != ")":
                    args.append(self.expr())
                    while self.peek() == ",":
                        self.eat()
                        args.append(self.expr())
                self.eat(")")
                return "(" + head + " " + " ".join(args) + ")"
            return head
        raise TranslateError(f"unsupported expression at {tok!r}")

    # ---- match with first-match semantics and guards
    def pattern(self):
        tok = self.peek()
        if tok == "(":
            self.eat()
            ps = [self.pattern()]
            while self.peek() == ",":
                self.eat()
                ps.append(self.pattern())
            self.eat(")")
            return ", ".join(ps)
        if tok == "_":
            self.eat()
            return "_"
        if tok in ("true", "false"):
            return self.eat()
        parts = self.path()
        if parts == ["None"]:
            return "none"
        if parts == ["Some"]:
            self.eat("(")
            v = self.eat()
            self.eat(")")
            return f"some {v}"
        return self.ctor(parts)

    def match(self):
        self.eat("match")
        scr = self.expr()
        scr_txt = ", ".join(scr[1]) if isinstance(scr, tuple) else scr
        self.eat("{")
        arms = []
        while self.peek() != "}":
            pat = self.pattern()
            guard = None
            if self.peek() == "if":
                self.eat()
                guard = self.expr()
            self.eat("=>")
            res = self.expr()
            if self.peek() == ",":
                self.eat()
            arms.append((pat, guard, res))
        self.eat("}")

        width_all = len(scr[1]) if isinstance(scr, tuple) else 1

        def atoms(pat):
            a = [x.strip() for x in pat.split(", ")]
            return ["_"] * width_all if a == ["_"] else a

        def covers(atom, val):
            return atom == "_" or atom == val or (val == "some" and atom.startswith("some "))

        def exhaustive(sub):
            """do the UNGUARDED arms of `sub` cover every value? (Option / bool positions; anything else needs a `_`)"""
            un = [atoms(p_) for (p_, g_, _) in sub if g_ is None]
            if not un:
                return False
            width = len(un[0])
            doms = []
            for pos in range(width):
                col = [a[pos] for a in un] + [atoms(p_)[pos] for (p_, _, _) in sub]
                if any(c == "none" or c.startswith("some ") for c in col):
                    doms.append(["none", "some"])
                elif any(c in ("true", "false") for c in col):
                    doms.append(["true", "false"])
                else:
                    doms.append(["<other>"])
            import itertools
            for combo in itertools.product(*doms):
                if not any(all(covers(a[i], combo[i]) for i in range(width)) for a in un):
                    return False
            return True

        def subsumed(q, p_):
            """every value matching pattern q also matches pattern p_ (atoms only)"""
            return all(pa == "_" or pa == qa or (pa.startswith("some ") and qa.startswith("some ")) for qa, pa in zip(atoms(q), atoms(p_)))

        def build(k):
            out, caught = [], []
            for idx in range(k, len(arms)):
                pat, guard, res = arms[idx]
                if any(subsumed(pat, c) for c in caught):
                    continue        # a guarded arm above already takes every such value; this arm lives in its fall-through
                pat = ", ".join(atoms(pat))
                if guard is None:
                    out.append(f"| {pat} => {res}")
                else:
                    rest = build(idx + 1)
                    out.append(f"| {pat} => if {guard} then {res} else {rest}")
                    caught.append(pat)
            if not exhaustive(arms[k:]):
                # only reachable in a fall-through context where an earlier pattern already matched: Rust's match as a
                # whole is exhaustive. Lean wants syntactic exhaustiveness; the extra arm repeats the last result.
                out.append(f"| {', '.join(['_'] * len(atoms(arms[k][0])))} => {arms[-1][2]}")
            return f"(match {scr_txt} with " + " ".join(out) + ")"
        return build(0)


def guard_cascade(p):
    """`{ if C1 { return Err(..); } … if Cn { return Err(..); } Ok(()) }`  →  the list [C1 … Cn] as Lean Bool terms"""
    p.eat("{")
    conds = []
    while p.peek() == "if":
        p.eat("if")
        conds.append(p.expr())
        p.eat("{")
        p.eat("return")
        if p.eat() != "Err":
            raise TranslateError("guard body is not `return Err(..)`")
        depth = 0
        while True:
            t = p.eat()
            if t == "(":
                depth += 1
            elif t == ")":
                depth -= 1
                if depth == 0:
                    break
        p.eat(";")
        p.eat("}")
    for t in ("Ok", "(", "(", ")", ")", "}"):
        p.eat(t)
    if p.peek() is not None or not conds:
        raise TranslateError("not a pure guard cascade")
    return conds


CTX = {
    "self": "Fingerprint",
    "fields": {"blake3": "digest"},
    "enums": {"Action": "Copia.Reconcile.Action", "ConflictKind": "Copia.Reconcile.ConflictKind", "Cas": "Cas"},
    "calls": {("Fingerprint", "same"): "fpSame"},
}

# (file, fn, expected signature text, Lean header)
FUNCS = [
    ("src/bin/copia/reconcile.rs", "same", "fn same(a: &Self, b: &Self) -> bool",
     "def fpSame {D : Type} [DecidableEq D] (a b : Copia.Reconcile.Fp D) : Bool :="),
    ("src/bin/copia/reconcile.rs", "reconcile_path",
     "fn reconcile_path( a: Option<Fingerprint>, b: Option<Fingerprint>, base: Option<Fingerprint>, ) -> Action",
     "def reconcilePath {D : Type} [DecidableEq D] (a b base : Option (Copia.Reconcile.Fp D)) : Copia.Reconcile.Action :="),
    ("src/bin/copia/plan.rs", "needs_transfer", "fn needs_transfer(src: FileMeta, dst: Option<FileMeta>) -> bool",
     "def needsTransfer (src : Copia.Plan.FileMeta) (dst : Option Copia.Plan.FileMeta) : Bool :="),
    ("src/bin/copia/wire.rs", "cas_decide", "fn cas_decide(current: Option<Hash>, expected: Option<Hash>) -> Cas",
     "def casDecide {H : Type} [DecidableEq H] (current expected : Option H) : Cas :="),
]


def translate():
    L = ["import Copia.Model.Reconcile", "import Copia.Model.Plan", "import Copia.Gen.Constants",
         "/-! GENERATED by tools/rs2lean.py from /repo on every check run — do not edit. -/", "namespace Copia.Gen", "",
         "inductive Cas | commit | conflict", "  deriving DecidableEq, Repr", ""]
    for rel, fn, want_sig, header in FUNCS:
        text = open(os.path.join(REPO, rel), encoding="utf-8").read()
        sig, body = fn_source(text, fn)
        norm = lambda s: re.sub(r"\s+", "", s.replace("pub ", ""))
        if norm(sig) != norm(want_sig):
            raise TranslateError(f"signature of {fn} changed: {sig!r}")
        p = P(tokenize(body), CTX)
        lean = p.block()
        if p.peek() is not None:
            raise TranslateError(f"trailing tokens after the body of {fn}")
        L.append(f"/-- `{rel}::{fn}` -/")
        L.append(header)
        L.append("  " + lean)
        L.append("")
    # FrameHeader::validate — a guard cascade over the header's fields and the protocol constants
    text = open(os.path.join(REPO, "src/protocol.rs"), encoding="utf-8").read()
    impl = text[text.index("impl FrameHeader {"):]
    sig, body = fn_source(impl, "validate")
    if re.sub(r"\s+", "", sig.replace("pub ", "")) != "fnvalidate(&self)->Result<()>":
        raise TranslateError(f"signature of FrameHeader::validate changed: {sig!r}")
    ctx = dict(CTX, consts={"PROTOCOL_MAGIC": "protocolMagic", "PROTOCOL_VERSION": "protocolVersion", "MAX_PAYLOAD_SIZE": "maxPayloadSize", "self": "self"},
               fields={"magic": "magic", "version": "version", "length": "length"})
    conds = guard_cascade(P(tokenize(body), ctx))
    conds = [c.replace("self.magic", "magic").replace("self.version", "version").replace("self.length", "length") for c in conds]
    L.append("/-- `src/protocol.rs::FrameHeader::validate`: `true` iff no guard fires (every guard returns `Err`) -/")
    L.append("def headerValid (magic : List Nat) (version length : Nat) : Bool :=")
    L.append("  " + " && ".join(f"!{c}" for c in conds))
    L.append("")
    # Archive::load — the acceptance test applied to a PARSED archive: `if COND { Some(a) } else { None }`
    text = open(os.path.join(REPO, "src/bin/copia/archive.rs"), encoding="utf-8").read()
    sig, body = fn_source(text, "load")
    if re.sub(r"\s+", "", sig.replace("pub ", "")) != "fnload(path:&Path,expected_pair:&str)->Option<Self>":
        raise TranslateError(f"signature of Archive::load changed: {sig!r}")
    body = re.sub(r"//[^\n]*", "", body)
    m = re.search(r"\bif\s+(.*?)\{\s*Some\(a\)\s*\}\s*else\s*\{\s*None\s*\}", body, re.S)
    if not m or body.count("Some(") != 1:
        raise TranslateError("Archive::load: expected exactly one `if COND { Some(a) } else { None }`")
    before = body[:m.start()]
    if not re.fullmatch(r"\{\s*let bytes = std::fs::read\(path\)\.ok\(\)\?;\s*let a: Self = serde_json::from_slice\(&bytes\)\.ok\(\)\?;\s*", before):
        raise TranslateError("Archive::load: the part before the acceptance test is not `read(path).ok()?; from_slice(..).ok()?`")
    ctx = dict(CTX, consts={"FORMAT_VERSION": "archiveFormatVersion", "a": "a", "expected_pair": "expected"},
               fields={"format_version": "formatVersion", "root_pair_hash": "pairHash"})
    pc = P(tokenize(m.group(1)), ctx)
    cond = pc.expr()
    if pc.peek() is not None:
        raise TranslateError("Archive::load: trailing tokens in the acceptance condition")
    L.append("/-- the two header fields `Archive::load` looks at -/")
    L.append("structure ArchHdr where")
    L.append("  formatVersion : Nat")
    L.append("  pairHash : String")
    L.append("")
    L.append("/-- `src/bin/copia/archive.rs::Archive::load`: a parsed archive is trusted iff this holds (anything unreadable or unparsable is `None` before) -/")
    L.append("def archiveAccept (a : ArchHdr) (expected : String) : Bool :=")
    L.append("  " + cond)
    L.append("")
    L.append("end Copia.Gen")
    return "\n".join(L) + "\n"


def main():
    try:
        text = translate()
    except (TranslateError, OSError, ValueError) as e:
        print(f"rs2lean: {e}", file=sys.stderr)
        return 1
    os.makedirs(os.path.dirname(OUT), exist_ok=True)
    old = open(OUT).read() if os.path.exists(OUT) else None
    if old != text:
        with open(OUT, "w") as f:
            f.write(text)
    return 0


if __name__ == "__main__":
    sys.exit(main())
