"""C09 — `copia sync -r` killed before its j-th call of each file-system / pipe write syscall, in all
three directions; for push the "remote" shell command (SSH stand-in) is left to finish after its
sender died (`strace -b execve` detaches exec'd children, only copia itself is killed).

After every kill: every non-staging destination path holds its complete old bytes or the complete
source bytes, files outside the plan are unchanged; the same command run again completes and gives
the uninterrupted result.  strace counts `when=` per syscall name and per thread, so the sweep is
over (syscall, j) for j up to the largest per-thread count seen in the reference trace.
"""
import os, re, shutil, subprocess, time
from bbox import Sandbox, Rng, hexs, CLI_BIN, HOST

SYSCALLS = ["write", "copy_file_range", "openat", "rename", "unlink", "utimensat", "sendfile", "pwrite64", "renameat", "renameat2", "unlinkat", "mkdir"]


def mk(rng, n):
    return bytes(rng.next() & 0xFF for _ in range(n)) if n else b""


def scenario_trees(rng):
    big = mk(rng, 700_000)          # several 256 KiB transfer chunks
    mid = mk(rng, 300_000)
    # fresh/new.bin, new-note.txt: files the destination does not have yet (a NEW file too appears complete or not at all)
    src = {"big.bin": big, "mid.bin": mid, "small.txt": b"small new\n", "empty": b"", "d/nested.txt": b"nested new\n", "same.txt": b"unchanged",
           "fresh/new.bin": mk(rng, 200_000), "new-note.txt": b"a note the destination never had\n"}
    # mid.bin: an older version of EXACTLY the same length (only the mtime tells the quick check it differs)
    dst = {"big.bin": mk(rng, 650_000), "mid.bin": mk(rng, 300_000), "small.txt": b"small old version\n", "d/nested.txt": b"old", "same.txt": b"unchanged",
           "outside-plan.txt": b"must stay", "stale.txt": b"stale"}
    return src, dst


def write_tree(root, tree, mtimes):
    os.makedirs(root, exist_ok=True)
    for rel, data in tree.items():
        p = os.path.join(root, rel)
        os.makedirs(os.path.dirname(p), exist_ok=True)
        open(p, "wb").write(data)
        os.utime(p, (mtimes.get(rel, 1_600_000_000), mtimes.get(rel, 1_600_000_000)))


def read_tree(root):
    out = {}
    for d, _, files in os.walk(root):
        for fn in files:
            p = os.path.join(d, fn)
            if os.path.isfile(p) and not os.path.islink(p):
                out[os.path.relpath(p, root)] = open(p, "rb").read()
    return out


def nonstaging(t):
    return {k: v for k, v in t.items() if not k.endswith(".copia-tmp")}


def cut_stream_scenario(rng, res, count):
    """push of ONE file whose destination version has EXACTLY the source's length; the sender is killed after N bytes of the stream
    (tools/sshstub: SSH_STUB_CUT_AFTER), the orphaned remote command completes on its own. Then the same command again."""
    new, old = mk(rng, 300_000), mk(rng, 300_000)
    src = {"mid.bin": new, "small.txt": b"small new\n"}; dst = {"mid.bin": old, "small.txt": b"small old version\n"}
    for cut in (0, 1, 65_536, 150_000, 299_999):
        with Sandbox("C09") as sb:
            W = sb.path("W"); whome = os.path.join(W, "home"); os.makedirs(whome)
            sb.env["HOME"] = whome; sb.env["SSH_STUB_HOME"] = whome
            sroot, droot = os.path.join(W, "src"), os.path.join(whome, "rdst")
            write_tree(sroot, src, {"mid.bin": 1_650_000_000, "small.txt": 1_650_000_001}); write_tree(droot, dst, {k: 1_500_000_000 for k in dst})
            cmd = [CLI_BIN, "sync", "-r", sroot, f"{HOST}:rdst", "--jobs", "1"]
            env = dict(sb.env, SSH_STUB_CUT_AFTER=str(cut), SSH_STUB_CUT_MATCH="mid.bin.copia-tmp")
            kr = subprocess.run(cmd, env=env, cwd=sb.dir, stdout=subprocess.PIPE, stderr=subprocess.PIPE)
            time.sleep(0.3)
            count("push/stream-cut")
            after = read_tree(droot)
            rep = {"direction": "push", "flags": ["--jobs", "1"], "killed": f"sender SIGKILLed after {cut} of {len(new)} stream bytes of mid.bin", "rc": kr.returncode}
            if kr.returncode != -9:
                res["broken"].append(f"C09/cut-stream: the sender was not killed (rc {kr.returncode}): {kr.stderr.decode('utf-8', 'replace')[-200:]}")
                continue
            for p, c in nonstaging(after).items():
                if c != dst.get(p) and c != src.get(p):
                    res["violations"].append(("truncated-or-mixed-file-at-live-path", f"after the sender died, destination {p} holds {len(c)} bytes that are neither its old bytes nor the complete source file", rep))
            rr = subprocess.run(cmd, env=sb.env, cwd=sb.dir, stdout=subprocess.PIPE, stderr=subprocess.PIPE)
            again = nonstaging(read_tree(droot))
            if rr.returncode != 0 or again != src:
                diff = sorted(p for p in set(again) | set(src) if again.get(p) != src.get(p))
                res["violations"].append(("rerun-does-not-reach-uninterrupted-result", f"the same command after the sender died mid-stream: rc={rr.returncode}, differs at {diff[:4]} (the destination keeps its old bytes); {rr.stderr.decode('utf-8', 'replace')[-200:]}", rep))


def busy_destination_scenario(rng, res, count):
    """C09, local and pull: ONE destination file cannot be replaced by rename — it is a mount point (a bind-mounted single file, as
    container volumes have them): `rename` over it fails with EBUSY. Whatever the run does about that (fail the file, as the
    unchanged code does, or fall back to another way of delivering it — seed C09-M copied the staged bytes INTO the live file), a
    kill before any of its calls on that file or its staging sibling leaves the file complete-old or complete-new, and the other
    planned file too. Skipped (counted) where bind mounts are not permitted."""
    new, old = mk(rng, 400_000), mk(rng, 300_000)
    src = {"conf/app.bin": new, "conf/plain.txt": b"plain new\n"}
    dst = {"conf/app.bin": old, "conf/plain.txt": b"plain old version\n"}
    n = 0
    for direction in ("local", "pull"):
        with Sandbox("C09busy") as sb:
            W = sb.path("W"); whome = os.path.join(W, "home"); os.makedirs(whome)
            sb.env["HOME"] = whome; sb.env["SSH_STUB_HOME"] = whome
            if direction == "local":
                sroot, droot = os.path.join(W, "src"), os.path.join(W, "dst"); sarg = sroot
            else:
                sroot, droot = os.path.join(whome, "rsrc"), os.path.join(W, "dst"); sarg = f"{HOST}:rsrc"
            write_tree(sroot, src, {k: 1_650_000_000 + i for i, k in enumerate(sorted(src))})
            write_tree(droot, dst, {k: 1_500_000_000 for k in dst})
            backing = sb.path("backing.bin")
            open(backing, "wb").write(old); os.utime(backing, (1_500_000_000, 1_500_000_000))
            target = os.path.join(droot, "conf/app.bin")
            m = subprocess.run(["mount", "--bind", backing, target], stdout=subprocess.PIPE, stderr=subprocess.PIPE)
            if m.returncode != 0:
                count("busy-destination/skipped-no-bind-mount")
                continue
            try:
                cmd = [CLI_BIN, "sync", "-r", "--jobs", "1", sarg, droot]
                def reset():
                    open(backing, "wb").write(old); os.utime(backing, (1_500_000_000, 1_500_000_000))
                    for fn in os.listdir(os.path.join(droot, "conf")):
                        if fn.endswith(".copia-tmp"):
                            os.remove(os.path.join(droot, "conf", fn))
                    p2 = os.path.join(droot, "conf/plain.txt")
                    open(p2, "wb").write(dst["conf/plain.txt"]); os.utime(p2, (1_500_000_000, 1_500_000_000))
                tpaths = [target, target + ".copia-tmp"]
                for sc in ("openat", "write", "pwrite64", "copy_file_range", "sendfile", "rename", "ftruncate", "fchmod", "utimensat", "fsync", "unlink", "unlinkat"):
                    for j in (1, 2, 3, 4, 5, 6):
                        reset()
                        kr = subprocess.run(["strace", "-f", "-b", "execve", "-qq", "-o", "/dev/null", "-P", tpaths[0], "-P", tpaths[1], "-e", f"trace={sc}",
                                             "-e", f"inject={sc}:signal=SIGKILL:when={j}"] + cmd, env=sb.env, cwd=sb.dir, stdout=subprocess.PIPE, stderr=subprocess.PIPE)
                        if kr.returncode >= 0:
                            break                   # not killed: fewer than j such calls on this file
                        n += 1
                        count(f"busy-destination/{direction}/{sc}")
                        time.sleep(0.05)
                        after = read_tree(droot)
                        rep = {"direction": direction, "destination": "conf/app.bin is a bind-mounted file (rename over it fails with EBUSY)",
                               "killed_before": f"{sc} #{j} on conf/app.bin or its staging sibling", "rc": kr.returncode}
                        for q, c in nonstaging(after).items():
                            if c != dst.get(q) and c != src.get(q):
                                res["violations"].append(("truncated-or-mixed-file-at-live-path", f"after the kill, destination {q} holds {len(c)} bytes that are neither its old bytes ({len(dst.get(q, b''))}) nor the complete source file ({len(src.get(q, b''))} bytes)", rep))
                        for q in dst:
                            if q not in after:
                                res["violations"].append(("destination-file-missing-after-kill", f"after the kill, destination {q} is missing", rep))
            finally:
                subprocess.run(["umount", "-l", target], stdout=subprocess.PIPE, stderr=subprocess.PIPE)
    return n


def dir_to_file_scenario(rng, res, count):
    """C09 "the same command run again reaches what an uninterrupted run reaches" where the destination holds a DIRECTORY of stale
    files (`report/old-1`, `report/old-2`) at a path where the source has a FILE (`report`), with `--delete`. Whatever an
    uninterrupted run makes of that (today: the file cannot be delivered, exit 1, the stale files are removed), a run killed before
    any of its unlink / rmdir / rename / mkdir calls and then repeated ends with the same exit status and the same files (seed
    C09-O: deletions first, then the directories emptied by THIS run's deletions pruned — after a kill between the last unlink and
    the rmdir no later run prunes the directory, and the file can never be delivered)."""
    src = {"report": b"the report, now a file\n", "keep.txt": b"kept\n", "n/x.txt": b"x new\n"}
    dst = {"report/old-1": b"stale 1\n", "report/old-2": b"stale 2\n", "keep.txt": b"kept\n", "n/x.txt": b"x old\n"}
    n = 0
    for direction in ("local", "pull"):
        with Sandbox("C09d2f") as sb:
            T, W = sb.path("T"), sb.path("W")
            whome = os.path.join(W, "home"); os.makedirs(whome)
            sb.env["HOME"] = whome; sb.env["SSH_STUB_HOME"] = whome
            if direction == "local":
                sroot, droot = os.path.join(W, "src"), os.path.join(W, "dst"); sarg = sroot
            else:
                sroot, droot = os.path.join(whome, "rsrc"), os.path.join(W, "dst"); sarg = f"{HOST}:rsrc"
            write_tree(sroot, src, {k: 1_650_000_000 + i for i, k in enumerate(sorted(src))})
            write_tree(droot, dst, {"keep.txt": 1_650_000_000})
            os.utime(os.path.join(droot, "keep.txt"), (1_650_000_000 + sorted(src).index("keep.txt"), 1_650_000_000 + sorted(src).index("keep.txt")))
            shutil.copytree(W, T, symlinks=True)
            def restore():
                shutil.rmtree(W, ignore_errors=True); shutil.copytree(T, W, symlinks=True)
            cmd = [CLI_BIN, "sync", "-r", "--delete", "--jobs", "1", sarg, droot]
            r = subprocess.run(cmd, env=sb.env, cwd=sb.dir, stdout=subprocess.PIPE, stderr=subprocess.PIPE)
            ref_ok, ref_tree = (r.returncode == 0), nonstaging(read_tree(droot))
            ref_dirs = sorted(os.path.relpath(os.path.join(d_, x), droot) for d_, dn, _ in os.walk(droot) for x in dn)
            for sc in ("unlink", "unlinkat", "rmdir", "rename", "mkdir"):
                for j in range(1, 12):
                    restore()
                    kr = subprocess.run(["strace", "-f", "-b", "execve", "-qq", "-o", "/dev/null", "-e", f"trace={sc}", "-e", f"inject={sc}:signal=SIGKILL:when={j}"] + cmd,
                                        env=sb.env, cwd=sb.dir, stdout=subprocess.PIPE, stderr=subprocess.PIPE)
                    if kr.returncode >= 0:
                        break                       # not killed: fewer than j such calls
                    n += 1
                    count(f"dir-to-file/{direction}/{sc}")
                    time.sleep(0.05)
                    after = nonstaging(read_tree(droot))
                    rep = {"direction": direction, "killed_before": f"{sc} #{j}", "uninterrupted_run": {"exit_0": ref_ok, "files": sorted(ref_tree), "directories": ref_dirs}}
                    for p_, c_ in after.items():
                        if c_ != dst.get(p_) and c_ != src.get(p_):
                            res["violations"].append(("truncated-or-mixed-file-at-live-path", f"after the kill, destination {p_} holds bytes that are neither its old nor the source's", rep))
                    rr = subprocess.run(cmd, env=sb.env, cwd=sb.dir, stdout=subprocess.PIPE, stderr=subprocess.PIPE)
                    again = nonstaging(read_tree(droot))
                    if (rr.returncode == 0) != ref_ok or again != ref_tree:
                        diff = sorted(p_ for p_ in set(again) | set(ref_tree) if again.get(p_) != ref_tree.get(p_))
                        res["violations"].append(("rerun-does-not-reach-uninterrupted-result", f"directory-to-file change under --delete, killed before {sc} #{j}: the same command again exits {rr.returncode} (uninterrupted: {'0' if ref_ok else 'non-zero'}) and differs at {diff[:4]}; {rr.stderr.decode('utf-8', 'replace')[-160:]}", rep))
    return n


def lossy_sibling_names_scenario(rng, res, count):
    """C09, local: pairs of sibling files whose names differ only in a byte that is not valid UTF-8 (Latin-1 names, `report-\\xfe` /
    `report-\\xff`), all in one plan, `--jobs 8`, every copy syscall slowed by 250 ms (strace delay injection) so that the transfers
    overlap. Each file has its OWN reserved staging sibling, so nothing can go wrong; every destination path must hold its old or
    its new bytes when the run is over, and the same command again must complete with the source's bytes everywhere (seed C09-P:
    the staging name was built from `dst.display()`, which maps every invalid byte to U+FFFD — the pair shared one staging file,
    and one task renamed it into place while the other was still copying into it)."""
    pairs = [(b"report-\xfe.dat", b"report-\xff.dat"), (b"caf\xe9.txt", b"caf\xe8.txt"), (b"data/a\x80b.bin", b"data/a\x81b.bin"), (b"data/\xc0", b"data/\xc1")]
    src, dst = {}, {}
    for i, (n1, n2) in enumerate(pairs):
        src[n1], dst[n1] = mk(rng, 1_200_000 + 1000 * i), mk(rng, 900_000)
        src[n2], dst[n2] = b"small new %d\n" % i, b"small old version %d\n" % i
    with Sandbox("C09ls") as sb:
        sroot, droot = os.fsencode(sb.path("src")), os.fsencode(sb.path("dst"))
        for root, tree, t in ((sroot, src, 1_650_000_000), (droot, dst, 1_500_000_000)):
            for rel, data in tree.items():
                p = os.path.join(root, rel)
                os.makedirs(os.path.dirname(p), exist_ok=True)
                with open(p, "wb") as fh:
                    fh.write(data)
                os.utime(p, (t, t))
        def read(root):
            out = {}
            for d, _, files in os.walk(root):
                for fn in files:
                    p = os.path.join(d, fn)
                    out[os.path.relpath(p, root)] = open(p, "rb").read()
            return out
        cmd = [CLI_BIN, "sync", "-r", "--jobs", "8", os.fsdecode(sroot), os.fsdecode(droot)]
        sl = "copy_file_range,sendfile,write,pwrite64"
        r1 = subprocess.run(["strace", "-f", "-qq", "-o", "/dev/null", "-e", f"trace={sl}", "-e", f"inject={sl}:delay_enter=250000"] + cmd,
                            env=sb.env, cwd=sb.dir, stdout=subprocess.PIPE, stderr=subprocess.PIPE)
        after = {k: v for k, v in read(droot).items() if not k.endswith(b".copia-tmp")}
        count("lossy-sibling-names/local")
        rep = {"names": [repr(a) + " / " + repr(b) for a, b in pairs], "flags": ["--jobs", "8"], "rc_slow_run": r1.returncode,
               "stdout": r1.stdout.decode("utf-8", "replace")[-400:], "stderr": r1.stderr.decode("utf-8", "replace")[-400:]}
        for q, c in after.items():
            if c != dst.get(q) and c != src.get(q):
                res["violations"].append(("truncated-or-mixed-file-at-live-path", f"after the run (rc {r1.returncode}), destination {q!r} holds {len(c)} bytes that are neither its old bytes ({len(dst.get(q, b''))}) nor the complete source file ({len(src.get(q, b''))} bytes)", rep))
        for q in dst:
            if q not in after:
                res["violations"].append(("destination-file-missing-after-kill", f"after the run (rc {r1.returncode}), destination {q!r} is missing", rep))
        r2 = subprocess.run(cmd, env=sb.env, cwd=sb.dir, stdout=subprocess.PIPE, stderr=subprocess.PIPE)
        again = {k: v for k, v in read(droot).items() if not k.endswith(b".copia-tmp")}
        wrong = sorted(repr(q) for q in src if again.get(q) != src[q])
        if r1.returncode == 0 and [q for q in src if after.get(q) != src[q]]:
            res["violations"].append(("exit-0-but-planned-file-not-delivered", f"the slowed run exited 0 but {[repr(q) for q in src if after.get(q) != src[q]][:4]} do not hold the source's bytes", rep))
        if r2.returncode != 0 or wrong:
            res["violations"].append(("rerun-does-not-complete", f"the same command again: rc {r2.returncode}, destination differs from the source at {wrong[:4]}", dict(rep, rerun_stderr=r2.stderr.decode('utf-8', 'replace')[-300:])))
    return 1


def delete_rerun_scenario(rng, res, count):
    """C09, second sentence: `sync -r --delete --jobs 4`, killed right before the rename of one file (its staging file is left
    behind and — not being filtered from the destination listing — is a planned delete of the next run). The same command again,
    with every `rename` held back for 0.3 s: it must complete and reach the uninterrupted result (seed C09-K: deletes run on the
    transfer pool, the leftover's delete unlinks the staging file the re-run is filling, the rename fails)."""
    for direction in ("local", "pull"):
        src = {"a.bin": mk(rng, 400_000), "b.txt": b"small new\n", "c/d.txt": b"nested new\n", "same.txt": b"unchanged"}
        dst = {"a.bin": mk(rng, 300_000), "b.txt": b"small old version\n", "same.txt": b"unchanged", "stale-1.txt": b"stale", "stale-2.txt": b"stale too"}
        with Sandbox("C09") as sb:
            T, W = sb.path("T"), sb.path("W")
            whome = os.path.join(W, "home"); os.makedirs(whome)
            sb.env["HOME"] = whome; sb.env["SSH_STUB_HOME"] = whome
            if direction == "local":
                sroot, droot = os.path.join(W, "src"), os.path.join(W, "dst"); sarg, darg = sroot, droot
            else:
                sroot, droot = os.path.join(whome, "rsrc"), os.path.join(W, "dst"); sarg, darg = f"{HOST}:rsrc", droot
            smt = {k: 1_650_000_000 + i for i, k in enumerate(sorted(src))}
            dmt = {k: (smt[k] if k in src and dst[k] == src[k] else 1_500_000_000) for k in dst}
            write_tree(sroot, src, smt); write_tree(droot, dst, dmt)
            shutil.copytree(W, T, symlinks=True)
            cmd = [CLI_BIN, "sync", "-r", sarg, darg, "--jobs", "4", "--delete"]
            r = subprocess.run(cmd, env=sb.env, cwd=sb.dir, stdout=subprocess.PIPE, stderr=subprocess.PIPE)
            fin = read_tree(droot)
            if r.returncode != 0:
                res["broken"].append(f"C09/delete-rerun reference run failed rc={r.returncode}"); continue
            for victim in ("a.bin", "b.txt"):
                shutil.rmtree(W, ignore_errors=True); shutil.copytree(T, W, symlinks=True)
                vp = os.path.join(droot, victim)
                kr = subprocess.run(["strace", "-f", "-b", "execve", "-qq", "-o", "/dev/null", "-P", vp, "-P", vp + ".copia-tmp", "-e", "trace=rename",
                                     "-e", "inject=rename:signal=SIGKILL:when=1"] + cmd, env=sb.env, cwd=sb.dir, stdout=subprocess.PIPE, stderr=subprocess.PIPE)
                left = [p for p in read_tree(droot) if p.endswith(".copia-tmp")]
                rr = subprocess.run(["strace", "-f", "-b", "execve", "-qq", "-o", "/dev/null", "-e", "trace=rename", "-e", "inject=rename:delay_enter=300000"] + cmd,
                                    env=sb.env, cwd=sb.dir, stdout=subprocess.PIPE, stderr=subprocess.PIPE)
                again = read_tree(droot)
                count(f"delete-rerun/{direction}")
                rep = {"direction": direction, "flags": ["--jobs", "4", "--delete"], "killed_before": f"rename of {victim}", "kill_rc": kr.returncode, "staging_left_by_the_kill": left,
                       "rerun": "same command, every rename entered 0.3 s late", "rerun_rc": rr.returncode, "rerun_stderr": rr.stderr.decode("utf-8", "replace")[-300:]}
                if rr.returncode != 0 or nonstaging(again) != nonstaging(fin):
                    diff = sorted(p for p in set(again) | set(fin) if again.get(p) != fin.get(p) and not p.endswith(".copia-tmp"))
                    res["violations"].append(("rerun-does-not-reach-uninterrupted-result", f"the same command after the crash: rc={rr.returncode}, differs at {diff[:4]}", rep))


def run(pid, tier, seed, rundir, model_run):
    rng = Rng(seed ^ 0xC09)
    res = {"violations": [], "broken": [], "notes": [], "distribution": {}, "samples": []}
    dist = res["distribution"]

    def count(k, c=1):
        dist[k] = dist.get(k, 0) + c

    nk = 0
    configs = [("local", ["--jobs", "1"]), ("local", ["--jobs", "4", "--delete"]), ("push", ["--jobs", "1"]), ("push", ["--jobs", "4", "--delete"]),
               ("pull", ["--jobs", "1"]), ("pull", ["--jobs", "4", "--delete"])]
    if tier != "thorough":
        configs = [configs[0], configs[3], configs[4]]
    # one more push --delete run whose DELETE LIST is long (several pipe writes): a sender killed between two list writes leaves
    # the remote `xargs … rm` with a list cut in the middle of a name — no prefix of a stale name may be taken for a path.
    # What the remote xargs is handed is recorded by a stand-in (tools/xargslog/xargs): every item must be a planned name.
    configs = configs + [("push-longlist", ["--jobs", "1", "--delete"])]
    # and one push of a file whose destination version has EXACTLY the source's length, one job, killed before every write of the
    # stream: whatever the orphaned remote command does with a rejected upload (clean-up, stamping), the old file must stay
    # recognisably old — the same command run again has to deliver the new bytes
    configs = configs + [("push-samelen", ["--jobs", "1"])]
    for direction, flags in configs:
        src, dst = scenario_trees(rng)
        longlist = direction == "push-longlist"
        if direction == "push-samelen":
            cut_stream_scenario(rng, res, count)
            delete_rerun_scenario(rng, res, count)
            nk += busy_destination_scenario(rng, res, count)
            nk += dir_to_file_scenario(rng, res, count)
            nk += lossy_sibling_names_scenario(rng, res, count)
            continue
        if longlist:
            direction = "push"
            src = {"small.txt": b"small new\n", "keep/k.txt": b"kept"}; dst = {"small.txt": b"small old version\n", "keep/k.txt": b"kept"}
            for i in range(1150):          # > 64 KiB of names: more than one pipe-full
                dst[f"stale/s{i:04d}-" + "a" * 52] = b"x"
        with Sandbox("C09") as sb:
            T, W = sb.path("T"), sb.path("W")
            whome = os.path.join(W, "home")
            os.makedirs(whome)
            sb.env["HOME"] = whome; sb.env["SSH_STUB_HOME"] = whome
            xlog = sb.path("xargs-log"); os.makedirs(xlog, exist_ok=True)
            sb.env["XARGS_LOG_DIR"] = xlog
            sb.env["PATH"] = os.path.join(os.path.dirname(os.path.abspath(__file__)), "xargslog") + ":" + sb.env["PATH"]
            if direction == "local":
                sroot, droot = os.path.join(W, "src"), os.path.join(W, "dst"); sarg, darg = sroot, droot
            elif direction == "push":
                sroot, droot = os.path.join(W, "src"), os.path.join(whome, "rdst"); sarg, darg = sroot, f"{HOST}:rdst"
            else:
                sroot, droot = os.path.join(whome, "rsrc"), os.path.join(W, "dst"); sarg, darg = f"{HOST}:rsrc", droot
            smt = {k: 1_650_000_000 + i for i, k in enumerate(sorted(src))}
            dmt = {k: 1_500_000_000 for k in dst}
            for k in dst:
                if k in src and dst[k] == src[k]:
                    dmt[k] = smt[k]            # unchanged files: same size and mtime, outside the plan
            write_tree(sroot, src, smt); write_tree(droot, dst, dmt)
            shutil.copytree(W, T, symlinks=True)

            def restore():
                shutil.rmtree(W, ignore_errors=True); shutil.copytree(T, W, symlinks=True)
            cmd = [CLI_BIN, "sync", "-r", sarg, darg] + flags
            log = sb.path("ref.log")
            r = subprocess.run(["strace", "-f", "-b", "execve", "-qq", "-e", "trace=" + ",".join(SYSCALLS), "-o", log] + cmd, env=sb.env, cwd=sb.dir,
                               stdout=subprocess.PIPE, stderr=subprocess.PIPE)
            fin = read_tree(droot)
            if r.returncode != 0:
                res["broken"].append(f"C09/reference run {direction} {flags} failed rc={r.returncode}: {r.stderr.decode('utf-8', 'replace')[-200:]}")
                continue
            per = {}
            for ln in open(log, errors="replace"):
                m = re.match(r"^(\d+)\s+(\w+)\(", ln)
                if m:
                    per.setdefault(m.group(2), {}).setdefault(m.group(1), 0)
                    per[m.group(2)][m.group(1)] += 1
            maxc = {sc: max(v.values()) for sc, v in per.items()}
            transferred = {p for p in fin if fin.get(p) != dst.get(p)}
            deleted = {p for p in dst if p not in fin}
            if len(res["samples"]) < 6:
                res["samples"].append({"direction": direction, "flags": flags, "per-thread max calls": maxc, "transferred": sorted(transferred), "deleted": sorted(deleted)})
            for sc, mx in sorted(maxc.items()):
                if longlist and sc != "write":
                    continue                    # this scenario is about the writes that feed the remote commands
                # openat is dominated by runtime start-up (shared libraries): sample it, sweep the rest completely
                js = list(range(1, mx + 1))
                if sc == "openat" and tier != "thorough":
                    js = js[::3]
                for j in js:
                    restore()
                    for fn in os.listdir(xlog):
                        os.remove(os.path.join(xlog, fn))
                    kr = subprocess.run(["strace", "-f", "-b", "execve", "-qq", "-o", "/dev/null", "-e", f"trace={sc}", "-e", f"inject={sc}:signal=SIGKILL:when={j}"] + cmd,
                                        env=sb.env, cwd=sb.dir, stdout=subprocess.PIPE, stderr=subprocess.PIPE)
                    nk += 1
                    count(f"{direction}/{sc}")
                    # let the orphaned "remote" command (cat > tmp && … && mv) run to completion
                    time.sleep(0.05 if direction != "push" else 0.25)
                    after = read_tree(droot)
                    rep = {"direction": direction, "flags": flags, "killed_before": f"{sc} #{j} (per thread)", "rc": kr.returncode}
                    if direction == "push":
                        rroot = os.path.relpath(droot, whome)
                        ok_rm = {f"{rroot}/{p}".encode() for p in dst if p not in src}
                        ok_dirs = {rroot.encode()} | {f"{rroot}/{os.path.dirname(p)}".encode() for p in src if os.path.dirname(p)}
                        ok_dirs |= {d_.rsplit(b"/", k_)[0] for d_ in list(ok_dirs) for k_ in range(1, d_.count(b"/") + 1)}
                        for fn in sorted(os.listdir(xlog)):
                            if not fn.endswith(".args"):
                                continue
                            args_ = open(os.path.join(xlog, fn)).read().strip()
                            try:
                                raw = open(os.path.join(xlog, fn[:-5] + ".stdin"), "rb").read()
                            except OSError:
                                continue
                            items = [x for x in raw.split(b"\0") if x]
                            allowed_ = ok_rm if " rm " in f" {args_} " else ok_dirs
                            bad = [x for x in items if x not in allowed_]
                            if bad:
                                res["violations"].append(("remote-command-ran-on-a-name-outside-the-plan", f"the remote `xargs {args_}` was handed {len(items)} names of which {bad[:2]!r} {'is' if len(bad) == 1 else 'are'} not in the plan (a list cut in the middle of a name)", rep))
                                break
                        for fn in os.listdir(xlog):
                            os.remove(os.path.join(xlog, fn))
                    for p, c in nonstaging(after).items():
                        if c != dst.get(p) and c != src.get(p):
                            key = "truncated-or-mixed-file-at-live-path"
                            res["violations"].append((key, f"after the kill, destination {p} holds {len(c)} bytes that are neither its old bytes nor the complete source file ({len(src.get(p, b''))} bytes)", rep))
                    for p in dst:
                        if p not in after and p not in deleted and not (p in src and False):
                            if p in src:
                                res["violations"].append(("destination-file-missing-after-kill", f"after the kill, destination {p} is missing (it existed before and exists after an uninterrupted run)", rep))
                            else:
                                res["violations"].append(("file-outside-plan-removed", f"{p} is not in the plan but is gone after the kill", rep))
                    # with --delete the two files absent from the source ARE in the plan (as deletes)
                    unchanged_ = [p for p in dst if p in src and dst[p] == src[p]]
                    for p in (unchanged_ if "--delete" in flags else ["outside-plan.txt", "stale.txt"] + unchanged_):
                        if after.get(p) != dst.get(p):
                            res["violations"].append(("file-outside-plan-changed", f"{p} is outside the plan but changed or vanished", rep))
                            break
                    if read_tree(sroot) != src:
                        res["violations"].append(("source-modified", "the source tree changed", rep))
                    # re-run: must complete and give the uninterrupted result
                    rr = subprocess.run(cmd, env=sb.env, cwd=sb.dir, stdout=subprocess.PIPE, stderr=subprocess.PIPE)
                    again = read_tree(droot)
                    if rr.returncode != 0 or nonstaging(again) != nonstaging(fin):
                        diff = sorted(p for p in set(again) | set(fin) if again.get(p) != fin.get(p) and not p.endswith(".copia-tmp"))
                        res["violations"].append(("rerun-does-not-reach-uninterrupted-result", f"the same command after the crash: rc={rr.returncode}, differs at {diff[:4]}; {rr.stderr.decode('utf-8', 'replace')[-200:]}", rep))
            # per delivered file: kill before the 1st, 2nd, 3rd call of each kind ON THAT FILE or its staging sibling (`strace -P`
            # counts only calls on the given paths, so a write made by a pool thread is reached whatever the main thread prints
            # meanwhile). A NEW file that is created at its real name and filled afterwards (seed C09-J) is empty here.
            if direction in ("local", "pull") and not longlist:
                for p in sorted(transferred):
                    tpaths = [os.path.join(droot, p), os.path.join(droot, p) + ".copia-tmp"]
                    for sc in ("openat", "write", "pwrite64", "copy_file_range", "sendfile", "rename", "ftruncate", "fchmod", "utimensat", "fsync", "link", "linkat", "unlink", "unlinkat"):
                        for j in (1, 2, 3):
                            restore()
                            kr = subprocess.run(["strace", "-f", "-b", "execve", "-qq", "-o", "/dev/null", "-P", tpaths[0], "-P", tpaths[1], "-e", f"trace={sc}",
                                                 "-e", f"inject={sc}:signal=SIGKILL:when={j}"] + cmd, env=sb.env, cwd=sb.dir, stdout=subprocess.PIPE, stderr=subprocess.PIPE)
                            if kr.returncode == 0:
                                break                   # fewer than j such calls on this file
                            nk += 1
                            count(f"{direction}/per-file/{sc}")
                            time.sleep(0.05)
                            after = read_tree(droot)
                            rep = {"direction": direction, "flags": flags, "killed_before": f"{sc} #{j} on {p} or its staging sibling", "rc": kr.returncode}
                            for q, c in nonstaging(after).items():
                                if c != dst.get(q) and c != src.get(q):
                                    res["violations"].append(("truncated-or-mixed-file-at-live-path", f"after the kill, destination {q} holds {len(c)} bytes that are neither its old bytes nor the complete source file ({len(src.get(q, b''))} bytes)", rep))
                            for q in dst:
                                if q not in after and q not in deleted:
                                    res["violations"].append(("destination-file-missing-after-kill", f"after the kill, destination {q} is missing", rep))
                            try:
                                nl = os.stat(os.path.join(droot, p)).st_nlink
                            except OSError:
                                nl = 1
                            if nl > 1:
                                # a live path that is one inode with its staging sibling: the next delivery, which truncates and
                                # refills the staging NAME, rewrites the live file in place (seed C09-L: publish by link + unlink)
                                res["violations"].append(("live-path-shares-inode-with-staging", f"after the kill, destination {p} has link count {nl}: it is the same file as a staging name, so the next run's staging write goes straight into the live path", rep))
                            rr = subprocess.run(cmd, env=sb.env, cwd=sb.dir, stdout=subprocess.PIPE, stderr=subprocess.PIPE)
                            again = read_tree(droot)
                            if rr.returncode != 0 or nonstaging(again) != nonstaging(fin):
                                diff = sorted(q for q in set(again) | set(fin) if again.get(q) != fin.get(q) and not q.endswith(".copia-tmp"))
                                res["violations"].append(("rerun-does-not-reach-uninterrupted-result", f"the same command after the crash: rc={rr.returncode}, differs at {diff[:4]}", rep))
    # the Lean side of C09 has no per-run query: the model is the micro-step delivery (see Props/C09.lean)
    open(os.path.join(rundir, "ops.txt"), "w").close()
    res.update(evaluations=nk, distinct_nontrivial=nk, n_disagreements=0, n_oracle_failures=len(res["violations"]), traces_validated=0,
               rule="destination with older versions (incl. a 650 kB file replaced by a 700 kB one = several 256 KiB chunks), an unchanged file, a file outside the plan and a stale file; "
                    "directions local / push / pull (SSH stand-in), --jobs 1 and 4, --delete; for every syscall in {write, copy_file_range, openat, rename, unlink, utimensat, …} and every j up to the "
                    "largest per-thread count of the reference run, copia is SIGKILLed before its j-th such call (strace -f -b execve: the remote command survives and completes). Distinct = kill points.")
    return res
