#!/usr/bin/env python3
"""stdin → child stdin relay that pauses after the hub-sync client's List request.

Forwards MAGIC (6 bytes) and the first two frames (Hello, List) at once; when the first byte of the
third request arrives it creates $RELAY_DIR/ready and holds everything until $RELAY_DIR/go exists.
The child's stdout is inherited (hub → client flows freely). All reads are raw `os.read` on fd 0
(no read-ahead buffering, so nothing is swallowed)."""
import os, select, struct, subprocess, sys, time

d = os.environ.get("RELAY_DIR", "/nonexistent")
child = subprocess.Popen(sys.argv[1:], stdin=subprocess.PIPE)


def rd(n):
    b = b""
    while len(b) < n:
        c = os.read(0, n - len(b))
        if not c:
            return b
        b += c
    return b


def fwd(b):
    child.stdin.write(b); child.stdin.flush()


try:
    fwd(rd(6))
    for _ in range(2):
        h = rd(4)
        if len(h) < 4:
            fwd(h); raise EOFError
        fwd(h + rd(struct.unpack(">I", h)[0]))
    first = rd(1)
    if first:
        open(os.path.join(d, "ready"), "w").close()
        t0 = time.time()
        while not os.path.exists(os.path.join(d, "go")) and time.time() - t0 < 20:
            time.sleep(0.01)
        fwd(first)
        while True:
            # the client keeps its end open while it waits for us (hub-sync's bye() waits for the child before
            # dropping its pipe), so also stop when the hub process has exited
            r, _, _ = select.select([0], [], [], 0.05)
            if r:
                c = os.read(0, 65536)
                if not c:
                    break
                fwd(c)
            elif child.poll() is not None:
                break
except (EOFError, BrokenPipeError, OSError):
    pass
try:
    child.stdin.close()
except Exception:
    pass
sys.exit(child.wait())
