"""C03 / C10 — N real `copia serve` processes on one root, schedules controlled from the client side.

Each client has its own server process. A schedule is an interleaving of the clients' *pieces*: a
request frame, and (for a Put) its content cut into 1–3 pieces, so another client's whole request can
run while a Put is half-streamed (staging happens outside the commit lock).  After EVERY scheduling
step the hub tree is read and the C10 predicate evaluated; at the end the replies and the final tree
must equal those of SOME one-at-a-time execution that respects real-time order — decided by running
every candidate order through the sequential Lean hub model (`serve`), i.e. a linearizability check
against the model.  C10 adds kills of a server at a random step and Puts with wrong hash / short content.
"""
import itertools, os, re, select, shutil, signal, struct, subprocess, time
from bbox import Sandbox, Rng, blake3_hex, hexs, CLI_BIN
import bb_hub as H
import bb_gate as G

PATHS = ["f", "g", "d/h"]
CONTENTS = [b"alpha " * 200, b"BETA" * 4000, b"gamma\n", b"", b"delta" * 9000, b"e", b"zero-tailed" + b"\x00" * (262144 * 2 - 11)]


class Server:
    def __init__(self, sb, root):
        env = dict(sb.env)
        if getattr(sb, "rust_log", None):
            env["RUST_LOG"] = sb.rust_log      # the hub account's logging configuration: never the client's business
        self.p = subprocess.Popen([CLI_BIN, "serve", root], stdin=subprocess.PIPE, stdout=subprocess.PIPE, stderr=subprocess.PIPE, env=env, cwd=sb.dir)
        self.buf = b""

    def send(self, b):
        try:
            self.p.stdin.write(b); self.p.stdin.flush()
            return True
        except (BrokenPipeError, OSError):
            return False

    def read_exact(self, n, timeout=8.0):
        end = time.time() + timeout
        while len(self.buf) < n:
            r, _, _ = select.select([self.p.stdout], [], [], max(0.0, end - time.time()))
            if not r:
                return None
            chunk = os.read(self.p.stdout.fileno(), 65536)
            if not chunk:
                return None
            self.buf += chunk
        out, self.buf = self.buf[:n], self.buf[n:]
        return out

    def read_reply(self):
        hd = self.read_exact(4)
        if hd is None:
            return None
        n = struct.unpack(">I", hd)[0]
        body = self.read_exact(n)
        if body is None:
            return None
        v, _ = H.cdec(body)
        content = None
        if isinstance(v, dict) and "Content" in v:
            content = self.read_exact(v["Content"]["len"])
            if content is None:
                return "content:SHORT"
        return H.reply_tok(v, content)

    def kill(self):
        try:
            self.p.kill()
        except Exception:
            pass

    def close(self):
        try:
            self.p.stdin.close()
        except Exception:
            pass
        try:
            self.p.wait(timeout=5)
        except Exception:
            self.p.kill()


def parse_replies(b):
    """reply tokens from a server's whole stdout"""
    out, i = [], 0
    while i + 4 <= len(b):
        n = struct.unpack(">I", b[i:i + 4])[0]
        body = b[i + 4:i + 4 + n]
        if len(body) < n:
            out.append("reply:SHORT"); break
        i += 4 + n
        v, _ = H.cdec(body)
        content = None
        if isinstance(v, dict) and "Content" in v:
            ln = v["Content"]["len"]
            content = b[i:i + ln]
            if len(content) < ln:
                out.append("content:SHORT"); break
            i += ln
        out.append(H.reply_tok(v, content))
    return out


def gen_ops(rng, tree, pid, path=None):
    ops = []
    for _ in range(rng.range(1, 2)):
        p = path or rng.pick(PATHS)
        if path is None and rng.coin(1, 8):
            # a path that is exactly the conflict-copy name some Put of this run may be landed on (D13): what a client
            # commits there is committed content like any other and must not be replaced by a conflict copy
            p = f"{rng.pick(PATHS)}.conflict-{blake3_hex([rng.pick(CONTENTS)])[0][:12]}"
        key = p                  # the hub file the request names (normalised), for the bookkeeping of this harness
        if path is None and rng.coin(1, 14):
            # the commit lock (or anything else in the control directory) under a spelling of the client's choosing: always refused —
            # a client that can unlink or replace the lock file takes the lock away from under running servers (seed C03-K)
            p = rng.pick(["./.copia/commit.lock", ".copia/commit.lock", ".//.copia/commit.lock", "./././.copia/x", ".copia//commit.lock"])
            key = p
        elif rng.coin(1, 6):
            # another spelling of the same hub file (`./f`, `d//h`, `d/./h`) on the wire: compare-and-swap is per FILE, not per spelling
            p = rng.pick(["./" + p, p.replace("/", "//"), p.replace("/", "/./"), "./" + p.replace("/", "//")])
        r = rng.below(10)
        cur = tree.get(key)
        curh = bytes.fromhex(blake3_hex([cur])[0]) if cur is not None else None
        if r < 6:
            c = rng.pick(CONTENTS)
            h = bytes.fromhex(blake3_hex([c])[0])
            exp = curh if rng.coin(3, 4) else (None if rng.coin(1, 2) else bytes(rng.bytes(32)))
            variant = "ok"
            if pid == "C10" and rng.coin(1, 5):
                variant = "wronghash"
                h = bytes(rng.bytes(32))
            npieces = rng.range(1, 3) if len(c) > 2 else 1
            cuts = sorted(rng.below(len(c) + 1) for _ in range(npieces - 1))
            pieces, prev = [], 0
            for x in cuts + [len(c)]:
                pieces.append(c[prev:x]); prev = x
            pieces[0] = H.frame(H.req_put(p, exp, len(c), h)) + pieces[0]
            ops.append({"kind": "put", "path": key, "wire": p, "content": c, "variant": variant, "pieces": pieces, "exp": exp, "hash": h,
                        "bytes": H.frame(H.req_put(p, exp, len(c), h)) + c, "desc": f"put {p} {len(c)}B exp={'cur' if exp == curh else ('none' if exp is None else 'stale')} {variant} in {len(pieces)} piece(s)"})
        elif r < 8:
            exp = curh if rng.coin(2, 3) else (None if rng.coin(1, 2) else bytes(rng.bytes(32)))
            b = H.frame(H.req_delete(p, exp))
            ops.append({"kind": "delete", "path": key, "wire": p, "pieces": [b], "bytes": b, "exp": exp, "desc": f"delete {p} exp={'cur' if exp == curh else ('none' if exp is None else 'stale')}"})
        else:
            b = H.frame(H.req_get(p))
            ops.append({"kind": "get", "path": key, "wire": p, "pieces": [b], "bytes": b, "desc": f"get {p}"})
    return ops


def nonstaging(t):
    return {k: v for k, v in t.items() if not k.endswith(".copia-tmp")}


class HashCodes:
    """hashes as small numbers for the `hubcalls` query: 0 = BLAKE3 of the empty content"""
    def __init__(self):
        self.codes = {bytes.fromhex(blake3_hex([b""])[0]): 0}

    def of(self, h):
        if h is None:
            return "-"
        h = bytes(h)
        if h not in self.codes:
            self.codes[h] = len(self.codes)
        return str(self.codes[h])


def solo_conformance(op, pr, pre_tree, rep):
    """(model query or None, normalised real call tokens, python-side expectation or None, report)"""
    key = op["path"]
    p = op.get("wire", key)          # the server joins the path as spelled on the wire
    pid = pr.p.pid
    tmp = f"{p}.{pid}.copia-tmp"
    toks = []
    ancestors = {"/".join(p.split("/")[:k]) for k in range(1, len(p.split("/")))}
    for call in pr.trace:
        if call.startswith("opendir "):
            continue                      # a directory opened for listing (List's walk): a scheduling point, not a step of Put / Delete / Get
        if call.startswith("stat ") and call[5:] in ancestors:
            continue                      # create_dir_all probing an existing parent directory: read-only, not a step of the model
        if call == f"open {tmp} CTW":
            t = "create"
        elif call.startswith(f"write {tmp} "):
            t = "write"
        elif call == "open .copia/commit.lock CW":
            t = "openlock"
        elif call == "lock .copia/commit.lock":
            t = "lock"
        elif call in (f"stat {p}", f"open {p} R"):
            t = "read"
        elif call == f"rename {tmp} -> {p}":
            t = "commit"
        elif op["kind"] == "put" and re.fullmatch(re.escape(f"rename {tmp} -> {p}.conflict-{bytes(op['hash']).hex()[:12]}") + r"(-\d+)?", call):
            t = "conflict"
        elif op["kind"] == "put" and (call.startswith(f"stat {p}.conflict-") or (call.startswith(f"open {p}.conflict-") and call.endswith(" R"))):
            continue          # probing candidate conflict-copy names (free, or already these bytes?) under the lock: reads only
        elif call == f"unlink {tmp}":
            t = "discard"
        elif call == f"unlink {p}":
            t = "remove"
        elif call == "unlock .copia/commit.lock":
            t = "unlock"
        else:
            t = "?" + call.replace(" ", "_").replace(str(pid), "<pid>")
        if toks and toks[-1] == t and t in ("write", "read"):
            continue
        if toks and toks[-1] == "openlock" and t == "lock":
            toks[-1] = "lock"
            continue
        toks.append(t)
    real = ",".join(toks) if toks else "-"
    comps = [c for c in p.split("/") if c not in ("", ".")]
    if p.startswith("/") or ".." in p.split("/") or (comps and comps[0] == ".copia"):
        # a path `safe_join` refuses: the request is answered `bad path` (a Put's content drained) without a single file-system
        # call — it is not a step of the transition system, so there is no model query; the expectation is "no calls"
        return (None, real, "-", dict(rep, request=op["desc"], server_calls=[c.replace(str(pid), "<pid>") for c in pr.trace][:24]))
    hc = HASHCODES
    cur = pre_tree.get(key)
    curh = bytes.fromhex(blake3_hex([cur])[0]) if cur is not None else None
    r = dict(rep, request=op["desc"], server_calls=[c.replace(str(pid), "<pid>") for c in pr.trace][:24])
    if op["kind"] == "put":
        ch = bytes.fromhex(blake3_hex([op["content"]])[0])
        return (f"hubcalls put {hc.of(curh)} {hc.of(op['exp'])} {hc.of(op['hash'])} {hc.of(ch)}", real, None, r)
    if op["kind"] == "delete":
        return (f"hubcalls del {hc.of(curh)} {hc.of(op['exp'])} 0 0", real, None, r)
    # Get: reads of the live path only (it is not a step kind of the transition system)
    return (None, real, real if real in ("-", "read") else "read", r)


HASHCODES = None


def write_error_section(rng, res, count):
    """C10: the hub's file system refuses to take all the bytes of a Put (a file-size limit: every write beyond 64 KiB fails,
    as on a full disk or over quota). Whatever the server then does, every visible path holds initial content or the COMPLETE
    verified bytes of one Put — a write error swallowed on the way (a buffered tail never flushed) must not be committed."""
    for which in ("replace", "create", "both-small-buffers"):
        old = bytes(rng.bytes(90_000)); new = bytes(rng.bytes(100_003)); fresh = bytes(rng.bytes(70_000 if which != "both-small-buffers" else 66_000))
        tree = {"big.bin": old, "keep.txt": b"kept"}
        hn, hf_, ho = (bytes.fromhex(x) for x in blake3_hex([new, fresh, old]))
        stream = H.MAGIC + H.frame(H.req_hello())
        if which != "create":
            stream += H.frame(H.req_put("big.bin", ho, len(new), hn)) + new
        if which != "replace":
            stream += H.frame(H.req_put("fresh.bin", None, len(fresh), hf_)) + fresh
        stream += H.frame(H.req_get("keep.txt")) + H.frame(H.req_bye())
        with Sandbox("C10") as sb:
            root = sb.path("hub"); sb.write_tree(root, tree); os.makedirs(os.path.join(root, ".copia"), exist_ok=True)
            rc, out, err = H.run_server(sb, root, stream, pre_extra="trap '' XFSZ; ulimit -f 64; ")
            after = nonstaging(H.hub_tree(root))
        count("write-error/file-size-limit")
        allowed = {old, new, fresh, b"kept"}
        rep = {"kind": which, "rc": rc, "stderr": err[-300:], "replies": parse_replies(out)[:5], "after": {k: len(v) for k, v in after.items()}}
        for p_, c_ in after.items():
            if c_ not in allowed:
                res["violations"].append(("partial-or-mixed-content-visible", f"with writes failing beyond 64 KiB, hub path {p_} holds {len(c_)} bytes that are neither initial content nor the complete bytes of a Put", rep))
        acked = [t for t in parse_replies(out) if t.startswith("put:1")]
        if acked and (after.get("big.bin") not in (old, new) or (which != "replace" and "put:1" in "".join(acked[-1:]) and after.get("fresh.bin") not in (None, fresh))):
            res["violations"].append(("acknowledged-put-not-stored", "a Put was acknowledged as committed although its bytes are not what the path holds", rep))


def transient_write_error_section(rng, res, count):
    """C10: ONE write of the hub process fails (a disk that was full for a moment: ENOSPC on the k-th `write(2)`, injected with
    strace; the writes before and after it succeed). Whichever write it is — a chunk of the staging file in the middle of an upload,
    with later chunks stored fine — every visible path holds initial content or the COMPLETE verified bytes of one Put, and a Put
    acknowledged as committed is stored in full (seed C10-N: the result of a staging write was assigned, not accumulated, so only
    the last chunk's result decided; the stream's hash still matched and the short file was committed)."""
    import subprocess
    old = bytes(rng.bytes(70_000)); new = bytes(rng.bytes(1_300_000))
    hn, ho = (bytes.fromhex(x) for x in blake3_hex([new, old]))
    for k in range(2, 11):
        tree = {"big.bin": old, "keep.txt": b"kept"}
        stream = (H.MAGIC + H.frame(H.req_hello()) + H.frame(H.req_put("big.bin", ho, len(new), hn)) + new
                  + H.frame(H.req_get("keep.txt")) + H.frame(H.req_bye()))
        with Sandbox("C10") as sb:
            root = sb.path("hub"); sb.write_tree(root, tree); os.makedirs(os.path.join(root, ".copia"), exist_ok=True)
            cmd = ["strace", "-f", "-qq", "-o", "/dev/null", "-e", "trace=write", "-e", f"inject=write:error=ENOSPC:when={k}", CLI_BIN, "serve", root]
            try:
                r = subprocess.run(cmd, input=stream, env=sb.env, cwd=sb.dir, stdout=subprocess.PIPE, stderr=subprocess.PIPE, timeout=60)
                rc, out, err = r.returncode, r.stdout, r.stderr.decode("utf-8", "replace")
            except subprocess.TimeoutExpired as e:
                rc, out, err = "timeout", e.stdout or b"", ""
            after = nonstaging(H.hub_tree(root))
        count("write-error/one-write-fails")
        toks = parse_replies(out)
        rep = {"failing_write": k, "rc": rc, "stderr": err[-300:], "replies": [t[:70] for t in toks[:5]], "after": {p_: len(c_) for p_, c_ in after.items()}}
        for p_, c_ in after.items():
            if c_ not in (old, new, b"kept"):
                res["violations"].append(("partial-or-mixed-content-visible", f"with write #{k} of the hub failing once (ENOSPC), hub path {p_} holds {len(c_)} bytes that are neither initial content nor the complete bytes of the Put", rep))
        if any(t.startswith("put:1") for t in toks) and after.get("big.bin") != new:
            res["violations"].append(("acknowledged-put-not-stored", f"with write #{k} failing once, the Put was acknowledged as committed although big.bin does not hold its bytes", rep))


def other_filesystem_section(rng, res, count):
    """C10 on a hub that spans two file systems: `ROOT/vol` is a symlink to a directory on another file system (/dev/shm). A Put into
    `vol/` is killed before the k-th call of each kind it makes; after every kill the visible path `vol/data.bin` holds its old
    bytes or the complete verified upload — wherever the server stages, a commit is one atomic step on the destination's own file
    system (seed C10-O: staging under `ROOT/.copia/`, and an `fs::copy` straight onto the visible path when the rename reported a
    cross-device error). Skipped (counted) when /dev/shm is not a separate writable file system."""
    import subprocess, tempfile
    if not os.path.isdir("/dev/shm") or not os.access("/dev/shm", os.W_OK) or os.stat("/dev/shm").st_dev == os.stat("/var/tmp").st_dev:
        count("other-filesystem/skipped")
        return
    old = bytes(rng.bytes(50_000)); new = bytes(rng.bytes(300_000))
    hn, ho = (bytes.fromhex(x) for x in blake3_hex([new, old]))
    vol = tempfile.mkdtemp(prefix="copia-vol-", dir="/dev/shm")
    try:
        n = 0
        for sc in ("openat", "write", "rename", "copy_file_range", "sendfile", "fsync", "unlink", "mkdir", "flock"):
            for k in range(1, 40):
                with Sandbox("C10") as sb:
                    root = sb.path("hub"); sb.write_tree(root, {"keep.txt": b"kept"}); os.makedirs(os.path.join(root, ".copia"), exist_ok=True)
                    for fn in os.listdir(vol):
                        os.remove(os.path.join(vol, fn))
                    open(os.path.join(vol, "data.bin"), "wb").write(old)
                    os.symlink(vol, os.path.join(root, "vol"))
                    stream = H.MAGIC + H.frame(H.req_hello()) + H.frame(H.req_put("vol/data.bin", ho, len(new), hn)) + new + H.frame(H.req_bye())
                    cmd = ["strace", "-f", "-qq", "-o", "/dev/null", "-e", f"trace={sc}", "-e", f"inject={sc}:signal=SIGKILL:when={k}", CLI_BIN, "serve", root]
                    try:
                        r = subprocess.run(cmd, input=stream, env=sb.env, cwd=sb.dir, stdout=subprocess.PIPE, stderr=subprocess.PIPE, timeout=60)
                        rc = r.returncode
                    except subprocess.TimeoutExpired:
                        rc = "timeout"
                    got = open(os.path.join(vol, "data.bin"), "rb").read() if os.path.exists(os.path.join(vol, "data.bin")) else None
                if rc == 0:
                    break                         # not killed: fewer than k such calls
                n += 1
                count(f"other-filesystem/killed-before-{sc}")
                if got not in (old, new):
                    res["violations"].append(("partial-or-mixed-content-visible", f"hub subtree on another file system, server killed before {sc} #{k}: vol/data.bin holds {None if got is None else len(got)} bytes that are neither its old content ({len(old)}) nor the complete upload ({len(new)})",
                                              {"kill": f"{sc} #{k}", "rc": rc, "visible_bytes": None if got is None else len(got)}))
        return n
    finally:
        shutil.rmtree(vol, ignore_errors=True)


def lock_window_section(rng, res, count):
    """C03: the window between a server's compare (under the commit lock) and its rename, held open by delaying that server's
    `flock` and `rename` (strace delay injection on server 1 only). f = X. Client 1 sends Put f {expected: None, A} (stale: f
    exists). While server 1 waits to enter flock, client 2's Delete f {expected: h(X)} commits; server 1 then locks, finds f
    absent = its expectation, and waits to enter rename; client 2 sends Put f {expected: None, B}. One-at-a-time semantics allow
    at most ONE of the two creates to be acknowledged as committed (the other meets an existing file); a create that goes
    around the lock (seed C03-J: a lock-free `link`) is acknowledged too, and then overwritten by server 1's rename."""
    for rnd in range(2):
        X, A, B = b"initial version\n", b"create by client 1 " + bytes(rng.bytes(8)).hex().encode(), b"create by client 2 " + bytes(rng.bytes(8)).hex().encode()
        hX, hA, hB = (bytes.fromhex(v) for v in blake3_hex([X, A, B]))
        with Sandbox("C03") as sb:
            root = sb.path("hub"); sb.write_tree(root, {"f": X}); os.makedirs(os.path.join(root, ".copia"), exist_ok=True)
            s1 = Server.__new__(Server)
            s1.p = subprocess.Popen(["strace", "-f", "-qq", "-o", "/dev/null", "-e", "trace=flock,rename,renameat,renameat2",
                                     "-e", "inject=flock:delay_enter=900000:when=1", "-e", "inject=rename,renameat,renameat2:delay_enter=1500000:when=1",
                                     CLI_BIN, "serve", root], stdin=subprocess.PIPE, stdout=subprocess.PIPE, stderr=subprocess.PIPE, env=sb.env, cwd=sb.dir)
            s1.buf = b""
            s2 = Server(sb, root)
            ok = True
            for s_ in (s1, s2):
                s_.send(H.MAGIC + H.frame(H.req_hello()))
                ok = ok and s_.read_reply() == "hello:1"
            if not ok:
                res["broken"].append("C03/lock-window: handshake failed"); s1.p.kill(); s2.p.kill(); continue
            s1.send(H.frame(H.req_put("f", None, len(A), hA)) + A)            # t = 0: staged, then held before flock until 0.9 s
            time.sleep(0.3)
            s2.send(H.frame(H.req_delete("f", hX)))                          # t = 0.3: commits (nobody holds the lock)
            r_del = s2.read_reply()
            time.sleep(max(0.0, 1.3 - 0.3 - 0.05))                           # t ≈ 1.3: server 1 holds the lock, compared, waits before rename
            s2.send(H.frame(H.req_put("f", None, len(B), hB)) + B)
            r1 = s1.read_reply()
            r2 = s2.read_reply()
            for s_ in (s1, s2):
                s_.send(H.frame(H.req_bye()))
            time.sleep(0.1)
            for s_ in (s1, s2):
                try:
                    s_.p.wait(timeout=5)
                except subprocess.TimeoutExpired:
                    s_.p.kill()
            after = nonstaging(H.hub_tree(root))
        count("lock-window")
        rep = {"delete_reply": r_del, "client1_put_reply": r1, "client2_put_reply": r2, "after": {k: v.decode("utf-8", "replace")[:40] for k, v in after.items()}}
        c1, c2 = (r1 or "").startswith("put:1"), (r2 or "").startswith("put:1")
        if c1 and c2:
            res["violations"].append(("two-creates-of-one-path-both-committed", f"f was deleted once; two Puts with expected=None were BOTH acknowledged as committed (final f: {after.get('f', b'<absent>')[:30]!r}) — no one-at-a-time order allows that", rep))
        for who, cc_, committed in (("client 1", A, c1), ("client 2", B, c2)):
            if not any(v == cc_ for v in after.values()) and (r1 if who == "client 1" else r2) and (r1 if who == "client 1" else r2).startswith("put:"):
                res["violations"].append(("acknowledged-content-not-on-hub", f"{who}'s bytes were acknowledged ({'committed' if committed else 'conflict-copy'}) but are nowhere on the hub", rep))


def refused_put_below_file_section(rng, res, count):
    """C10: "a write whose streamed bytes do not match its declared hash or length changes no such path" — also when the Put's path
    lies BELOW a path that is a regular file on the hub (the client turned `notes` into a directory). Whatever the hub does about
    the clash, a Put it then refuses (wrong hash; fewer bytes than announced) leaves every listed path as it was (seed C10-L:
    the file was moved aside to make room for the directory BEFORE the upload was verified)."""
    for variant in ("wrong-hash", "short-content", "wrong-hash-deeper"):
        c = b"upload that will be refused " + bytes(rng.bytes(6)).hex().encode()
        h = bytes.fromhex(blake3_hex([c])[0])
        tree = {"notes": b"a regular file named notes\n", "other.txt": b"other\n"}
        path = "notes/x" if variant != "wrong-hash-deeper" else "notes/a/b/x"
        if variant == "short-content":
            stream = H.MAGIC + H.frame(H.req_hello()) + H.frame(H.req_put(path, None, len(c) + 50, h)) + c
        else:
            stream = H.MAGIC + H.frame(H.req_hello()) + H.frame(H.req_put(path, None, len(c), bytes(rng.bytes(32)))) + c + H.frame(H.req_list()) + H.frame(H.req_bye())
        with Sandbox("C10") as sb:
            root = sb.path("hub"); sb.write_tree(root, tree); os.makedirs(os.path.join(root, ".copia"), exist_ok=True)
            rc, out, err = H.run_server(sb, root, stream)
            after = nonstaging(H.hub_tree(root))
        count("refused-put-below-a-file/" + variant)
        rep = {"variant": variant, "put_path": path, "rc": rc, "replies": parse_replies(out), "before": sorted(tree), "after": sorted(after), "stderr": err[-200:]}
        if after != tree:
            res["violations"].append(("refused-put-changed-a-listed-path", f"a Put to {path} that the hub did not commit ({variant}) changed the listed paths: {sorted(tree)} -> {sorted(after)}", rep))


def hasher_scope_section(rng, res, count):
    """C10: a Put is verified against the hash of ITS OWN bytes, whatever the session consumed before. One session: a request
    whose content X the hub reads without committing it (a refused path — the content is drained —, a wrong-hash Put), then a Put
    that streams Y and declares BLAKE3(X ++ Y): that is a wrong hash and must be refused (seed C10-J: a hasher kept per session
    still held the drained bytes). Also Y declared as BLAKE3(Y ++ X) and BLAKE3(X), and the honest Put right after."""
    for pred in ("refused-path", "wrong-hash", "refused-then-get"):
        for xi, X in enumerate((b"x", b"drained content of a refused request\n", bytes(rng.bytes(70_000)))):
            Y = b"the bytes actually streamed " + bytes(rng.bytes(40))
            hx, hy, hxy, hyx = (bytes.fromhex(v) for v in blake3_hex([X, Y, X + Y, Y + X]))
            stream = H.MAGIC + H.frame(H.req_hello())
            if pred == "wrong-hash":
                stream += H.frame(H.req_put("g", None, len(X), hy)) + X
            else:
                stream += H.frame(H.req_put("../outside", None, len(X), hx)) + X
            if pred == "refused-then-get":
                stream += H.frame(H.req_get("keep.txt"))
            lies = [("f1", hxy, "BLAKE3(previous ++ own)"), ("f2", hyx, "BLAKE3(own ++ previous)"), ("f3", hx, "BLAKE3(previous)")]
            for nm, hh, _ in lies:
                stream += H.frame(H.req_put(nm, None, len(Y), hh)) + Y
            stream += H.frame(H.req_put("honest", None, len(Y), hy)) + Y + H.frame(H.req_bye())
            with Sandbox("C10") as sb:
                root = sb.path("hub"); sb.write_tree(root, {"keep.txt": b"kept"}); os.makedirs(os.path.join(root, ".copia"), exist_ok=True)
                rc, out, err = H.run_server(sb, root, stream)
                after = nonstaging(H.hub_tree(root))
            count("hasher-scope/" + pred)
            toks = parse_replies(out)
            rep = {"predecessor": pred, "previous_content_bytes": len(X), "rc": rc, "replies": toks, "after": sorted(after), "stderr": err[-200:]}
            for nm, hh, what in lies:
                if nm in after:
                    res["violations"].append(("unverified-bytes-committed", f"hub path {nm} holds bytes that do not hash to the declared hash ({what}); replies {toks}", rep))
            if any(t.startswith("put:1") for t in toks[-4:-1]):
                res["violations"].append(("wrong-hash-put-acknowledged", f"a Put whose bytes do not hash to its declared hash was acknowledged as committed; replies {toks}", rep))
            if after.get("honest") != Y:
                res["violations"].append(("honest-put-after-rejected-ones-not-stored", f"the honest Put that follows was not committed (replies {toks})", rep))


def run(pid, tier, seed, rundir, model_run):
    rng = Rng(seed ^ (0xC03 if pid == "C03" else 0xC10))
    res = {"violations": [], "broken": [], "notes": [], "distribution": {}, "samples": []}
    dist = res["distribution"]

    def count(k, c=1):
        dist[k] = dist.get(k, 0) + c

    if pid == "C03":
        lock_window_section(rng, res, count)
    if pid == "C10":
        write_error_section(rng, res, count)
        transient_write_error_section(rng, res, count)
        other_filesystem_section(rng, res, count)
        hasher_scope_section(rng, res, count)
        refused_put_below_file_section(rng, res, count)
    ncases = 70 * (12 if tier == "thorough" else 1)
    global HASHCODES
    HASHCODES = HashCodes()
    solo_traces = []
    dec = H.ReqDecoder()
    all_queries, case_info = [], []
    steps_checked = 0
    def finish_case(tree, clients, opres, final, leftovers, rep):
        # ---- linearizability against the sequential model
        done = [(k, v) for k, v in opres.items() if v["reply"] is not None]
        maybe = [(k, v) for k, v in opres.items() if v["reply"] is None and v.get("killed")]
        keys = [k for k, _ in done]
        cands = []
        for r_ in range(len(maybe) + 1):
            for extra in itertools.combinations([k for k, _ in maybe], r_):
                ks = keys + list(extra)
                for perm in itertools.permutations(ks):
                    okrt = True
                    pos = {k: i for i, k in enumerate(perm)}
                    for a in ks:
                        for b in ks:
                            ea = opres[a]["end"]
                            if a != b and ea is not None and ea < opres[b]["start"] and pos[a] > pos[b]:
                                okrt = False
                    # program order per client
                    for a in ks:
                        for b in ks:
                            if a[0] == b[0] and a[1] < b[1] and pos[a] > pos[b]:
                                okrt = False
                    if okrt:
                        cands.append(perm)
                if len(cands) > 400:
                    break
        hl_inputs = set(tree.values()) | set(final.values()) | {op["content"] for cl in clients for op in cl if op["kind"] == "put"}
        hl = sorted(hl_inputs)
        ht = dict(zip(hl, blake3_hex(hl)))
        qs = []
        for perm in cands:
            stream = H.MAGIC + b"".join(clients[c][oi]["bytes"] for (c, oi) in perm)
            table, _ = H.walk_stream(stream, dec)
            qs.append("serve {} {} {} {}".format(hexs(stream), ",".join(f"{hexs(b)}={t}" for b, t in table.items()) or "-",
                                                ",".join(f"{hexs(c_)}={h_}" for c_, h_ in ht.items()) or "-", H.tree_tok_bytes(tree)))
        observed = {k: v["reply"] for k, v in done}
        versions = {p_: {ht[c_]} for p_, c_ in tree.items()}
        for cl in clients:
            for op in cl:
                if op["kind"] == "put" and op.get("variant") == "ok":
                    versions.setdefault(op["path"], {None}).add(ht[op["content"]])
                elif op["kind"] == "delete":
                    versions.setdefault(op["path"], {None}).add(None)
        case_info.append({"first": len(all_queries), "n": len(qs), "perms": cands, "observed": observed, "versions": versions, "final": H.tree_tok_hash(final), "rep": rep, "leftovers": leftovers,
                          "acked": [(k, clients[k[0]][k[1]]) for k, v in done if v["reply"] and v["reply"].startswith("put:1:")]})
        all_queries.extend(qs)

    def mkput(p_, exp, c_):
        h_ = bytes.fromhex(blake3_hex([c_])[0])
        b_ = H.frame(H.req_put(p_, exp, len(c_), h_)) + c_
        return {"kind": "put", "path": p_, "wire": p_, "content": c_, "variant": "ok", "pieces": [b_], "exp": exp, "hash": h_, "bytes": b_, "desc": f"put {p_} {len(c_)}B corpus in 1 piece(s)"}

    def corpus_cases():
        # (seed C03-I) f = v1; a stale writer S lands at f.conflict-<S>; a third client commits DIFFERENT content of the SAME LENGTH
        # at that very name (a repaired copy pushed back with a correct CAS); the stale writer retries: its bytes must go to the
        # next free name, the acknowledged commit at the conflict name stays
        v1, v2, stale, fixed = b"version-1\n", b"version-2\n", b"flag=on;  stale edit\n", b"flag=off; stale edit\n"
        hv1 = bytes.fromhex(blake3_hex([v1])[0]); hst = bytes.fromhex(blake3_hex([stale])[0])
        cn = f"f.conflict-{hst.hex()[:12]}"
        yield {"f": v1}, [[mkput("f", hv1, v2)], [mkput("f", hv1, stale), mkput("f", hv1, stale)], [mkput(cn, hst, fixed)]], \
            [(0, 0, 0), (1, 0, 0), (2, 0, 0), (1, 1, 0)]
        # (seed C03-M) one session commits f twice; between its two Puts another session commits content of the SAME LENGTH, in the
        # same second: whatever the first session remembers about f (a hash keyed by size and mtime), its second Put expects a
        # version that is no longer current — it must lose, the other session's acknowledged commit stays
        a1, b1, a2 = b"session A #1\n", b"session B #1\n", b"session A #2\n"
        ha1 = bytes.fromhex(blake3_hex([a1])[0])
        yield {"f": v1}, [[mkput("f", hv1, a1), mkput("f", ha1, a2)], [mkput("f", ha1, b1)]], [(0, 0, 0), (1, 0, 0), (0, 1, 0)]

    for ci in range(ncases):
        tree = {}
        for _ in range(rng.below(3)):
            tree[rng.pick(PATHS)] = rng.pick(CONTENTS)
        nclients = rng.range(2, 3)
        clients = [gen_ops(rng, tree, pid) for _ in range(nclients)]
        forced_order = None
        if ci < 2:
            tree, clients, forced_order = list(corpus_cases())[ci]
            tree = dict(tree); nclients = len(clients)
        # schedule: a random interleaving of (client, op index, piece index)
        cursors = [[0, 0] for _ in clients]
        order = []
        while True:
            live = [c for c in range(nclients) if cursors[c][0] < len(clients[c])]
            if not live:
                break
            c = rng.pick(live)
            oi, pi = cursors[c]
            order.append((c, oi, pi))
            if pi + 1 < len(clients[c][oi]["pieces"]):
                cursors[c][1] += 1
            else:
                cursors[c] = [oi + 1, 0]
        if forced_order is not None:
            order = list(forced_order)
        kill_at = None
        if pid == "C10" and rng.coin(1, 3) and forced_order is None:
            kill_at = rng.below(len(order))
        allowed = set(tree.values()) | {op["content"] for cl in clients for op in cl if op["kind"] == "put" and op["variant"] == "ok"}
        with Sandbox(pid) as sb:
            root = sb.path("hub")
            sb.write_tree(root, tree)
            os.makedirs(root, exist_ok=True)
            sb.rust_log = [None, "trace", None, "copia=debug"][(len(order) + len(tree)) % 4]
            servers = [Server(sb, root) for _ in clients]
            okh = True
            for s in servers:
                s.send(H.MAGIC + H.frame(H.req_hello()))
                if s.read_reply() != "hello:1":
                    okh = False
            if not okh:
                res["broken"].append(f"{pid}/corr: handshake with a server failed")
                for s in servers:
                    s.kill()
                continue
            opres = {}     # (c, oi) -> dict(start, end, reply)
            killed = set()
            rep = {"initial": sorted(tree), "clients": [[op["desc"] for op in cl] for cl in clients], "schedule": order, "kill_at": kill_at}
            for ev, (c, oi, pi) in enumerate(order):
                if c in killed:
                    continue
                if kill_at == ev:
                    servers[c].kill(); servers[c].p.wait()
                    killed.add(c)
                    # the op the killed server was working on may or may not have taken effect (its earlier pieces may already
                    # have carried the whole content): it is a "maybe" for the linearizability check, also when it was begun earlier
                    opres.setdefault((c, oi), {"start": ev, "end": None, "reply": None, "killed": True})
                    if opres[(c, oi)]["reply"] is None:
                        opres[(c, oi)]["killed"] = True
                    count("kills")
                else:
                    op = clients[c][oi]
                    opres.setdefault((c, oi), {"start": ev, "end": None, "reply": None, "killed": False})
                    servers[c].send(op["pieces"][pi])
                    if pi == len(op["pieces"]) - 1:
                        r = servers[c].read_reply()
                        opres[(c, oi)]["reply"] = r
                        opres[(c, oi)]["end"] = ev
                        if r is None:
                            res["violations"].append(("no-reply", f"client {c} got no reply to {op['desc']}", rep))
                    else:
                        time.sleep(0.01)     # let the server consume the piece (it is blocked in read afterwards)
                # ---- C10 predicate after every scheduling step
                now = nonstaging(H.hub_tree(root))
                steps_checked += 1
                for p, content in now.items():
                    if content not in allowed:
                        okc = any(content == op["content"] for cl in clients for op in cl if op["kind"] == "put")
                        key = "unverified-content-visible" if okc else "partial-or-mixed-content-visible"
                        res["violations"].append((key, f"after step {ev} hub path {p} holds {len(content)} bytes that are neither initial content nor the complete verified bytes of one Put", rep))
            for s in servers:
                s.close()
            final = nonstaging(H.hub_tree(root))
            leftovers = [k for k in H.hub_tree(root) if k.endswith(".copia-tmp")]
        finish_case(tree, clients, opres, final, leftovers, rep)
        observed = case_info[-1]["observed"]; cands = case_info[-1]["perms"]
        count(f"clients/{nclients}")
        count("ops", sum(len(cl) for cl in clients))
        if len(res["samples"]) < 6:
            res["samples"].append({"clients": rep["clients"], "schedule": order[:12], "replies": {f"{k[0]}.{k[1]}": v for k, v in observed.items()}, "candidate_orders": len(cands)})
    # ---- tier 2: the same oracles under SYSCALL-LEVEL schedules (LD_PRELOAD gate, tools/bb_gate.py):
    # one request per server process; every file-system call on the tree is a scheduling point; schedules
    # with ≤ 2 preemptions are sampled systematically, the rest at random; C10 adds a SIGKILL at a random step.
    gerr = G.build_gate()
    if gerr:
        res["broken"].append(f"{pid}/corr/gate: cannot build the schedule gate: {gerr}")
    else:
        nconf = 40 if tier == "thorough" else 6
        nsched = 32 if tier == "thorough" else 12
        for gi in range(nconf):
            tree = {}
            for _ in range(rng.below(3)):
                tree[rng.pick(PATHS)] = rng.pick(CONTENTS)
            nclients = 2 if rng.coin(3, 4) else 3
            hot = rng.pick(PATHS)
            clients = []
            for _ in range(nclients):
                op = gen_ops(rng, tree, pid, path=hot if rng.coin(3, 4) else None)[0]
                clients.append([op])
            if gi % 3 == 1:
                tree.setdefault(hot, rng.pick(CONTENTS))
                # a reader against writers of the same live path: Get's open … stat/read window vs a commit or delete
                clients = [[gen_ops(rng, tree, pid, path=hot)[0]] for _ in range(nclients)]
                b = H.frame(H.req_get(hot))
                clients[0] = [{"kind": "get", "path": hot, "pieces": [b], "bytes": b, "desc": f"get {hot}"}]
            list_vs_commits = (gi == 4 and pid == "C03")      # linearizability of List is C03's claim, not C10's
            if list_vs_commits:
                # List is a walk over the tree, file by file, outside the commit lock. Against a session that commits f and THEN g,
                # every placement of that whole session inside the List's call sequence (D11: the reply can show the OLD f and the NEW g)
                tree = {"f": CONTENTS[0], "g": CONTENTS[2]}
                def put_at(p_, c):
                    ch_ = bytes.fromhex(blake3_hex([tree[p_]])[0]); h_ = bytes.fromhex(blake3_hex([c])[0])
                    b_ = H.frame(H.req_put(p_, ch_, len(c), h_)) + c
                    return {"kind": "put", "path": p_, "content": c, "variant": "ok", "pieces": [b_], "exp": ch_, "hash": h_, "bytes": b_, "desc": f"put {p_} {len(c)}B exp=cur ok in 1 piece(s)"}
                bl = H.frame(H.req_list())
                clients = [[{"kind": "list", "path": "", "pieces": [bl], "bytes": bl, "desc": "list"}], [put_at("f", CONTENTS[1]), put_at("g", CONTENTS[5])]]
                nclients = 2
            list_vs_delete = (gi == 3 and pid == "C03")
            if list_vs_delete:
                # (seed C03-O) the Delete empties `d`; whatever the hub then does with the empty directory, a List that is under way
                # answers with the files that were there all along
                tree = {"keep.txt": CONTENTS[0], "d/only.txt": CONTENTS[2], "a/b/deep.txt": CONTENTS[5]}
                def del_at(p_):
                    ch_ = bytes.fromhex(blake3_hex([tree[p_]])[0])
                    b_ = H.frame(H.req_delete(p_, ch_))
                    return {"kind": "delete", "path": p_, "pieces": [b_], "exp": ch_, "bytes": b_, "desc": f"delete {p_} exp=cur"}
                bl = H.frame(H.req_list())
                clients = [[{"kind": "list", "path": "", "pieces": [bl], "bytes": bl, "desc": "list"}], [del_at("d/only.txt"), del_at("a/b/deep.txt")]]
                nclients = 2
            third_party = (gi == 2)
            if third_party:
                # two writers with the same (current) expectation on one path and a third session that merely starts and
                # ends: EVERY placement of the third session's whole life and of the second writer's whole request inside
                # the first writer's call sequence (what a session does when it ENDS is a scheduling point too)
                tree.setdefault(hot, rng.pick(CONTENTS))
                curh_ = bytes.fromhex(blake3_hex([tree[hot]])[0])
                def put_cur(c, wire=None):
                    wire = wire or hot
                    h_ = bytes.fromhex(blake3_hex([c])[0])
                    b_ = H.frame(H.req_put(wire, curh_, len(c), h_)) + c
                    return {"kind": "put", "path": hot, "wire": wire, "content": c, "variant": "ok", "pieces": [b_], "exp": curh_, "hash": h_, "bytes": b_, "desc": f"put {wire} {len(c)}B exp=cur ok in 1 piece(s)"}
                cs_ = [c for c in CONTENTS if c != tree[hot]]
                bg = H.frame(H.req_get(hot))
                clients = [[put_cur(cs_[0])], [{"kind": "get", "path": hot, "pieces": [bg], "bytes": bg, "desc": f"get {hot}"}], [put_cur(cs_[1 % len(cs_)], "./" + hot.replace("/", "//"))]]      # the second writer spells the same file differently
                nclients = 3
            list_then_get = (gi == 5)
            if list_then_get:
                # ONE session lists the hub and later fetches a file; another server commits a new version of that file — of the
                # SAME LENGTH, in the same second — in between (every placement of the writer's whole request inside the reader's
                # call sequence). Whatever the session remembers from its List (hashes keyed by size and mtime), the Get's
                # announced hash must be the hash of the bytes it streams.
                tree = {"f": b"0041\n"}
                ch_ = bytes.fromhex(blake3_hex([tree["f"]])[0]); c_ = b"0042\n"; h_ = bytes.fromhex(blake3_hex([c_])[0])
                b_ = H.frame(H.req_put("f", ch_, len(c_), h_)) + c_
                bl = H.frame(H.req_list()); bg = H.frame(H.req_get("f"))
                clients = [[{"kind": "list", "path": "", "pieces": [bl], "bytes": bl, "desc": "list"},
                            {"kind": "get", "path": "f", "pieces": [bg], "bytes": bg, "desc": "get f"}],
                           [{"kind": "put", "path": "f", "content": c_, "variant": "ok", "pieces": [b_], "exp": ch_, "hash": h_, "bytes": b_, "desc": f"put f {len(c_)}B exp=cur ok in 1 piece(s)"}]]
                nclients = 2
            # make them collide: most requests of a configuration address the same path
            allowed = set(tree.values()) | {op["content"] for cl in clients for op in cl if op["kind"] == "put" and op["variant"] == "ok"}
            # schedules for this configuration, decided as we go: first every sequential order (which also tells how
            # many gated calls each process makes), then EVERY schedule with exactly one preemption (process a runs k
            # calls, the others run to completion in each order, a finishes), then 2-preemption and random ones
            seq_orders = list(itertools.permutations(range(nclients)))
            chosen = [[(c, 99) for c in order] for order in seq_orders]
            lens = {}
            planned_more = False
            si = -1
            while True:
                si += 1
                if si >= len(chosen):
                    if planned_more:
                        break
                    planned_more = True
                    one = []
                    for a in range(nclients):
                        others = [c for c in range(nclients) if c != a]
                        for k in range(1, max(2, lens.get(a, 2))):
                            for order in itertools.permutations(others):
                                one.append([(a, k)] + [(c, 99) for c in order] + [(a, 99)])
                    if tier != "thorough" and len(one) > nsched * 2:
                        one = [one[i] for i in sorted({rng.below(len(one)) for _ in range(nsched * 2)})]
                    if list_vs_commits or list_then_get or list_vs_delete:
                        for k1 in range(1, max(2, lens.get(0, 10)) + 1):
                            one.append([(0, k1), (1, 99), (0, 99)])
                    if third_party:
                        n0 = max(2, lens.get(0, 8))
                        for k1 in range(1, n0):
                            for k2 in range(k1 + 1, n0 + 1):
                                one.append([(0, k1), (1, 99), (0, k2 - k1), (2, 99), (0, 99)])
                        count("gated/third-party-session-schedules", (n0 - 1) * n0 // 2)
                    pols2 = G.preemption_bounded(nclients, 9, 2)
                    chosen += one + [pols2[rng.below(len(pols2))] for _ in range(nsched // 4)] + [None] * (nsched // 4)
                    count("gated/one-preemption-schedules", len(one))
                    if si >= len(chosen):
                        break
                pol = chosen[si]
                kill_at = None
                if pid == "C10" and si >= len(seq_orders) and rng.coin(1, 4):
                    kill_at = (rng.below(14), rng.below(nclients))
                with Sandbox(pid) as sb:
                    root = sb.path("hub")
                    sb.write_tree(root, tree)
                    os.makedirs(root, exist_ok=True)
                    rd = sb.path("gate"); os.makedirs(rd, exist_ok=True)
                    reqs = [H.MAGIC + b"".join(op_["bytes"] for op_ in cl) for cl in clients]
                    run_ = G.GatedRun(CLI_BIN, sb.env, sb.dir, root, reqs, rd)
                    rep = {"initial": sorted(tree), "clients": [[op["desc"] for op in cl] for cl in clients], "gated": True, "policy": pol, "kill_at": kill_at}
                    bad_steps = []

                    snaps = {}

                    def on_step(r):
                        now = nonstaging(H.hub_tree(root))
                        snaps[r.step] = now
                        for p_, content in now.items():
                            if content not in allowed:
                                bad_steps.append((r.step, p_, len(content), any(content == op["content"] for cl in clients for op in cl if op["kind"] == "put")))

                    G.drive(run_, policy=pol, rng=rng if pol is None else None, kill_at=kill_at, on_step=on_step)
                    run_.finish()
                    steps_checked += run_.step
                    if si < len(seq_orders):
                        for pr in run_.procs:
                            lens[pr.idx] = max(lens.get(pr.idx, 0), len(pr.trace))
                    rep["schedule"] = [f"{i}:{c}" for (_, i, c) in run_.events]
                    if si < len(seq_orders) and kill_at is None and not run_.stuck:
                        # trace conformance: a request that ran alone must make exactly the calls of the Lean
                        # transition system's solo execution (Model/HubTrace.soloPut / soloDelete)
                        for pr in run_.procs:
                            if len(clients[pr.idx]) != 1 or clients[pr.idx][0]["kind"] == "list":
                                continue
                            op = clients[pr.idx][0]
                            pre_tree = tree if not pr.first_go else snaps.get(pr.first_go, tree)
                            solo_traces.append(solo_conformance(op, pr, pre_tree, rep))
                    if run_.stuck:
                        res["violations"].append(("gated-run-stuck", run_.stuck, rep))
                    for (st_, p_, ln_, okc) in bad_steps[:1]:
                        key = "unverified-content-visible" if okc else "partial-or-mixed-content-visible"
                        res["violations"].append((key, f"after gated step {st_} hub path {p_} holds {ln_} bytes that are neither initial content nor the complete verified bytes of one Put", rep))
                    opres = {}
                    for pr in run_.procs:
                        toks = parse_replies(open(pr.out, "rb").read())
                        nreq = len(clients[pr.idx])
                        if len(toks) > nreq:
                            res["violations"].append(("extra-reply", f"server {pr.idx} wrote {len(toks)} replies to {nreq} request(s)", rep))
                        start = pr.first_go if pr.first_go is not None else (pr.end if pr.end is not None else 0)
                        for oi_ in range(nreq):
                            reply = toks[oi_] if oi_ < len(toks) and not pr.killed else None
                            if reply is None and not pr.killed and not run_.stuck:
                                res["violations"].append(("no-reply", f"client {pr.idx} got no reply to {clients[pr.idx][oi_]['desc']} (exit {pr.p.returncode}, stderr {getattr(pr, 'stderr', '')[-200:]})", rep))
                            # the requests of one session share the session's interval; their order is the program order
                            opres[(pr.idx, oi_)] = {"start": start, "end": None if pr.killed else pr.end, "reply": reply, "killed": pr.killed}
                        if pr.killed:
                            count("gated/kills")
                    final = nonstaging(H.hub_tree(root))
                    leftovers = [k for k in H.hub_tree(root) if k.endswith(".copia-tmp")]
                finish_case(tree, clients, opres, final, leftovers, rep)
                count("gated/schedules")
                count(f"gated/steps", run_.step)
                count("gated/policy=" + ("random" if pol is None else f"{len(pol)}-segment"))
                if gi == 0 and si < 2 and len(res["samples"]) < 8:
                    res["samples"].append({"gated_schedule": rep["schedule"][:24], "clients": rep["clients"]})
    dec.close()
    solo_q = [q for (q, _, _, _) in solo_traces if q is not None]
    with open(os.path.join(rundir, "ops.txt"), "w") as f:
        f.write("\n".join(all_queries + solo_q) + ("\n" if all_queries or solo_q else ""))
    model = model_run(os.path.join(rundir, "ops.txt"))
    solo_model = model[len(all_queries):]
    model = model[:len(all_queries)]
    res["disagreements"] = []
    nsolo_dis, qi = 0, 0
    for (q, real, pyexp, r_) in solo_traces:
        if q is not None:
            want = solo_model[qi] if qi < len(solo_model) else None
            qi += 1
        else:
            want = pyexp
        if want is None or (want or "-") != real:
            nsolo_dis += 1
            if len(res["disagreements"]) < 6:
                res["disagreements"].append({"query": q or "(get: reads only)", "impl_calls": real, "model_calls": want, "case": {k: r_[k] for k in ("request", "server_calls", "clients", "initial") if k in r_}})
    count("solo-traces-compared", len(solo_traces))
    if nsolo_dis:
        res["broken"].append(f"{pid}/corr/solo-trace: the file-system calls of {nsolo_dis} of {len(solo_traces)} requests that ran alone differ from the transition system's solo execution (Model/HubTrace; theorems C03.solo_put_is_a_run / solo_delete_is_a_run)")
    nlin = 0
    for info in case_info:
        ok = False
        outs = model[info["first"]:info["first"] + info["n"]]
        for perm, mo in zip(info["perms"], outs):
            mm = __import__("re").match(r"exit=(\S+) maxalloc=(\d+) replies=(.*) tree=(\S+)$", mo or "")
            if not mm:
                continue
            reps_m = mm.group(3).split("|") if mm.group(3) else []
            if len(reps_m) != len(perm):
                continue
            same = all(info["observed"].get(k, None) in (None, r) for k, r in zip(perm, reps_m)) and all(k in perm for k in info["observed"])
            if same and mm.group(4) == info["final"]:
                ok = True
                break
        if not ok:
            # would it be linearizable if the List replies could be anything? then the one thing wrong is a List reply
            # that is not a snapshot of any single moment (D11, known finding)
            list_keys = {k for k in info["observed"] if (info["observed"][k] or "").startswith("fps:")}
            ok_wo_list = False
            if list_keys:
                for perm, mo in zip(info["perms"], outs):
                    mm = __import__("re").match(r"exit=(\S+) maxalloc=(\d+) replies=(.*) tree=(\S+)$", mo or "")
                    if not mm:
                        continue
                    reps_m = mm.group(3).split("|") if mm.group(3) else []
                    if len(reps_m) != len(perm):
                        continue
                    same = all(k in list_keys or info["observed"].get(k, None) in (None, r) for k, r in zip(perm, reps_m)) and all(k in perm for k in info["observed"])
                    if same and mm.group(4) == info["final"]:
                        ok_wo_list = True
                        break
            nlin += 1
            if ok_wo_list:
                impossible = []
                for k in list_keys:
                    body = info["observed"][k][4:]
                    listed = dict(x.split("=") for x in body.split(";")) if body != "-" else {}
                    for p_, vs in info.get("versions", {}).items():
                        if listed.get(hexs(p_)) not in vs:
                            impossible.append((p_, listed.get(hexs(p_))))
                if impossible:
                    res["violations"].append(("list-reply-drops-or-invents-a-file", f"a List reply shows, for {impossible[0][0]!r}, {'no entry' if impossible[0][1] is None else 'a hash'} that the file never had at any moment of the run (not a mix of versions: the file was there all along, or never held these bytes)",
                                              dict(info["rep"], observed={f"{k[0]}.{k[1]}": v for k, v in info["observed"].items()}, final=info["final"])))
                    continue
                res["violations"].append(("list-reply-not-a-snapshot", "a List reply shows a combination of file versions that the hub never held at any single moment (everything else is linearizable)",
                                          dict(info["rep"], observed={f"{k[0]}.{k[1]}": v for k, v in info["observed"].items()}, final=info["final"])))
                continue
            key = "not-linearizable"
            res["violations"].append((key, "replies + final tree equal no one-at-a-time execution of the same requests that respects real-time order (checked against the sequential Lean hub model)",
                                      dict(info["rep"], observed={f"{k[0]}.{k[1]}": v for k, v in info["observed"].items()}, final=info["final"], candidate_orders=len(info["perms"]))))
    res.update(evaluations=len(case_info) + len(solo_traces), distinct_nontrivial=len(case_info), n_disagreements=nsolo_dis, n_oracle_failures=len(res["violations"]),
               traces_validated=steps_checked,
               rule="2–3 clients, each with its own real server process on one root, 1–2 requests each over {Put (content in 1–3 pieces, expected = current / none / stale"
                    + (", wrong hash" if pid == "C10" else "") + "), Delete, Get, List} on 3 shared paths; a random interleaving at piece granularity (a whole request of one client can run while another's Put is half-streamed)"
                    + ("; a server is SIGKILLed at a random step in a third of the cases" if pid == "C10" else "")
                    + ". After every step the tree is read (C10 predicate); at the end replies + tree are checked for linearizability by running every real-time-compatible order through the sequential Lean model."
                    " Tier 2 (gated): 2–3 server processes with ONE request each run under an LD_PRELOAD gate that makes every file-system call on the tree (open/create/truncate, write, flock, rename, unlink) a scheduling point; "
                    "one process runs at a time, schedules with ≤ 2 preemptions are sampled systematically and the rest at random (the step granularity of the Lean transition system); same oracles. "
                    "Trace conformance: in the sequential gated schedules every server's call sequence (staging name = <dst>.<own pid>.copia-tmp, writes, lock, read of the live path, rename/unlink, unlock) must equal the labels of the Lean solo execution of that request from the observed pre-state.")
    return res
