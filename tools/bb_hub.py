"""C11 / C12 (and helpers for C03 / C10 / C13) — black-box correspondence for the hub (`copia serve`).

The harness speaks the wire protocol itself (hand-written CBOR for copia's serde types: unit variant =
text, struct variant = 1-entry map) and decodes request bodies for the model's `decode` table with the
REAL ciborium + wire.rs types (`copia-corr cbor req`).
"""
import os, re, struct, subprocess, shutil
from bbox import Sandbox, Rng, blake3_hex, hexs, CLI_BIN, helper_bin

MAGIC = b"COPIA1"
MAX_FRAME = 1 << 20


# ---------------------------------------------------------------- CBOR (subset)
def _hdr(major, n):
    if n < 24:
        return bytes([major << 5 | n])
    if n < 256:
        return bytes([major << 5 | 24, n])
    if n < 65536:
        return bytes([major << 5 | 25]) + struct.pack(">H", n)
    if n < 2 ** 32:
        return bytes([major << 5 | 26]) + struct.pack(">I", n)
    return bytes([major << 5 | 27]) + struct.pack(">Q", n)


def cenc(v):
    if v is None:
        return b"\xf6"
    if v is True:
        return b"\xf5"
    if v is False:
        return b"\xf4"
    if isinstance(v, int):
        return _hdr(0, v)
    if isinstance(v, str):
        b = v.encode("utf-8", "surrogateescape")
        return _hdr(3, len(b)) + b
    if isinstance(v, bytes):     # [u8; 32] is a serde tuple/seq of u8: an array of uints
        return _hdr(4, len(v)) + b"".join(_hdr(0, x) for x in v)
    if isinstance(v, list):
        return _hdr(4, len(v)) + b"".join(cenc(x) for x in v)
    if isinstance(v, dict):
        return _hdr(5, len(v)) + b"".join(cenc(k) + cenc(x) for k, x in v.items())
    raise TypeError(v)


def cdec(b, i=0):
    ib = b[i]
    major, info = ib >> 5, ib & 31
    i += 1
    if info < 24:
        n = info
    elif info == 24:
        n = b[i]; i += 1
    elif info == 25:
        n = struct.unpack(">H", b[i:i + 2])[0]; i += 2
    elif info == 26:
        n = struct.unpack(">I", b[i:i + 4])[0]; i += 4
    elif info == 27:
        n = struct.unpack(">Q", b[i:i + 8])[0]; i += 8
    else:
        n = None
    if major == 0:
        return n, i
    if major in (2, 3):
        s = b[i:i + n]
        return (s.decode("utf-8", "replace") if major == 3 else bytes(s)), i + n
    if major == 4:
        out = []
        for _ in range(n):
            v, i = cdec(b, i); out.append(v)
        return out, i
    if major == 5:
        out = {}
        for _ in range(n):
            k, i = cdec(b, i); v, i = cdec(b, i); out[k] = v
        return out, i
    if major == 7:
        return {20: False, 21: True, 22: None}.get(info), i
    raise ValueError("cbor")


def frame(body):
    return struct.pack(">I", len(body)) + body


def req_hello(v=1): return cenc({"Hello": {"version": v}})
def req_list(): return cenc("List")
def req_bye(): return cenc("Bye")
def req_get(p): return cenc({"Get": {"path": p}})
def req_put(p, expected, length, h): return cenc({"Put": {"path": p, "expected": expected, "len": length, "hash": h}})
def req_delete(p, expected): return cenc({"Delete": {"path": p, "expected": expected}})


def reply_tok(v, content=None):
    """same token format as the driver / `copia-corr cbor resp`"""
    if isinstance(v, dict) and "Hello" in v:
        return f"hello:{v['Hello']['version']}"
    if isinstance(v, dict) and "Fingerprints" in v:
        m = v["Fingerprints"]
        items = sorted((k, bytes(x["blake3"]).hex()) for k, x in m.items())
        return "fps:" + (";".join(f"{hexs(k)}={h}" for k, h in items) if items else "-")
    if isinstance(v, dict) and "Content" in v:
        c = v["Content"]
        return f"content:{c['len']}:{bytes(c['hash']).hex()}:{fnv(content if content is not None else b'')}"
    if isinstance(v, dict) and "PutResult" in v:
        c = v["PutResult"]
        return f"put:{1 if c['committed'] else 0}:{bytes(c['current']).hex() if c['current'] is not None else '-'}"
    if isinstance(v, dict) and "DeleteResult" in v:
        c = v["DeleteResult"]
        return f"del:{1 if c['deleted'] else 0}:{bytes(c['current']).hex() if c['current'] is not None else '-'}"
    if isinstance(v, dict) and "Error" in v:
        e = v["Error"]
        for pre in ("commit failed", "conflict-copy failed"):
            if e.startswith(pre):
                e = pre          # the OS error text that follows is not part of the compared reply
        return "error:" + e.replace(" ", "_")
    return "UNKNOWN-REPLY"


def fnv(b):
    h = 14695981039346656037
    for x in b:
        h = ((h ^ x) * 1099511628211) % (1 << 64)
    return h


def parse_replies(out):
    """stdout of a server session -> (reply tokens, trailing garbage?)"""
    toks, i = [], 0
    while i + 4 <= len(out):
        n = struct.unpack(">I", out[i:i + 4])[0]
        body = out[i + 4:i + 4 + n]
        if len(body) < n:
            toks.append("TRUNCATED-REPLY"); break
        i += 4 + n
        try:
            v, _ = cdec(body)
        except Exception:
            toks.append("UNDECODABLE-REPLY"); continue
        content = None
        if isinstance(v, dict) and "Content" in v:
            ln = v["Content"]["len"]
            content = out[i:i + ln]
            if len(content) < ln:
                toks.append(reply_tok(v, content) + ":SHORT"); break
            i += ln
        toks.append(reply_tok(v, content))
    return toks


class ReqDecoder:
    """persistent `copia-corr cbor req`: real ciborium on frame bodies"""

    def __init__(self):
        self.p = subprocess.Popen([helper_bin(), "cbor", "req"], stdin=subprocess.PIPE, stdout=subprocess.PIPE, text=True, bufsize=1)
        self.cache = {}

    def dec(self, body):
        if body in self.cache:
            return self.cache[body]
        self.p.stdin.write((body.hex() if body else "-") + "\n"); self.p.stdin.flush()
        t = self.p.stdout.readline().strip()
        self.cache[body] = t
        return t

    def close(self):
        try:
            self.p.stdin.close(); self.p.wait(timeout=5)
        except Exception:
            self.p.kill()


def walk_stream(stream, dec):
    """Replicates the framing to enumerate the frame bodies the server will decode and the Put
    contents it will hash: -> (bodies->token table, contents list)"""
    table, contents = {}, []
    if len(stream) < 6 or stream[:6] != MAGIC:
        return table, contents
    i = 6
    while True:
        if len(stream) - i < 4:
            break
        n = struct.unpack(">I", stream[i:i + 4])[0]
        if n > MAX_FRAME or len(stream) - i - 4 < n:
            break
        body = stream[i + 4:i + 4 + n]
        i += 4 + n
        t = dec.dec(body)
        table[body] = t
        if t == "ERR" or t == "bye":
            break
        if t.startswith("put:"):
            ln = int(t.split(":")[3])
            c = stream[i:i + ln]
            contents.append(c)
            i += len(c)
    return table, contents


def run_server(sb, root, stream, strace_out=None, mem_limit_kb=262144, timeout=20, pre_extra="", rust_log=None):
    """rust_log: None = the sandbox's setting (logging off); "default" = RUST_LOG unset, as in an ordinary account (the hub's own
    default filter applies); any other string = that filter. The reply stream is the server's stdout: whatever the logging
    configuration, nothing but reply frames may appear there."""
    cmd = [CLI_BIN, "serve", root]
    env = dict(sb.env)
    if rust_log == "default":
        env.pop("RUST_LOG", None)
    elif rust_log:
        env["RUST_LOG"] = rust_log
    pre = f"ulimit -v {mem_limit_kb}; " + pre_extra
    if strace_out:
        sh = pre + f"exec strace -f -qq -s 8192 -e trace=%file -o {strace_out} " + " ".join(map(shq, cmd))
    else:
        sh = pre + "exec " + " ".join(map(shq, cmd))
    try:
        r = subprocess.run(["bash", "-c", sh], input=stream, env=env, cwd=sb.dir, stdout=subprocess.PIPE, stderr=subprocess.PIPE, timeout=timeout)
        return r.returncode, r.stdout, r.stderr.decode("utf-8", "replace")
    except subprocess.TimeoutExpired as e:
        return "timeout", e.stdout or b"", (e.stderr or b"").decode("utf-8", "replace")


def shq(s):
    return "'" + s.replace("'", "'\\''") + "'"


def hub_tree(root):
    out = {}
    for d, _, files in os.walk(root):
        for fn in files:
            p = os.path.join(d, fn)
            rel = os.path.relpath(p, root)
            if rel.startswith(".copia/") or rel == ".copia":
                continue
            try:
                out[rel] = open(p, "rb").read()
            except FileNotFoundError:
                pass        # a running server renamed / removed it between the directory walk and the open (ungated runs): not there any more
    return out


def tree_tok_hash(tree):
    if not tree:
        return "-"
    ks = sorted(tree)
    hs = blake3_hex([tree[k] for k in ks])
    return ";".join(f"{hexs(k)}={h}" for k, h in zip(ks, hs))


def tree_tok_bytes(tree):
    return "-" if not tree else ";".join(f"{hexs(k)}={hexs(v)}" for k, v in sorted(tree.items()))


# ---------------------------------------------------------------- C12
CONTENTS = [b"", b"x", b"hello hub\n", b"\x00\x01\x02\x03", b"A" * 300, b"0123456789" * 7]
PATHS12 = ["f", "g.txt", "d/h", "d/e/i", "sp ace", "üñí"]


def valid_session(rng, tree, n):
    """a list of (frame-bytes-with-content, description)"""
    parts = [(frame(req_hello()), "hello")]
    hs = {}
    for _ in range(n):
        r = rng.below(12)
        p = rng.pick(PATHS12)
        if rng.coin(1, 10):
            p = f"{p}.conflict-{blake3_hex([rng.pick(CONTENTS)])[0][:12]}"      # a user path that looks like a conflict copy (D13)
        if r < 2:
            parts.append((frame(req_list()), "list"))
        elif r < 4:
            parts.append((frame(req_get(p)), f"get {p}"))
        elif r < 8:
            c = rng.pick(CONTENTS)
            h = bytes.fromhex(blake3_hex([c])[0])
            exp_mode = rng.below(4)
            cur = tree.get(p)
            if exp_mode == 0:
                exp = None
            elif exp_mode == 1 and cur is not None:
                exp = bytes.fromhex(blake3_hex([cur])[0])
            elif exp_mode == 2:
                exp = bytes(rng.bytes(32))
            else:
                exp = bytes.fromhex(blake3_hex([cur])[0]) if cur is not None else None
            kind = rng.below(10)
            if kind == 0:      # wrong hash
                parts.append((frame(req_put(p, exp, len(c), bytes(rng.bytes(32)))) + c, f"put {p} wronghash"))
            elif kind == 1:    # bad path, content must be drained
                parts.append((frame(req_put("../" + p, exp, len(c), h)) + c, f"put ../{p} refused"))
            else:
                parts.append((frame(req_put(p, exp, len(c), h)) + c, f"put {p} len={len(c)}"))
        elif r < 10:
            cur = tree.get(p)
            exp = bytes.fromhex(blake3_hex([cur])[0]) if (cur is not None and rng.coin(2, 3)) else (None if rng.coin(1, 2) else bytes(rng.bytes(32)))
            parts.append((frame(req_delete(p, exp)), f"delete {p}"))
        elif r == 10:
            parts.append((frame(req_get("/abs/" + p)), "get absolute"))
            if rng.coin(1, 2):
                # error replies for long paths whose multi-byte characters straddle every small offset (a reply that clips or
                # echoes the path must not split a character): missing file, refused path
                pad = "x" * rng.below(4)
                longp = pad + rng.pick(["é", "中", "𝄞"]) * rng.range(22, 60)
                parts.append((frame(req_get(longp)), "get long non-ascii (missing)"))
                parts.append((frame(req_delete("../" + longp, None)), "delete long non-ascii (refused)"))
        else:
            parts.append((frame(req_hello(rng.below(5))), "hello again"))
    if rng.coin(2, 3):
        parts.append((frame(req_bye()), "bye"))
    return parts


def gen_stream(rng, tree):
    parts = valid_session(rng, tree, rng.range(1, 8))
    stream = MAGIC + b"".join(p for p, _ in parts)
    desc = [d for _, d in parts]
    kind = rng.below(20)
    if kind >= 18:
        # a CUT-OFF request (its CBOR item ends inside the frame; the length prefix is right) that follows a LONGER well-formed
        # frame of the same shape: whatever buffer the server keeps between frames still holds the tail that would complete it
        # (same request kind, same path length, a hash). It is ill-formed: it must end the session and touch nothing.
        e = bytes.fromhex(blake3_hex([b"x"])[0])
        if tree:
            victim = sorted(tree)[rng.below(len(tree))]
            hv = bytes.fromhex(blake3_hex([tree[victim]])[0])
            decoy = "".join("q" if ch != "/" else "/" for ch in victim)
            first, second = req_delete(decoy, hv), req_delete(victim, hv)
        else:
            first, second = req_put("qqqqqq", None, 0, e), req_put("landed", None, 0, e)
        lo = len(second) - 30 if len(second) > 34 else 2
        cutat = rng.range(max(2, lo), len(second) - 1)
        k = rng.below(len(parts) + 1)
        lead = b"".join(p for p, _ in parts[:k])
        if rng.coin(1, 3):
            first = first + b"\x00" * rng.below(4)          # the long frame may itself be padded
        return (MAGIC + lead + frame(first) + frame(second[:cutat]) + b"".join(p for p, _ in parts[k:]), "cut-request-after-longer-frame",
                desc[:k] + ["well-formed no-op of the same shape", f"the same request for another path, cut at byte {cutat} of {len(second)}"] + desc[k:])
    if kind >= 16:
        # a well-framed request whose body is LONGER than its CBOR item (the length prefix covers the padding): the
        # whole frame must be consumed; the padding — zeros, or the bytes of a complete Put frame — is never a request
        inner = rng.pick([req_list(), req_get(rng.pick(PATHS12)), req_get("../x"), req_hello()])
        e = bytes.fromhex(blake3_hex([b""])[0])
        pad = rng.pick([b"\x00" * 4, b"\x00" * 9, frame(req_put("smuggled", None, 0, e)), frame(req_delete(sorted(tree)[0], None)) if tree else b"\xf6"])
        k = rng.below(len(parts) + 1)
        return (MAGIC + b"".join(p for p, _ in parts[:k]) + frame(inner + pad) + b"".join(p for p, _ in parts[k:]), "padded-frame",
                desc[:k] + ["padded frame"] + desc[k:])
    if kind >= 14 and tree:
        # Put below a path that is a regular FILE: the handler hits a file-system error. The content that
        # follows is itself a well-formed Delete frame: it must never be interpreted as a request.
        victim = sorted(tree)[0]
        inner = frame(req_delete(victim, bytes.fromhex(blake3_hex([tree[victim]])[0]))) + frame(req_hello())
        h = bytes.fromhex(blake3_hex([inner])[0])
        bad = frame(req_put(victim + "/x", None, len(inner), h)) + inner
        k = rng.below(len(parts) + 1)
        return MAGIC + b"".join(p for p, _ in parts[:k]) + bad + b"".join(p for p, _ in parts[k:]), "put-below-a-file", desc[:k] + [f"put {victim}/x (content = a Delete frame)"] + desc[k:]
    if kind >= 14:
        kind = 0
    if kind == 0:
        return stream, "valid", desc
    if kind == 1:
        cut = rng.below(len(stream) + 1)
        return stream[:cut], f"cut@{cut}/{len(stream)}", desc
    if kind == 2:
        return b"Welcome to host\r\n" + stream, "banner-before-magic", desc
    if kind == 3:
        i = rng.below(len(stream)); b = bytearray(stream); b[i] ^= 1 << rng.below(8)
        return bytes(b), f"bitflip@{i}", desc
    if kind == 4:
        n = rng.pick([MAX_FRAME, MAX_FRAME + 1, 2 ** 32 - 1, 2 ** 31, MAX_FRAME - 1])
        k = rng.below(len(parts) + 1)
        # what follows the rejected prefix: random bytes, or — a session must END there, not resynchronise — well-formed
        # frames (a Put that would land a file, the rest of the session): none of it may be read as requests
        e_ = bytes.fromhex(blake3_hex([b""])[0])
        tail = rng.pick([rng.bytes(rng.below(64)),
                         frame(req_put("smuggled", None, 0, e_)) + frame(req_bye()),
                         frame(req_put("smuggled", None, 0, e_)) + b"".join(p for p, _ in parts[k:]),
                         b"\x00" * 16 + frame(req_delete(sorted(tree)[0], None)) if tree else frame(req_put("smuggled2", None, 0, e_))])
        s = MAGIC + b"".join(p for p, _ in parts[:k]) + struct.pack(">I", n) + tail
        return s, f"length-prefix={n}", desc[:k]
    if kind == 5:
        k = rng.below(len(parts)); s = MAGIC + b"".join(p for p, _ in parts[:k] + [parts[k]] + parts[k:])
        return s, "duplicated-frame", desc
    if kind == 6:
        ps = parts[:]; i = rng.below(len(ps)); j = rng.below(len(ps)); ps[i], ps[j] = ps[j], ps[i]
        return MAGIC + b"".join(p for p, _ in ps), "reordered-frames", [d for _, d in ps]
    if kind == 7:
        k = rng.below(len(parts) + 1)
        junk = frame(rng.bytes(rng.below(40)))
        return MAGIC + b"".join(p for p, _ in parts[:k]) + junk + b"".join(p for p, _ in parts[k:]), "garbage-body-frame", desc
    if kind == 8:
        # CBOR with a huge declared length / deep nesting inside a well-sized frame
        evil = rng.pick([b"\x9b\xff\xff\xff\xff\xff\xff\xff\xff", b"\x7b\x00\x00\x00\x10\x00\x00\x00\x00abc", b"\x81" * 200 + b"\x00", b"\xbb\x00\x00\x00\x01\x00\x00\x00\x00", b"\xa1\x63Put\xa1\x64path\x5b\xff\xff\xff\xff\xff\xff\xff\xf0"])
        k = rng.below(len(parts) + 1)
        return MAGIC + b"".join(p for p, _ in parts[:k]) + frame(evil) + b"".join(p for p, _ in parts[k:]), "hostile-cbor", desc
    if kind == 9:
        return rng.bytes(rng.below(80)), "random-bytes", []
    if kind == 10 and rng.coin(1, 2):
        # a prologue that is ALMOST the right one: another digit / letter in the version position, another case, one byte off
        # anywhere — followed by the whole well-formed session. Only `COPIA1` opens a session (seed C12-K: `COPIA0` accepted
        # as an older "wire generation").
        i = rng.pick([5, 5, 5, rng.below(6)])
        alt = bytearray(MAGIC)
        alt[i] = rng.pick([c for c in b"0123456789Aa2" + bytes([MAGIC[i] ^ 0x20, (MAGIC[i] + 1) & 0xFF, (MAGIC[i] - 1) & 0xFF]) if c != MAGIC[i]])
        return bytes(alt) + stream[6:], "near-miss-prologue", desc
    if kind == 10:
        return MAGIC[:rng.below(6)], "partial-magic", []
    if kind == 11:
        # Put whose declared len exceeds what follows (swallows later frames as content, by design)
        c = b"tail"
        h = bytes.fromhex(blake3_hex([c])[0])
        return stream + frame(req_put("f", None, 1000, h)) + c, "put-len-exceeds-stream", desc + ["put f len=1000 (4 bytes follow)"]
    if kind == 12:
        c = b"exact"
        h = bytes.fromhex(blake3_hex([c])[0])
        return stream + frame(req_put("g.txt", None, 3, h)) + c, "put-len-shorter-than-content", desc
    return stream + b"\x00\x00", "trailing-partial-prefix", desc


def fs_failure_sessions(rng, res, count):
    """C12: requests that are well-formed, pass every check and then FAIL at their last file-system step (Put / Delete whose
    target is a non-empty directory). The server may answer with an error, but its output must stay a sequence of well-formed
    frames: every later reply is the reply a fresh session gives (nothing else may ever be written to the reply stream)."""
    e = bytes.fromhex(blake3_hex([b"x"])[0])
    for which, rl in (("put-onto-directory", "default"), ("delete-directory", "default"), ("put-dot", "trace"), ("put-onto-directory", "trace")):
        tree = {"f": b"payload of f", "d/inner.txt": b"inside"}
        bad = {"put-onto-directory": frame(req_put("d", None, 1, e)) + b"x", "delete-directory": frame(req_delete("d", None)),
               "put-dot": frame(req_put(".", None, 1, e)) + b"x"}[which]
        with Sandbox("C12") as sb:
            root = sb.path("hub"); sb.write_tree(root, tree); os.makedirs(os.path.join(root, ".copia"), exist_ok=True)
            rc0, ref, _ = run_server(sb, root, MAGIC + frame(req_hello()) + frame(req_get("f")) + frame(req_list()) + frame(req_bye()))
        with Sandbox("C12") as sb:
            root = sb.path("hub"); sb.write_tree(root, tree); os.makedirs(os.path.join(root, ".copia"), exist_ok=True)
            rc, out, err = run_server(sb, root, MAGIC + frame(req_hello()) + bad + frame(req_get("f")) + frame(req_list()) + frame(req_bye()), rust_log=rl)
            after = hub_tree(root)
        count("stream/fs-failure-at-commit")
        rt, ot = parse_replies(ref), parse_replies(out)
        rep = {"kind": which, "RUST_LOG": rl, "rc": rc, "stderr": err[-300:], "replies": ot[:6], "fresh_session_replies": rt[:6], "stdout_hex": out[:200].hex()}
        if rc not in (0, 1):
            res["violations"].append(("server-killed-by-signal", f"copia serve ended with {rc} on {which}", rep))
        # in step: hello, ONE reply to the failing request, then exactly the fresh session's Get and List replies
        if rc == 0 and (len(ot) != len(rt) + 1 or ot[0] != rt[0] or ot[2:] != rt[1:]):
            res["violations"].append(("replies-out-of-step-after-fs-failure", f"after a {which} request that failed in the file system the reply stream is not the fresh session's (extra bytes in the stream?)", rep))
        if {k: v for k, v in after.items() if not k.endswith(".copia-tmp")} != tree:
            res["violations"].append(("tree-changed-by-failed-request", f"{which} failed and yet the served tree changed", rep))


def dir_target_corpus():
    """Sessions whose request path names a DIRECTORY of the tree, or the root itself (fixed: the model's tree has no empty
    directories, so these run on a tree where the directories hold files throughout). A commit onto a directory fails and says
    so; a STALE CAS against it is a conflict like any other — the copy lands beside it and can be fetched."""
    tree = {"d/e/i": b"deep", "d/h": b"hello hub\n"}
    out = []
    for target in ("d", "d/e", "", "."):
        for c in (b"x", b"A" * 300):
            h = bytes.fromhex(blake3_hex([c])[0])
            stale = bytes.fromhex(blake3_hex([b"something else"])[0])
            cc = f"{target}.conflict-{h.hex()[:12]}"
            parts = [(frame(req_hello()), "hello"),
                     (frame(req_put(target, None, len(c), h)) + c, f"put {target!r} (a directory) expected=None"),
                     (frame(req_put(target, stale, len(c), h)) + c, f"put {target!r} (a directory) stale expected"),
                     (frame(req_list()), "list"),
                     (frame(req_get(cc)), f"get {cc}"),
                     (frame(req_put(target, stale, len(c), h)) + c, f"put {target!r} again (same bytes: same conflict copy)"),
                     (frame(req_delete(target, None)), f"delete {target!r} expected=None"),
                     (frame(req_get(target)), f"get {target!r}"),
                     (frame(req_list()), "list"), (frame(req_bye()), "bye")]
            out.append((dict(tree), MAGIC + b"".join(p_ for p_, _ in parts), "corpus-dir-target", [d_ for _, d_ in parts]))
    return out


def prologue_corpus():
    """Every prologue that differs from `COPIA1` in its LAST byte by being another digit or a letter, and a few that differ
    elsewhere, each followed by a whole well-formed session that would create and delete files: only `COPIA1` opens a session
    (seed C12-K: `COPIA0` read as an older wire generation)."""
    tree = {"g.txt": b"hello hub\n"}
    c = b"x"
    h = bytes.fromhex(blake3_hex([c])[0]); hg = bytes.fromhex(blake3_hex([tree["g.txt"]])[0])
    body = frame(req_hello()) + frame(req_put("f", None, len(c), h)) + c + frame(req_delete("g.txt", hg)) + frame(req_list()) + frame(req_bye())
    out = []
    for alt in [b"COPIA" + bytes([d]) for d in b"023456789aAzZ"] + [b"COPIa1", b"cOPIA1", b"COPIB1", b"COPI\x001", b"COPIA\x31"[:5] + b"\x00"]:
        out.append((dict(tree), alt + body, "near-miss-prologue", [f"prologue {alt!r}", "hello", "put f", "delete g.txt", "list", "bye"]))
    return out


def refused_upload_then_valid_put(res, count):
    """C12 "a valid request after an error reply is answered as in a fresh session": a complete, well-framed Put whose content does
    not have the announced hash (or the announced length is 1 more than what the hash was taken of) is refused; the NEXT Put on the
    same connection, valid, is committed and listed — nothing of the refused upload (bytes still in a hasher, a counter, a buffer)
    may leak into it (seed C12-N: one hasher per connection, reset only on the success path)."""
    good = b"the valid upload's bytes\n" * 50
    bad = b"an upload announced with another content's hash\n" * 30
    hg, hb_wrong = (bytes.fromhex(x) for x in blake3_hex([good, b"something else"]))
    for nbad in (1, 2):
        with Sandbox("C12") as sb:
            root = sb.path("hub"); sb.write_tree(root, {"f": b"payload of f"}); os.makedirs(os.path.join(root, ".copia"), exist_ok=True)
            stream = MAGIC + frame(req_hello())
            for i in range(nbad):
                stream += frame(req_put(f"bad{i}.bin", None, len(bad), hb_wrong)) + bad
            stream += frame(req_put("good.bin", None, len(good), hg)) + good + frame(req_get("good.bin")) + frame(req_bye())
            rc, out, err = run_server(sb, root, stream, rust_log=[None, "trace"][nbad % 2])
            after = hub_tree(root)
        count("stream/refused-upload-then-valid-put")
        ot = parse_replies(out)
        rep = {"kind": "refused-upload-then-valid-put", "refused_uploads": nbad, "rc": rc, "stderr": err[-300:], "replies": [t[:90] for t in ot[:6]]}
        if rc != 0 or len(ot) != nbad + 3 or any(not t.startswith("error:") for t in ot[1:1 + nbad]):
            res["violations"].append(("replies-out-of-step-after-refused-upload", f"after {nbad} Put(s) with a wrong hash the session did not answer one error each and carry on (rc {rc})", rep))
        elif ot[1 + nbad] != f"put:1:{hg.hex()}" or not ot[2 + nbad].startswith(f"content:{len(good)}:{hg.hex()}"):
            res["violations"].append(("valid-put-after-refused-upload-answered-differently", f"a valid Put after {nbad} refused upload(s) was answered {ot[1 + nbad][:60]} (a fresh session answers put:1:{hg.hex()[:12]}…)", rep))
        elif after.get("good.bin") != good or any(k.startswith("bad") for k in after):
            res["violations"].append(("tree-wrong-after-refused-upload", "after the session the tree does not hold exactly the valid Put's file", rep))


def dense_frame_sessions(res, count):
    """C12 "never reserves more than the frame bound for a control frame": a 1 MiB frame whose body is VALID CBOR made of a million
    one-byte items (an array of zeros) — not a request, so the session ends with an error — handled under a memory limit that a
    same-sized frame holding one long text item fits into. What the server does with a frame it rejects must not cost a multiple of
    the frame (seed C12-O: the rejected body decoded once more into a generic `ciborium::Value` tree for the error message: 32 bytes
    per item, 32 MiB for this frame — `memory allocation failed`, SIGABRT)."""
    n = (1 << 20) - 5
    dense = bytes([0x9A]) + struct.pack(">I", n) + bytes(n)                      # array(n) of unsigned 0
    text = bytes([0x7A]) + struct.pack(">I", n) + b"a" * n                       # one text string of n bytes
    assert len(dense) == len(text) == 1 << 20
    def session(body, limit_kib):
        with Sandbox("C12") as sb:
            root = sb.path("hub"); sb.write_tree(root, {"f": b"payload of f"}); os.makedirs(os.path.join(root, ".copia"), exist_ok=True)
            stream = MAGIC + frame(req_hello()) + struct.pack(">I", len(body)) + body + frame(req_get("f")) + frame(req_bye())
            sb.env["MALLOC_ARENA_MAX"] = "1"
            rc, out, err = run_server(sb, root, stream, mem_limit_kb=limit_kib, timeout=60)
            return rc, parse_replies(out), err
    limit = None
    for mib in (24, 40, 56, 72, 88, 104, 128, 160, 192):
        rc, toks, err = session(text, mib * 1024)
        if rc in (0, 1) and toks[:1] == ["hello:1"]:
            limit = mib
            break
    if limit is None:
        count("stream/dense-frame-skipped-no-limit-found")
        return
    rc, toks, err = session(dense, limit * 1024)
    count("stream/dense-cbor-frame-under-memory-limit")
    rep = {"kind": "dense-cbor-frame", "frame_bytes": 1 << 20, "items": n, "memory_limit_MiB": limit, "rc": rc, "stderr": err[-300:], "replies": toks[:3],
           "control": "a text frame of the same size is refused cleanly under the same limit"}
    if rc not in (0, 1):
        res["violations"].append(("server-killed-by-signal" if rc != "timeout" else "server-timeout",
                                  f"a 1 MiB frame of {n} one-byte CBOR items under a {limit} MiB address-space limit (enough for a text frame of the same size): copia serve ended with {rc}", rep))


def long_name_sessions(rng, res, count):
    """C12 "always ends, stays in step": a Put that LOSES its CAS on a path whose last component is so long that the staging name
    still fits NAME_MAX while the conflict-copy name (`.conflict-` + 12 hex, then `-1`, `-2`, …) does not — every candidate name
    fails with ENAMETOOLONG, none is "free". The session must end by itself, answer every request once, and serve the next ones
    (seed C12-M: a search that takes every stat error but NotFound for "name taken" never ends, under the commit lock)."""
    body = b"loser's bytes"
    hb = bytes.fromhex(blake3_hex([body])[0])
    ok_body = b"next request's bytes"
    hok = bytes.fromhex(blake3_hex([ok_body])[0])
    for ln_ in (200, 230, 234, 236, 239, 243, 250):
        for nested in (False, True):
            name = ("d/" if nested else "") + "L" * ln_
            for expected in (bytes(32), None):
                tree = {} if expected is not None else {name: b"already there"}
                if ln_ > 240 and tree:
                    continue
                with Sandbox("C12") as sb:
                    root = sb.path("hub"); sb.write_tree(root, tree); os.makedirs(os.path.join(root, ".copia"), exist_ok=True)
                    stream = (MAGIC + frame(req_hello()) + frame(req_put(name, expected, len(body), hb)) + body
                              + frame(req_put("ok", None, len(ok_body), hok)) + ok_body + frame(req_get("ok")) + frame(req_bye()))
                    rc, out, err = run_server(sb, root, stream, timeout=15, rust_log=[None, "trace"][ln_ % 2])
                    after = hub_tree(root)
                count("stream/cas-loser-on-a-long-name")
                ot = parse_replies(out)
                rep = {"kind": "cas-loser-on-a-long-name", "name_bytes": ln_, "nested": nested, "expected": "32 zero bytes" if expected is not None else "None (create) while the path exists",
                       "rc": rc, "stderr": err[-300:], "replies": [t[:80] for t in ot[:6]], "stdout_hex": out[:160].hex()}
                if rc not in (0, 1):
                    key = "server-timeout" if rc == "timeout" else "server-killed-by-signal"
                    res["violations"].append((key, f"copia serve ended with {rc} on a CAS-losing Put to a {ln_}-byte name: the session did not end after its input was closed", rep))
                    continue
                if rc == 0 and (len(ot) != 4 or not ot[0].startswith("hello:") or not ot[2].startswith("put:1:") or not ot[3].startswith(f"content:{len(ok_body)}:")):
                    res["violations"].append(("replies-out-of-step-after-long-name", "after a CAS-losing Put to a long name the reply stream is not one reply per request", rep))
                if rc == 0 and after.get("ok") != ok_body:
                    res["violations"].append(("next-put-not-committed", "the Put after the CAS-losing one was acknowledged but is not in the tree", rep))
                if tree and after.get(name) != tree[name]:
                    res["violations"].append(("cas-loser-overwrote", "a create-only Put replaced the existing file", rep))


def run_c12(pid, tier, seed, rundir, model_run, res, count):
    rng = Rng(seed ^ 0xC12)
    fs_failure_sessions(rng, res, count)
    long_name_sessions(rng, res, count)
    refused_upload_then_valid_put(res, count)
    dense_frame_sessions(res, count)
    n = 160 * (12 if tier == "thorough" else 1)
    dec = ReqDecoder()
    ops, impl, reps = [], [], []
    corpus = dir_target_corpus() + prologue_corpus()
    for i in range(n):
        tree = {}
        for _ in range(rng.below(4)):
            tree[rng.pick(PATHS12)] = rng.pick(CONTENTS)
        if any(k.startswith(o + "/") or o.startswith(k + "/") for k in tree for o in tree if k != o):
            tree = {}
        if i % 3 == 1:
            # committed content whose NAME has the shape of a staging file of a process that is long gone (the number is above any pid)
            tree[["cache/index.4199999.copia-tmp", "g.txt.4200001.copia-tmp"][(i // 3) % 2]] = rng.pick(CONTENTS)
        stream, kind, desc = gen_stream(rng, tree)
        if i < len(corpus):
            tree, stream, kind, desc = corpus[i]
        count("stream/" + kind.split("@")[0].split("=")[0])
        with Sandbox("C12") as sb:
            root = sb.path("hub")
            sb.write_tree(root, tree)
            os.makedirs(os.path.join(root, ".copia"), exist_ok=True)
            rc, out, err = run_server(sb, root, stream, rust_log=[None, "default", "trace"][i % 3])
            after = hub_tree(root)
        table, contents = walk_stream(stream, dec)
        toks = parse_replies(out)
        exit_tok = {0: "exit0", 1: "exit1"}.get(rc, f"rc={rc}")
        # staging leftovers of THIS session are reserved names: not part of the compared tree. A file of the initial tree whose name
        # merely has that shape is committed content like any other (seed C12-J: a start-up sweep removed it before reading a byte)
        after_cmp = {k: v for k, v in after.items() if not k.endswith(".copia-tmp") or k in tree}
        hash_inputs = set(tree.values()) | set(contents) | set(after_cmp.values())
        hl = sorted(hash_inputs)
        ht = dict(zip(hl, blake3_hex(hl)))
        q = "serve {} {} {} {}".format(hexs(stream), ",".join(f"{hexs(b)}={t}" for b, t in table.items()) or "-",
                                      ",".join(f"{hexs(c)}={h}" for c, h in ht.items()) or "-", tree_tok_bytes(tree))
        im = f"exit={exit_tok} replies={'|'.join(toks)} tree={tree_tok_hash(after_cmp)}"
        ops.append(q); impl.append(im)
        rep = {"kind": kind, "session": desc, "stream_hex": stream.hex()[:600], "initial_tree": sorted(tree), "rc": rc, "stderr": err[-300:], "replies": toks}
        reps.append(rep)
        if len(res["samples"]) < 6:
            res["samples"].append({"kind": kind, "session": desc[:6], "replies": toks[:6], "rc": rc})
        # ---- oracles on the real server
        if rc == 0 and any(t in ("TRUNCATED-REPLY", "UNDECODABLE-REPLY", "UNKNOWN-REPLY") or t.endswith(":SHORT") for t in toks):
            # the session ended cleanly and yet its output is not a sequence of reply frames (seed C11-M / C10-M: a log line of the
            # server, enabled by RUST_LOG, written to stdout between the frames)
            res["violations"].append(("reply-stream-not-frames", f"copia serve exited 0 but its output is not a sequence of well-formed replies (RUST_LOG={[None, 'default', 'trace'][i % 3]})", dict(rep, stdout_hex=out[:300].hex())))
        if rc not in (0, 1):
            key = "server-timeout" if rc == "timeout" else "server-killed-by-signal"
            res["violations"].append((key, f"copia serve ended with {rc} on a {kind} input", rep))
        if (len(stream) < 6 or stream[:6] != MAGIC) and after != tree:
            res["violations"].append(("tree-changed-before-valid-prologue", "the served tree changed although no valid prologue was received", rep))
        if after_cmp != tree and not any(t.startswith(("put:", "delete:")) for t in table.values()):
            res["violations"].append(("tree-changed-without-mutating-request", "the served tree changed although no well-formed Put/Delete was received", rep))
    dec.close()
    return ops, impl, reps


# ---------------------------------------------------------------- C11
COMP11 = ["..", ".", "", "a", "b", "a..b", "..a", "c" * 300, "x y", "...", ".copia", ".copia", "commit.lock", ".copiax"]


def gen_path(rng):
    n = rng.range(1, 4)
    comps = [rng.pick(COMP11) for _ in range(n)]
    if rng.coin(1, 12):
        # a refused path longer than any sane request bound (tens of KiB, still far below the 1 MiB frame bound): the refusal of
        # a Put must still drain its content, and the connection must stay usable
        return "../" + "L" * rng.pick([70_000, 66_000, 200_000])
    if rng.coin(1, 4):
        # a long component of multi-byte characters behind 0–3 ASCII bytes: whatever clips, logs or echoes the path at a fixed
        # byte offset (64, 96, 128, 255, …) then falls inside a character for most lengths
        comps[rng.below(n)] = "x" * rng.below(4) + rng.pick(["é", "中", "𝄞"]) * rng.range(8, 140)
    sep = rng.pick(["/", "/", "//"])
    p = sep.join(comps)
    if rng.coin(1, 5):
        p = "/" + p
    if rng.coin(1, 5):
        p = p + "/"
    return p


STRACE_PATH_RE = re.compile(r'^\d+\s+(\w+)\((.*)$')


def trace_paths(trace_file):
    """-> list of (syscall, [string args]) from an strace -f -e trace=%file log"""
    out = []
    if not os.path.exists(trace_file):
        return out
    for ln in open(trace_file, errors="replace"):
        m = STRACE_PATH_RE.match(ln)
        if not m:
            continue
        # only calls that open, create, rename or remove (the property's verbs); stat-like probes are not counted
        if m.group(1) in ("execve", "stat", "lstat", "newfstatat", "statx", "access", "faccessat", "faccessat2", "readlink", "readlinkat", "getcwd", "chdir", "statfs"):
            continue
        # a call that failed opened/created/renamed/removed nothing (e.g. create_dir_all probing an existing parent with mkdir → EEXIST)
        if re.search(r"=\s+-1\s+E\w+", ln):
            continue
        args = re.findall(r'"((?:[^"\\]|\\.)*)"', m.group(2))
        out.append((m.group(1), [bytes(a, "utf-8").decode("unicode_escape", "replace").encode("latin-1", "replace").decode("utf-8", "replace") for a in args]))
    return out


def lex_resolve(path):
    st = []
    for c in path.split("/"):
        if c in ("", "."):
            continue
        if c == "..":
            if st:
                st.pop()
        else:
            st.append(c)
    return st


def refused_put_under_write_limit(res, count):
    """C11 "nothing is created for a refused path, the connection stays usable": a refused Put (`..`, absolute) carrying 3 MiB of
    content, sent to a hub whose file system takes no more than 1 MiB per file (`ulimit -f`, SIGXFSZ at its default: a process that
    tries to store the content dies). The content of a refused Put is to be read and dropped: `bad path`, then the next request
    is served, and no file — in the tree, under `.copia`, anywhere — holds the refused bytes (seed C11-N: content staged under
    `.copia/` BEFORE the path was examined)."""
    body = bytes((i * 7) % 251 for i in range(3 * 1024 * 1024))
    hb = bytes.fromhex(blake3_hex([body])[0])
    for p in ("../evil.bin", "/tmp/evil.bin", "zz/../../evil.bin"):
        with Sandbox("C11") as sb:
            root = sb.path("outer", "hub")
            os.makedirs(os.path.join(root, "zz")); open(os.path.join(root, "zz", "keep"), "wb").write(b"inside")
            stream = MAGIC + frame(req_hello()) + frame(req_put(p, None, len(body), hb)) + body + frame(req_get("zz/keep")) + frame(req_bye())
            rc, out, err = run_server(sb, root, stream, pre_extra="ulimit -f 1024; ", timeout=60)
            toks = parse_replies(out)
            files = []
            for d_, _, fns in os.walk(sb.path("outer")):
                for fn in fns:
                    fp = os.path.join(d_, fn)
                    if os.path.isfile(fp) and os.path.getsize(fp) > 100_000:
                        files.append((os.path.relpath(fp, sb.path("outer")), os.path.getsize(fp)))
        count("refused-put-under-write-limit")
        rep = {"path": p, "rc": rc, "stderr": err[-300:], "replies": [t[:60] for t in toks[:4]], "large_files_left": files}
        if rc != 0 or len(toks) != 3 or toks[1] != "error:bad_path" or not toks[2].startswith("content:6:"):
            res["violations"].append(("connection-unusable-after-request", f"a refused Put to {p!r} with 3 MiB of content, hub limited to 1 MiB files: ended with {rc}, replies {[t[:40] for t in toks[:4]]} (expected hello, bad path, the next Get's content)", rep))
        if files:
            res["violations"].append(("refused-content-stored", f"the content of the refused Put to {p!r} was written to disk: {files[:3]}", rep))


def run_c11(pid, tier, seed, rundir, model_run, res, count):
    rng = Rng(seed ^ 0xC11)
    refused_put_under_write_limit(res, count)
    n = 260 * (14 if tier == "thorough" else 1)
    ops, impl, reps = [], [], []
    # baseline: paths the runtime itself touches in a session without path-bearing requests
    with Sandbox("C11b") as sb:
        root = sb.path("outer", "hub")
        os.makedirs(root)
        tf = sb.path("trace.txt")
        run_server(sb, root, MAGIC + frame(req_hello()) + frame(req_bye()), strace_out=tf)
        baseline = {a for _, args in trace_paths(tf) for a in args}
    # fixed system paths the C library / the runtime may read LAZILY, at a moment that depends on scheduling (glibc sizes its malloc
    # arenas from the processor count the first time two threads contend; std's available_parallelism reads the cgroup limits): they
    # do not depend on any request and are absent from a quiet baseline session — seen as 252 false alarms under a loaded machine
    baseline |= {"/sys/devices/system/cpu/online", "/sys/devices/system/cpu", "/proc/stat", "/proc/cpuinfo", "/proc/self/cgroup", "/proc/self/mountinfo",
                 "/sys/fs/cgroup/cpu.max", "/proc/sys/vm/overcommit_memory", "/sys/kernel/mm/transparent_hugepage/enabled", "/proc/self/maps"}
    for i in range(n):
        paths = [gen_path(rng)]          # one path per session: two generated paths may clash as file/directory (outside the domain)
        if i % 9 == 4:
            # an ABSOLUTE path that names a place inside the served root (or its control directory): absolute is refused, wherever
            # it points (seed C11-K: the joined result was tested against the root instead of refusing rooted paths up front)
            paths = ["@ROOT@" + rng.pick(["/planted.txt", "/zz/keep", "/newdir/x", "/.copia/planted", "/.copia/commit.lock", "//zz/keep"])]
        p0 = paths[0]
        if (p0.startswith("/") or ".." in p0.split("/")) and ".copia" not in p0 and rng.coin(1, 2):
            # … except after a path that MUST be refused (nothing is created for it): the same refused directory again with
            # another leaf, back to back on the same connection — whatever the server remembered from the first refusal
            # (a cached directory, a half-built path) must not let the second one through
            d_ = p0.rsplit("/", 1)[0] + "/" if "/" in p0.rstrip("/") else ""
            paths.append((d_ or "../") + rng.pick(["sib", "secret.txt", "b"]))
        with Sandbox("C11") as sb:
            root = sb.path("outer", "hub")
            os.makedirs(os.path.join(root, "zz"))
            open(os.path.join(root, "zz", "keep"), "wb").write(b"inside")
            paths = [p_.replace("@ROOT@", root if i % 2 else "/" + root) for p_ in paths]
            sentinel = sb.path("outer", "secret.txt")
            open(sentinel, "wb").write(b"outside the root")
            open(sb.path("outer", "b"), "wb").write(b"outside too")
            before_out = {f: open(os.path.join(sb.path("outer"), f), "rb").read() for f in os.listdir(sb.path("outer")) if os.path.isfile(os.path.join(sb.path("outer"), f))}
            stream = MAGIC + frame(req_hello())
            after_hashes = []
            for p in paths:
                c = b"payload-" + p.encode()[:20]
                h = bytes.fromhex(blake3_hex([c])[0])
                c2 = b"loses the CAS-" + p.encode()[:20]
                h2 = bytes.fromhex(blake3_hex([c2])[0])
                # … and a Put with a STALE expectation: its bytes go to a conflict-copy name built from the path — inside the root too
                c3 = b"accepted whatever came before " + str(len(stream)).encode()
                h3 = bytes.fromhex(blake3_hex([c3])[0])
                stream += (frame(req_get(p)) + frame(req_put(p, None, len(c), h)) + c + frame(req_put(p, h2, len(c2), h2)) + c2
                           + frame(req_delete(p, h)) + frame(req_get("zz/keep")) + frame(req_put(f"zz/after{len(stream)}", None, len(c3), h3)) + c3)
                after_hashes.append(h3.hex())
            stream += frame(req_bye())
            tf = sb.path("trace.txt")
            # the hub account's logging configuration is not the client's business: refusals, commits and conflicts are answered
            # the same way with logging off, at its default and at its most verbose (seed C11-M: a debug event on the refusal path
            # went to stdout, the reply channel)
            rc, out, err = run_server(sb, root, stream, strace_out=tf, rust_log=[None, "trace", "default", "copia=debug"][i % 4])
            toks = parse_replies(out)
            tp = trace_paths(tf)
            after_out = {f: open(os.path.join(sb.path("outer"), f), "rb").read() for f in os.listdir(sb.path("outer")) if os.path.isfile(os.path.join(sb.path("outer"), f))}
            root_res = lex_resolve(root)
            rep = {"paths": paths, "rc": rc, "replies": toks[:20], "stderr": err[-300:]}
            escaped = []
            for sc, args in tp:
                for a in args:
                    if a in baseline or not a:
                        continue
                    full = a if a.startswith("/") else os.path.join(sb.dir, a)
                    r = lex_resolve(full)
                    if r[:len(root_res)] != root_res:
                        escaped.append(f"{sc}({a[:120]})")
            if escaped:
                res["violations"].append(("fs-call-outside-root", f"file-system calls of the server name paths outside the served directory: {escaped[:4]}", rep))
            if after_out != before_out:
                res["violations"].append(("file-outside-root-changed", "a file outside the served directory was created, changed or removed", rep))
            count("sessions")
            count("fs-calls-seen", len(tp))
            # replies: 6 per path (get, put, stale put, delete, get zz/keep, put zz/after…) after the hello
            body = toks[1:]
            for k, p in enumerate(paths):
                chunk = body[6 * k:6 * k + 6]
                if len(chunk) == 6 and chunk[5] != f"put:1:{after_hashes[k]}":
                    res["violations"].append(("following-request-answered-differently", f"after the requests for {p!r} an ordinary Put of a new file was answered {chunk[5]} (a fresh session answers put:1)", dict(rep, path=p, chunk=chunk)))
                chunk = chunk[:5]
                refused_real = (len(chunk) >= 4 and all(c == "error:bad_path" for c in chunk[:4]))
                any_refused = any(c == "error:bad_path" for c in chunk[:4])
                ops.append(f"safejoin {hexs(p)}")
                impl.append("refused" if refused_real else ("MIXED" if any_refused else "ok"))
                reps.append(dict(rep, path=p, chunk=chunk))
                first_name = next((c for c in p.split("/") if c not in ("", ".")), None)
                must_refuse = p.startswith("/") or ".." in p.split("/") or first_name == ".copia"
                count("path/" + ("must-refuse" if must_refuse else "must-accept"))
                if must_refuse and not refused_real:
                    res["violations"].append(("dotdot-or-absolute-not-refused", f"path {p!r} (absolute, with a '..' component, or inside the control directory) was not refused by all request kinds", dict(rep, path=p, chunk=chunk)))
                if len(chunk) == 5 and not chunk[4].startswith("content:6:"):
                    res["violations"].append(("connection-unusable-after-request", f"after the requests for {p!r} a plain Get zz/keep was answered {chunk[4]}", dict(rep, path=p, chunk=chunk)))
                if len(chunk) < 5 and rc not in (0,):
                    pass
    return ops, impl, reps


def run(pid, tier, seed, rundir, model_run):
    res = {"violations": [], "broken": [], "notes": [], "distribution": {}, "samples": []}
    dist = res["distribution"]

    def count(k, c=1):
        dist[k] = dist.get(k, 0) + c

    if pid == "C12":
        ops, impl, reps = run_c12(pid, tier, seed, rundir, model_run, res, count)
    elif pid == "C11":
        ops, impl, reps = run_c11(pid, tier, seed, rundir, model_run, res, count)
    else:
        raise ValueError(pid)
    with open(os.path.join(rundir, "ops.txt"), "w") as f:
        f.write("\n".join(ops) + ("\n" if ops else ""))
    model = model_run(os.path.join(rundir, "ops.txt"))
    ndis = 0
    res["disagreements"] = []
    for q, im, mo, rep in zip(ops, impl, model, reps):
        if pid == "C12":
            mm = re.match(r"exit=(\S+) maxalloc=(\d+) replies=(.*) tree=(\S+)$", mo or "")
            if not mm:
                ok = False
            else:
                mexit = "exit0" if mm.group(1) == "clean" else "exit1"
                ok = (im == f"exit={mexit} replies={mm.group(3)} tree={mm.group(4)}")
                if not ok and im.count("|") > mm.group(3).count("|") and "replies=" in im and im.split("replies=")[1].split(" tree=")[0]:
                    # the real server answered MORE requests than the byte stream frames: bytes that are not a
                    # request (Put content, or the rest of a stream the session should have abandoned) were interpreted
                    res["violations"].append(("stream-out-of-step", "the server answered more requests than the stream contains: content bytes / abandoned input were interpreted as requests", dict(rep, impl=im[:600], model=mo[:600])))
                if int(mm.group(2)) > MAX_FRAME:
                    res["violations"].append(("model-alloc-above-bound", "model reserved a control frame above 1 MiB", rep))
        else:
            ok = (im == (mo or "").split(" ")[0])
        if not ok:
            ndis += 1
            if len(res["disagreements"]) < 10:
                res["disagreements"].append(dict(rep, impl=im[:900], model=(mo or "")[:900]))
    if ndis or len(model) != len(ops):
        res["broken"].append(f"{pid}/corr: model and implementation disagree on {ndis} of {len(ops)} cases")
    res.update(evaluations=len(ops), distinct_nontrivial=len(set(ops)), n_disagreements=ndis, n_oracle_failures=len(res["violations"]),
               rule=("byte strings fed to a real `copia serve` under ulimit -v and a timeout: valid sessions over {Hello, List, Get, Put (right/wrong hash, refused path), Delete, Bye} and their "
                     "mutations (cut at a random point, banner before the magic, bit flip, length prefixes at/around 2^20 and 2^32-1, duplicated/reordered frames, garbage and hostile-CBOR bodies, frames padded beyond their CBOR item (incl. a smuggled Put frame as padding), "
                     "Put lengths above/below the content, partial magic, random bytes); replies, exit status and the resulting tree compared with the model. Distinct = distinct streams."
                     if pid == "C12" else
                     "path strings from components {.., ., empty, names, names containing .., 300-char names} × separators / and // × leading/trailing slash, one per session; each path is sent as Get, "
                     "Put (with content) and Delete to a real server under strace -f -e trace=%file; every path argument of every file-system call is resolved lexically and must lie under the served "
                     "directory (paths the runtime touches in a request-free baseline session excepted); sentinel files outside the root must be unchanged; refusal/acceptance compared with the model's safe_join."))
    return res
