#!/usr/bin/env python3
"""Write MANIFEST.json from tools/props.py (claimed checks) + the list of unclaimed properties."""
import json, os, sys
sys.path.insert(0, os.path.dirname(os.path.abspath(__file__)))
from props import PROPS, NOT_YET
V = os.path.dirname(os.path.dirname(os.path.abspath(__file__)))
ids = [json.loads(l)["id"] for l in open(os.path.join(V, "properties.jsonl"))]
checks = []
for pid in ids:
    if pid not in PROPS:
        continue
    c = PROPS[pid]
    checks.append({
        "property_id": pid,
        "quick_cmd": f"./check {pid} quick",
        "thorough_cmd": f"./check {pid} thorough",
        "evidence_file": f"/verif/evidence/{pid}.json",
        "replay_cmd_template": f"./check {pid} quick --replay {{path}}",
        "engine": "lean4-proof+correspondence",
        "level_claimed": {"category": "proof", "text": c["level_text"], "design_ref": c.get("design_ref", "DESIGN.md §5 " + pid)},
        "level_note": c["level_note"],
        "technique": c["technique"],
    })
m = {
    "version": 1,
    "setup_cmd": "./setup.sh",
    "hooks": {
        "guard": "copia_verif",
        "enable": "none needed: no hook commits exist; the checks build /repo's current tree unmodified (harness: path dependency + #[path] inclusion of the binary crate's sources; black-box: the real `copia` binary)",
        "baseline_off_cmd": "cd /repo && cargo test --workspace --no-fail-fast --offline",
        "source_commits": [],
        "add_only": True,
    },
    "engines": [{
        "name": "lean4-proof+correspondence", "path": "/verif/lean, /verif/harness, /verif/tools",
        "serves_properties": [c["property_id"] for c in checks],
        "kind_free_text": "Lean 4 theorems about hand-written executable models (lake project /verif/lean, kernel-checked, axioms audited), "
                          "tied to the Rust code on every run by a differential correspondence (Rust harness calling the real code in-process / "
                          "the real copia binary) plus a regenerated constants layer",
    }],
    "checks": checks,
    "notes": "Single entry point ./check <ID> quick|thorough. known_findings.txt lists recorded defects; replays/ holds replay files written on violations.",
    "not_applicable": [{"property_id": p, "reason": NOT_YET[p]} for p in ids if p not in PROPS],
}
json.dump(m, open(os.path.join(V, "MANIFEST.json"), "w"), indent=1, ensure_ascii=False)
print("checks:", [c["property_id"] for c in checks], "unclaimed:", [x["property_id"] for x in m["not_applicable"]])
