"""Syscall-level schedule control for N real `copia serve` processes (C03 / C10, tier 2).

Each server process runs one request under `LD_PRELOAD=.build/gate.so` (tools/gate/gate.c): before every
file-system call on the served tree (open incl. create/truncate of the staging file, the lock file and
the destination read, write to a staged file, rename, unlink, flock) it reports the call on a UNIX
socket and waits for one byte.  The controller lets exactly ONE process run at a time, so a schedule is
a deterministic total order of these calls across the processes — the granularity of the steps of the
Lean transition system `Copia.Model.HubConc` (createFresh/Trunc, write, lock, readCur, commit/conflict,
dUnlink, unlock, kill).  Schedules are enumerated CHESS-style (all schedules of two/three processes
with at most K preemptions) or drawn at random; a process can be SIGKILLed at any step.
"""
import os, select, signal, socket, subprocess, time

VERIF = os.path.dirname(os.path.dirname(os.path.abspath(__file__)))
GATE_SO = os.path.join(VERIF, ".build", "gate.so")
GATE_SRC = os.path.join(VERIF, "tools", "gate", "gate.c")


def build_gate():
    """(re)build the shim when missing or older than its source; returns an error string or None"""
    try:
        if os.path.exists(GATE_SO) and os.path.getmtime(GATE_SO) >= os.path.getmtime(GATE_SRC):
            return None
        os.makedirs(os.path.dirname(GATE_SO), exist_ok=True)
        r = subprocess.run(["cc", "-shared", "-fPIC", "-O2", "-o", GATE_SO + ".new", GATE_SRC, "-ldl"], capture_output=True, text=True)
        if r.returncode != 0:
            return "cc failed: " + r.stderr[-400:]
        os.replace(GATE_SO + ".new", GATE_SO)
        return None
    except OSError as e:
        return repr(e)


class Proc:
    def __init__(self, idx):
        self.idx = idx
        self.p = None
        self.conn = None
        self.buf = b""
        self.pending = None      # the gated call it is waiting to make (str) or None
        self.exited = False
        self.killed = False
        self.trace = []          # calls it was allowed to make
        self.first_go = None
        self.end = None


class GatedRun:
    """One schedule-controlled execution.  `requests[i]` = bytes for server i's stdin (prologue + frames)."""

    def __init__(self, cli, env, cwd, root, requests, rundir, timeout=15.0):
        self.root, self.timeout = root, timeout
        self.sockpath = os.path.join(rundir, "gate.sock")
        if os.path.exists(self.sockpath):
            os.unlink(self.sockpath)
        self.lsock = socket.socket(socket.AF_UNIX, socket.SOCK_STREAM)
        self.lsock.bind(self.sockpath)
        self.lsock.listen(16)
        self.procs = [Proc(i) for i in range(len(requests))]
        self.holder = None
        self.step = 0
        self.events = []         # (step, proc, call)
        self.stuck = None
        for i, req in enumerate(requests):
            inp = os.path.join(rundir, f"in{i}.bin")
            with open(inp, "wb") as f:
                f.write(req)
            e = dict(env, LD_PRELOAD=GATE_SO, COPIA_GATE_SOCK=self.sockpath, COPIA_GATE_ROOT=root, COPIA_GATE_ID=str(i))
            self.procs[i].out = os.path.join(rundir, f"out{i}.bin")
            self.procs[i].p = subprocess.Popen([cli, "serve", root], stdin=open(inp, "rb"), stdout=open(self.procs[i].out, "wb"),
                                               stderr=subprocess.PIPE, env=e, cwd=cwd)
        self._settle()

    # ---- plumbing
    def _accept(self, wait):
        r, _, _ = select.select([self.lsock], [], [], wait)
        if not r:
            return False
        c, _ = self.lsock.accept()
        c.setblocking(False)
        # read the hello line
        end = time.time() + 5
        b = b""
        while b"\n" not in b and time.time() < end:
            rr, _, _ = select.select([c], [], [], 0.5)
            if rr:
                ch = c.recv(256)
                if not ch:
                    break
                b += ch
        line, _, rest = b.partition(b"\n")
        try:
            idx = int(line.split()[1])
        except (IndexError, ValueError):
            c.close()
            return True
        self.procs[idx].conn = c
        self.procs[idx].buf = rest
        return True

    def _poll_msg(self, pr, wait):
        """fill pr.pending from its socket, or mark it exited; returns True when its state is known"""
        end = time.time() + wait
        while True:
            if b"\n" in pr.buf:
                line, _, pr.buf = pr.buf.partition(b"\n")
                pr.pending = line.decode("utf-8", "replace")
                return True
            if pr.conn is None:
                if pr.p.poll() is not None:
                    pr.exited = True
                    return True
                self._accept(0.02)
                if time.time() > end:
                    return False
                continue
            r, _, _ = select.select([pr.conn], [], [], max(0.0, min(0.05, end - time.time())))
            if r:
                try:
                    ch = pr.conn.recv(65536)
                except BlockingIOError:
                    ch = None
                if ch == b"":
                    # connection closed: the process is exiting
                    try:
                        pr.p.wait(timeout=self.timeout)
                    except subprocess.TimeoutExpired:
                        return False
                    pr.exited = True
                    return True
                if ch:
                    pr.buf += ch
                    continue
            if pr.p.poll() is not None and b"\n" not in pr.buf:
                pr.exited = True
                return True
            if time.time() > end:
                return False

    def _settle(self):
        """wait until every process is at a gate or has exited"""
        for pr in self.procs:
            if pr.exited or pr.pending is not None:
                continue
            if not self._poll_msg(pr, self.timeout):
                self.stuck = f"process {pr.idx} neither reached a gated call nor exited within {self.timeout}s"
            if pr.exited and pr.end is None:
                pr.end = self.step
                if self.holder == pr.idx:
                    self.holder = None

    # ---- scheduling interface
    def enabled(self):
        out = []
        for pr in self.procs:
            if pr.exited or pr.pending is None:
                continue
            if pr.pending.startswith("blocked") and self.holder is not None and self.holder != pr.idx:
                continue
            out.append(pr.idx)
        return out

    def live(self):
        return [pr.idx for pr in self.procs if not pr.exited]

    def go(self, i):
        """let process i perform its pending call and run to its next gate (or exit)"""
        pr = self.procs[i]
        call = pr.pending
        pr.pending = None
        pr.trace.append(call)
        self.events.append((self.step, i, call))
        if pr.first_go is None:
            pr.first_go = self.step
        self.step += 1
        try:
            pr.conn.send(b"g")
        except OSError:
            pass
        if not self._poll_msg(pr, self.timeout):
            self.stuck = f"process {i} did not come back after `{call}` within {self.timeout}s"
            return call
        kind = call.split(" ", 1)[0]
        if kind in ("lock", "blocked"):
            if not (pr.pending or "").startswith("blocked"):
                self.holder = i
        elif kind == "unlock":
            if self.holder == i:
                self.holder = None
        if pr.exited:
            pr.end = self.step - 1       # the step of its last call
            if self.holder == i:
                self.holder = None
        return call

    def kill(self, i):
        pr = self.procs[i]
        pr.killed = True
        self.events.append((self.step, i, "KILL"))
        self.step += 1
        try:
            pr.p.send_signal(signal.SIGKILL)
            pr.p.wait(timeout=5)
        except Exception:
            pass
        pr.exited = True
        pr.pending = None
        pr.end = self.step
        if self.holder == i:
            self.holder = None

    def finish(self):
        for pr in self.procs:
            if not pr.exited:
                try:
                    pr.p.kill(); pr.p.wait(timeout=5)
                except Exception:
                    pass
            try:
                if pr.conn:
                    pr.conn.close()
            except Exception:
                pass
            try:
                pr.stderr = pr.p.stderr.read().decode("utf-8", "replace")[-400:]
            except Exception:
                pr.stderr = ""
        self.lsock.close()
        try:
            os.unlink(self.sockpath)
        except OSError:
            pass


def preemption_bounded(nprocs, lens_hint, bound):
    """Schedules as 'policies': a list of (switch_after_k_calls) decisions.  A policy is a list of
    (proc, quota) segments: run `proc` for `quota` gated calls (or until it blocks / exits), then the
    next segment; when the segments are used up, run the lowest enabled process to completion.
    Enumerates all segment lists with at most `bound` preemptive switches for `nprocs` ≤ 3."""
    pols = []
    procs = list(range(nprocs))
    def rec(prefix, left):
        pols.append(list(prefix))
        if left == 0:
            return
        for p in procs:
            if prefix and prefix[-1][0] == p:
                continue
            for q in range(1, lens_hint + 1):
                rec(prefix + [(p, q)], left - 1)
    for p in procs:
        for q in range(1, lens_hint + 1):
            rec([(p, q)], bound)
    # de-duplicate
    seen, out = set(), []
    for pl in pols:
        t = tuple(pl)
        if t not in seen:
            seen.add(t); out.append(pl)
    return out


def drive(run, policy=None, rng=None, kill_at=None, on_step=None, max_steps=400):
    """Run to completion under a policy (list of (proc, quota)) or at random."""
    seg = list(policy or [])
    cur, quota = (seg.pop(0) if seg else (None, 0))
    while run.stuck is None and run.step < max_steps:
        en = run.enabled()
        if not en:
            if not run.live():
                break
            # nobody enabled but processes alive: all blocked on a lock nobody holds → deadlock
            run.stuck = "all live processes are blocked"
            break
        if kill_at is not None and run.step == kill_at[0] and kill_at[1] in run.live():
            run.kill(kill_at[1])
            if on_step:
                on_step(run)
            continue
        if rng is not None and policy is None:
            i = en[rng.below(len(en))]
        else:
            while True:
                if cur is not None and quota > 0 and cur in en:
                    i = cur
                    quota -= 1
                    break
                if seg:
                    cur, quota = seg.pop(0)
                    continue
                i = en[0]
                break
        run.go(i)
        if on_step:
            on_step(run)
    return run
