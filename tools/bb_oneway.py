"""C04 / C14 (and the CLI part of C15) — black-box correspondence + oracles for `copia sync -r`.

Directions: local→local, push (local→host:path) and pull (host:path→local) through the SSH stand-in.
Each real run becomes one model query `ow <del> <excludes> <S> <D>`; the model's predicted
destination tree (content, size, whole-second mtime) and plan are compared with what the real run
left behind and printed.
"""
import os, re, shutil, subprocess
from bbox import Sandbox, Rng, hexs, HOST, CLI_BIN

NAMES = ["a", "b.txt", "sp ace", "quo'te", "the 'final' draft", "''", "a'b'c.txt", "it\\'s", "x\\", "\\'\\'", 'dq"uote', "back\\slash", "dol$lar", "st*ar", "qm?ark", "-dash", "unié中",
         "notes..old", "v1..v2.diff", "..hidden", "trail..", "new\nline", "tab\tname", "semi;colon", "amp&ersand", "paren(s)", "a.copia", "x.tmp", "[br]", "~tilde", "#hash", "%p", "$(echo x)", "`bt`", ".tmp", ".env", "prod.env", "star", "stXXar", "qmaark", "[br", "b",
         "C:\\temp\\new.txt", "old\\backup.dat", "dbl\\\\back", "oct\\101",
         "trail-sp ", "trail-nl\n", " lead-sp"]     # (seed C14-P) backslash + a letter bash's $'…' decodes; (seed C19-P) names ending or starting in white space
DIRS = ["", "d", "d/e", "sp dir", "q'd", "q'd'q", "d.d", "-x", ".tmp"]
EXCL = ["*.tmp", "d", "d/*", "sp*", "*'*", "a", "?", "x.tmp/", "*\\*", "d/e/", "b.txt", "*.env", "*.tmp"]
CONTENT = [b"", b"x", b"hello\n", b"A" * 1000, b"\x00\x01\x02", b"line1\nline2\n", bytes(range(256)) * 20]


def gen_tree(rng, nmax, base=None, allow_newline=True):
    t = {}
    n = rng.range(0, nmax)
    for _ in range(n):
        d = rng.pick(DIRS)
        nm = rng.pick(NAMES)
        if not allow_newline and ("\n" in nm):
            continue
        rel = (d + "/" if d else "") + nm
        # never create a file where a directory of the same name is needed (file/dir clash: outside the domain)
        if any(k.startswith(rel + "/") or rel.startswith(k + "/") for k in t):
            continue
        mt = rng.pick([0, 1, 1_000_000_000, 1_700_000_000, 10_000_000_000, rng.below(2_000_000_000), -1, -5, -100 - rng.below(10_000)])
        ns = rng.pick([0, 0, 500_000_000, 999_999_999, 1])
        t[rel] = (rng.pick(CONTENT), mt, ns)
    return t


def derive_dst(rng, src):
    """destination states per file: absent / same size+mtime / different size / different mtime, plus stale extras"""
    d = {}
    for rel, (data, mt, ns) in src.items():
        r = rng.below(5)
        if r == 0:
            continue
        if r == 1:
            d[rel] = (data, mt, rng.pick([0, ns, 123]))                 # quick check matches (sub-second may differ)
        elif r == 2:
            d[rel] = (data + b"!", mt, ns)                              # different size
        elif r == 3:
            d[rel] = (data, mt + rng.pick([1, -1 if mt > 0 else 1, 3600]), ns)   # different mtime
        else:
            d[rel] = (bytes(reversed(data)) if len(data) > 1 else data, mt, ns)  # same size+mtime, other bytes: must be left alone
    extra = gen_tree(rng, 3)
    for rel, v in extra.items():
        if rel not in src and not any(k.startswith(rel + "/") or rel.startswith(k + "/") for k in list(d) + list(src)):
            d[rel] = v
    return d


def write_tree(root, tree):
    os.makedirs(root, exist_ok=True)
    for rel, (data, mt, ns) in tree.items():
        p = os.path.join(root, rel)
        os.makedirs(os.path.dirname(p), exist_ok=True)
        with open(p, "wb") as f:
            f.write(data)
        os.utime(p, ns=(mt * 10 ** 9 + ns, mt * 10 ** 9 + ns))


def read_tree(root):
    out = {}
    if not os.path.isdir(root):
        return out
    for d, _, files in os.walk(root):
        for fn in files:
            p = os.path.join(d, fn)
            if os.path.islink(p) or not os.path.isfile(p):
                continue
            st = os.stat(p)
            out[os.path.relpath(p, root)] = (open(p, "rb").read(), st.st_mtime_ns // 10 ** 9, st.st_mtime_ns % 10 ** 9)
    return out


def tree_tok(tree, cid):
    if not tree:
        return "-"
    # component-wise path order, as the driver prints
    return ";".join(f"{hexs(p)}={cid(v[0])}:{len(v[0])}:{v[1]}:{v[2]}" for p, v in sorted(tree.items(), key=lambda kv: kv[0].split("/")))


def list_tok(xs):
    return "-" if not xs else ",".join("~" if x == "" else hexs(x) for x in xs)


def run_case(sb, rng, direction, src, dst, flags, count, dry=False):
    """returns (rc, stdout, stderr, src_after, dst_after)"""
    sroot, droot = sb.path("src"), sb.path("dst")
    for r in (sroot, droot):
        shutil.rmtree(r, ignore_errors=True)
    if direction == "local":
        write_tree(sroot, src); write_tree(droot, dst)
        sarg, darg = sroot, droot
    elif direction == "push":
        droot = os.path.join(sb.home, "rdst")
        shutil.rmtree(droot, ignore_errors=True)
        write_tree(sroot, src); write_tree(droot, dst)
        sarg, darg = sroot, f"{HOST}:rdst"
    else:
        sroot = os.path.join(sb.home, "rsrc")
        shutil.rmtree(sroot, ignore_errors=True)
        write_tree(sroot, src); write_tree(droot, dst)
        sarg, darg = f"{HOST}:rsrc", droot
    args = ["sync", "-r", sarg, darg] + flags + (["--dry-run"] if dry else [])
    rc, out, err = sb.run(args, timeout=120)
    return rc, out.decode("utf-8", "replace"), err.decode("utf-8", "replace"), read_tree(sroot), read_tree(droot), sroot, droot


QUOTE_ALPHA = ["\\", "\\", "'", "'", '"', "$", "`", ";", "n", "t", "x", "0", "7", "u", "c", "e", " ", "\n", "\t", "é", "a", "?", "&", "|", "(", "*"]


def bash_ansi_c(word_body):
    """What real bash makes of $'<word_body>' (None if bash rejects the script)."""
    import subprocess, tempfile
    with tempfile.NamedTemporaryFile("wb", suffix=".sh", dir="/var/tmp", delete=False) as f:
        f.write(b"printf '%s' $'" + word_body.encode("utf-8", "surrogateescape") + b"'\n")
        name = f.name
    try:
        r = subprocess.run(["bash", "--norc", "--noprofile", name], capture_output=True, timeout=20, env={"LC_ALL": "C.UTF-8", "PATH": "/usr/bin:/bin"})
    finally:
        os.unlink(name)
    if r.returncode != 0 or r.stderr:
        return None
    return r.stdout


def quoting_section(rng, thorough, rundir, model_run, res, count):
    """Model `escape` / `ansiC` against real bash: (1) bash decodes the model's escaping of s back to s, for
    hostile s; (2) the model's scanner and bash agree on arbitrary quoted words (escaped or not)."""
    def hx(b):
        return b.hex() if b else "-"
    strings = ["a", "it's", "back\\slash", "end\\", "'", "\\'", "\\\\'", "a'; rm -rf $HOME #", "$(id)", "`id`", "new\nline", "tab\there",
               "q\\n", "\\x41", "\\101", "\\u00e9", "\\cA", "é'é", "''", "\\\\", "a b", "-rf", "*?[a]"]
    for _ in range(600 if thorough else 120):
        strings.append("".join(rng.pick(QUOTE_ALPHA) for _ in range(rng.range(1, 10))))
    raws = ["".join(rng.pick(QUOTE_ALPHA) for _ in range(rng.range(1, 9))) for _ in range(1500 if thorough else 250)]
    ops = [f"escape {hx(s.encode())}" for s in strings] + [f"ansic {hx((r + chr(39)).encode())}" for r in raws]
    path = os.path.join(rundir, "quote", "ops.txt")
    os.makedirs(os.path.dirname(path), exist_ok=True)
    with open(path, "w") as f:
        f.write("\n".join(ops) + "\n")
    model = model_run(path)
    dis = 0
    if len(model) != len(ops):
        res["broken"].append("C04/corr/quote: model driver answered %d of %d quoting queries" % (len(model), len(ops)))
        return len(ops), 1
    for s, mo in zip(strings, model[:len(strings)]):
        esc = b"" if mo == "-" else bytes.fromhex(mo)
        got = bash_ansi_c(esc.decode("utf-8"))
        count("quote/escape-roundtrip-through-real-bash")
        if got != s.encode():
            dis += 1
            res["violations"].append(("quoting-roundtrip-real-bash", f"bash decodes $'{esc!r}' (the escaping of {s!r}) to {got!r}", {"string": s, "escaped_hex": mo}))
    for r, mo in zip(raws, model[len(strings):]):
        if mo == "NONE":
            count("quote/scanner-outside-model-or-unterminated")
            continue
        d, rest = mo.split(" ")
        if rest != "-":
            count("quote/scanner-closed-early(not-run-in-bash)")
            continue
        got = bash_ansi_c(r)
        count("quote/scanner-vs-real-bash")
        want = b"" if d == "-" else bytes.fromhex(d)
        if got != want:
            dis += 1
            if len(res.setdefault("disagreements", [])) < 10:
                res["disagreements"].append({"query": "ansic " + repr(r), "impl": repr(got), "model": repr(want)})
    if dis:
        res["broken"].append(f"C04/corr/quote: model of bash ANSI-C quoting and real bash disagree on {dis} words")
    return len(ops), dis


LOC_STRINGS = ["vh:rdst", "vh:r:d", "vh:", "vh:~/x", "vh:sp ace/q'x", "v:rdst", "C:", "C:/x", "é:x", "ab:cd:ef", "./a:b", "a/b:c", "a\\b:c", ":x", "plain", "d/plain",
               "host.example:dir/sub", "user@host:dir", "vh:dir/with:colon", "ab", "a:", "::", "x/:y", "vh:\\back'slash"]


def _unescape_ansi(esc):
    out, i = "", 0
    while i < len(esc):
        if esc[i] == "\\" and i + 1 < len(esc) and esc[i + 1] in "\\'":
            out += esc[i + 1]; i += 2
        else:
            out += esc[i]; i += 1
    return out


def remote_failure_section(rng, thorough, res, count):
    """C04, push: ONE stage of the remote command of ONE file fails (the rename or the mtime stamp: a full disk, a read-only
    directory — injected by tools/failshim in front of the remote PATH). The run may exit 0 only if every planned file is
    byte-identical at the destination and carries the source's mtime; a file it could not deliver must be reported."""
    shim = os.path.join(os.path.dirname(os.path.abspath(__file__)), "failshim")
    names = ["a.txt", "small file.txt", "d/n.txt", "d/e/deep.bin"]
    n = 0
    for tool in ("mv", "touch"):
        for vi in range(len(names) if thorough else 2):
            victim = names[(vi + (0 if tool == "mv" else 1)) % len(names)]
            for jobs in (["--jobs", "1"], ["--jobs", "4"]):
                src = {nm: (b"new " + nm.encode() * rng.range(1, 40), 1_650_000_000 + 7 * k, 0) for k, nm in enumerate(names)}
                dst = {nm: (b"old", 1_500_000_000, 0) for nm in names if rng.coin(2, 3) or nm == victim}
                with Sandbox("C04rf") as sb:
                    sb.env["PATH"] = shim + ":" + sb.env["PATH"]
                    sb.env["FAILSHIM_TOOL"] = tool
                    sb.env["FAILSHIM_MATCH"] = os.path.basename(victim)
                    rc, out, err, s1, d1, sroot, droot = run_case(sb, rng, "push", src, dst, jobs, count)
                    n += 1
                    count(f"remote-failure/{tool}")
                    rep = {"direction": "push", "flags": jobs, "failing_remote_tool": tool, "for_file": victim, "rc": rc, "stderr": err[-400:], "stdout": out[-300:]}
                    wrong = sorted(nm for nm in names if d1.get(nm, (None, None, None))[:2] != src[nm][:2])
                    if rc == 0 and wrong:
                        res["violations"].append(("exit-0-but-planned-file-not-delivered", f"the remote `{tool}` for {victim} failed; copia exited 0 although {wrong} do not hold the source's bytes and mtime", rep))
                    others = [nm for nm in names if nm != victim and d1.get(nm, (None, None, None))[:2] != src[nm][:2]]
                    if others:
                        res["violations"].append(("other-planned-files-not-delivered", f"one remote failure (for {victim}) kept {others} from being delivered", rep))
                    if rc != 0 and os.path.basename(victim) not in err + out:
                        res["violations"].append(("failed-file-not-reported", f"the run failed (rc {rc}) without naming {victim}", rep))
    # a source FILE where the destination holds a non-empty DIRECTORY of that name (trees of regular files, any nesting): the file
    # cannot be delivered; the run may not exit 0 (D20: the remote `mv` moved the staged file INTO the directory and succeeded)
    for direction in ("push", "local", "pull"):
        src = {"d": (b"a file named d", 1_650_000_000, 0), "e.txt": (b"ordinary", 1_650_000_001, 0)}
        dst = {"d/inner.txt": (b"inside the directory d", 1_500_000_000, 0)}
        with Sandbox("C04rf") as sb:
            rc, out, err, s1, d1, sroot, droot = run_case(sb, rng, direction, src, dst, ["--jobs", "1"], count)
            n += 1
            count(f"file-vs-directory/{direction}")
            rep = {"direction": direction, "src": sorted(src), "dst": sorted(dst), "rc": rc, "stderr": err[-300:], "after": sorted(d1)}
            if rc == 0 and d1.get("d", (None,))[0] != src["d"][0]:
                res["violations"].append(("exit-0-but-planned-file-not-delivered", f"source file d vs destination directory d/: copia exited 0, destination now holds {sorted(d1)}", rep))
            if d1.get("d/inner.txt", (None,))[0] != dst["d/inner.txt"][0]:
                res["violations"].append(("file-outside-plan-changed", "d/inner.txt is not in the plan and was changed or removed", rep))
    # the reverse clash under `--delete` with a whole-path exclude: the destination holds a FILE `conf/site` that is excluded,
    # the source a directory `conf/site/` with a file to send. Whatever the run makes of the clash, the excluded file is protected.
    for direction in ("local", "pull", "push"):
        for pat in ("conf/site", "conf/?ite", "*/site"):
            src = {"conf/site/child.txt": (b"needs a directory", 1_650_000_000, 0), "e.txt": (b"ordinary", 1_650_000_001, 0)}
            dst = {"conf/site": (b"excluded destination file", 1_500_000_000, 0), "stale.txt": (b"stale", 1_500_000_000, 0)}
            with Sandbox("C04rf") as sb:
                flags = ["--delete", "--exclude", pat]
                rc0, out0, err0, s0, d0, sroot, droot = run_case(sb, rng, direction, src, dst, flags, count, dry=True)
                rc, out, err, s1, d1, sroot, droot = run_case(sb, rng, direction, src, dst, flags, count)
                n += 1
                count(f"excluded-file-vs-directory/{direction}")
                rep = {"direction": direction, "flags": flags, "src": sorted(src), "dst": sorted(dst), "rc": rc, "stderr": err[-300:], "after": sorted(d1)}
                if d1.get("conf/site", (None,))[0] != dst["conf/site"][0]:
                    res["violations"].append(("excluded-destination-file-removed", f"destination file conf/site matches --exclude {pat} and was removed or replaced (rc {rc})", rep))
                if d0 != {k: v for k, v in dst.items()}:
                    res["violations"].append(("dry-run-modified-destination", "the dry run changed the destination", rep))
    # push --delete with a LONG delete list (> 64 KiB of names) next to an excluded file whose name is a prefix of a stale one:
    # every stale file goes, nothing else does — however the list is cut up on its way to the remote `xargs`
    for pad in (0, 1, 7):
        src = {"keep.txt": (b"kept", 1_650_000_000, 0)}
        dst = {"keep.txt": (b"kept", 1_650_000_000, 0), "data/file.bin": (b"excluded, must stay", 1_500_000_000, 0),
               "data/file.bin.old": (b"stale", 1_500_000_000, 0), "data/file.bin" + "x" * pad + ".bak": (b"stale too", 1_500_000_000, 0)}
        for i in range(1100):
            dst[f"stale/{i:04d}-" + "n" * 50 + ".tmp"] = (b"x", 1_500_000_000, 0)
        with Sandbox("C04rf") as sb:
            rc, out, err, s1, d1, sroot, droot = run_case(sb, rng, "push", src, dst, ["--delete", "--exclude", "*.bin"], count)
            n += 1
            count("long-delete-list/push")
            left = sorted(k for k in d1 if k not in ("keep.txt", "data/file.bin"))
            rep = {"direction": "push", "flags": ["--delete", "--exclude", "*.bin"], "stale_names": len(dst) - 2, "rc": rc, "stderr": err[-300:], "left_over": left[:5]}
            if "data/file.bin" not in d1:
                res["violations"].append(("excluded-destination-file-removed", "push --delete with a long delete list removed the excluded data/file.bin", rep))
            if rc == 0 and left:
                res["violations"].append(("planned-delete-not-performed", f"push --delete exited 0 and left {len(left)} stale file(s) behind, e.g. {left[:2]}", rep))
    # the remote account has CDPATH set (and a directory of the root's name under it): the listing must be that of the root given
    for direction in ("pull", "push"):
        src = {"a.txt": (b"first in the listing", 1_650_000_000, 0), "b.txt": (b"second", 1_650_000_001, 0), "sub/c.txt": (b"third", 1_650_000_002, 0)}
        dst = {"b.txt": (b"older b", 1_500_000_000, 0), "stale.txt": (b"stale", 1_500_000_000, 0)}
        with Sandbox("C04rf") as sb:
            decoy = sb.path("decoy"); os.makedirs(os.path.join(decoy, "rsrc")); os.makedirs(os.path.join(decoy, "rdst"))
            open(os.path.join(decoy, "rsrc", "wrong.txt"), "wb").write(b"not the tree"); open(os.path.join(decoy, "rdst", "wrong.txt"), "wb").write(b"not the tree")
            sb.env["CDPATH"] = decoy + ":."
            rc, out, err, s1, d1, sroot, droot = run_case(sb, rng, direction, src, dst, ["--delete"], count)
            n += 1
            count(f"remote-cdpath/{direction}")
            rep = {"direction": direction, "remote CDPATH": "<decoy>:.", "rc": rc, "stderr": err[-300:], "after": sorted(d1)}
            want = {k: v[:2] for k, v in src.items()}
            if rc == 0 and {k: v[:2] for k, v in d1.items()} != want:
                res["violations"].append(("exit-0-but-destination-ne-source", f"with CDPATH set in the remote account the run exited 0 and the destination holds {sorted(d1)} (source: {sorted(src)})", rep))
    return n


def write_limit_section(rng, thorough, res, count):
    """C04, pull and local: the DESTINATION refuses bytes (a quota or a full disk, stood in for by `ulimit -f`: a write that would
    grow a file past the limit fails with EFBIG once SIGXFSZ is ignored). Whatever chunk of whatever file the refusal hits — the
    last chunk of a file included, whose result only a flush collects — the run may exit 0 only if every source file is
    byte-identical at the destination (seed C04-M: the pull path waited for its last write with `sync_all`, which parks that
    write's error)."""
    n = 0
    sizes = [300, 40_000, 20_000, 10, 65_536, 9_000]
    names = ["a.txt", "big.bin", "d/c.bin", "d/s.txt", "d/e/p.bin", "m.bin"]
    for direction in ("pull", "local"):
        for limit_kib in ((4, 16, 48) if thorough else (16, 48)):
            src = {nm: bytes((7 * k + j) % 251 for j in range(sz)) for k, (nm, sz) in enumerate(zip(names, sizes))}
            for jobs in (["--jobs", "1"], ["--jobs", "3"]):
                with Sandbox("C04wl") as sb:
                    sroot = os.path.join(sb.home, "rsrc") if direction == "pull" else sb.path("src")
                    droot = sb.path("dst")
                    sb.write_tree(sroot, src); os.makedirs(droot)
                    if rng.coin(1, 2):
                        sb.write_tree(droot, {"big.bin": b"old", "d/c.bin": b"old c"})
                    prefix = ["bash", "-c", f"trap '' XFSZ; ulimit -f {limit_kib}; exec \"$@\"", "sh"]
                    rc, out, err = sb.run(["sync", "-r"] + jobs + [f"{HOST}:rsrc" if direction == "pull" else sroot, droot], timeout=120, prefix=prefix)
                    out, err = out.decode("utf-8", "replace"), err.decode("utf-8", "replace")
                    got = sb.read_tree(droot)
                    n += 1
                    count(f"destination-write-limit/{direction}")
                    wrong = sorted(nm for nm in names if got.get(nm) != src[nm])
                    over = sorted(nm for nm, sz in zip(names, sizes) if sz > limit_kib * 1024)
                    rep = {"direction": direction, "flags": jobs, "file_size_limit_kib": limit_kib, "files_over_the_limit": over, "rc": rc,
                           "stdout": out[-300:], "stderr": err[-400:], "not_delivered": wrong,
                           "destination_sizes": {nm: (len(got[nm]) if nm in got else None) for nm in wrong}}
                    if rc == 0 and wrong:
                        res["violations"].append(("exit-0-but-planned-file-not-delivered", f"{direction}: the destination refused writes beyond {limit_kib} KiB; copia exited 0 although {wrong} do not hold the source's bytes", rep))
                    if rc != 0 and not err.strip() and "failed" not in out.lower():
                        res["violations"].append(("failed-without-report", f"the run failed (rc {rc}) at a destination write limit without reporting an error", rep))
                    if rc == 0 and over and not wrong:
                        count("destination-write-limit/limit-not-hit")
    return n


def many_failures_section(thorough, res, count):
    """C04 "exits successfully ⇒ every planned file is byte-identical at the destination": N planned files each of whose destination
    name is occupied by a directory (the final rename fails), for N around the values at which a status derived from a COUNT wraps
    in the 8 bits the OS keeps — 1, 255, 256, 257, 512 (thorough: also 65 536, local) — beside one file that can be delivered
    (seed C04-P: `exit(failed as i32)`, so exactly 256 failures exited 0)."""
    for direction in ("local", "pull"):
        for n in (1, 255, 256, 257, 512) + ((65536,) if thorough and direction == "local" else ()):
            with Sandbox("C04mf") as sb:
                sroot = os.path.join(sb.home, "rsrc") if direction == "pull" else sb.path("src")
                droot = sb.path("dst")
                os.makedirs(sroot); os.makedirs(droot)
                for i in range(n):
                    with open(os.path.join(sroot, f"f{i:05d}"), "wb") as fh:
                        fh.write(b"x%d\n" % i)
                    os.makedirs(os.path.join(droot, f"f{i:05d}", "occupied"))
                with open(os.path.join(sroot, "ok.txt"), "wb") as fh:
                    fh.write(b"deliverable\n")
                rc, out, err = sb.run(["sync", "-r", "--jobs", "8", f"{HOST}:rsrc" if direction == "pull" else sroot, droot], timeout=900)
                out, err = out.decode("utf-8", "replace"), err.decode("utf-8", "replace")
                count(f"many-failures/{direction}/{n}")
                undelivered = 0
                for i in range(n):
                    p = os.path.join(droot, f"f{i:05d}")
                    if not os.path.isfile(p) or open(p, "rb").read() != b"x%d\n" % i:
                        undelivered += 1
                rep = {"direction": direction, "planned_files_whose_name_is_a_directory_at_the_destination": n, "rc": rc, "undelivered": undelivered,
                       "stdout": out[-300:], "stderr": err[-300:]}
                if rc == 0 and undelivered:
                    res["violations"].append(("exit-0-but-planned-file-not-delivered", f"{direction}: {undelivered} of {n + 1} planned files could not be delivered (their destination names are directories) and copia exited 0", rep))
                if rc != 0 and not err.strip() and "failed" not in out.lower():
                    res["violations"].append(("failed-without-report", f"the run failed (rc {rc}) on {n} undeliverable files without reporting an error", rep))


def big_listing_section(res, count):
    """C14 / C19 / C04: a remote listing far larger than one pipe read (≈ 300 KiB), whose names consist almost entirely of 4-byte
    UTF-8 characters: wherever the listing is cut into reads, a cut falls inside a character. Both trees hold the same files with the
    same sizes and mtimes, so the plan of a push and of a pull must be empty — a listing decoded read by read (seed C14-M: lossy
    UTF-8 decoding per 64 KiB chunk) turns the names at the cuts into other names: phantom files, re-sent on every run."""
    n_files = 1100
    names = []
    for i in range(n_files):
        stem = "".join(chr(0x1F300 + (i * 7 + j * 13) % 700) for j in range(52))
        names.append((f"d{i % 3}/" if i % 4 == 0 else "") + stem + f"{i:04d}")
    tree = {nm: (b"%05d" % i, 1_650_000_000 + i) for i, nm in enumerate(names)}
    for direction in ("push", "pull"):
        with Sandbox("C14big") as sb:
            loc, rem = sb.path("loc"), os.path.join(sb.home, "rem")
            sb.write_tree(loc, tree); sb.write_tree(rem, tree)
            args = ["sync", "-r", "--dry-run", "--delete"] + ([loc, f"{HOST}:rem"] if direction == "push" else [f"{HOST}:rem", loc])
            rc, out, err = sb.run(args, timeout=180)
            out, err = out.decode("utf-8", "replace"), err.decode("utf-8", "replace")
            m = re.search(r"Plan: (\d+) to transfer, (\d+) unchanged \(skipped\), (\d+) to delete", err + out)
            count(f"big-multibyte-listing/{direction}")
            rep = {"direction": direction, "files": n_files, "listing_bytes_about": sum(len(nm.encode()) + 30 for nm in names), "rc": rc,
                   "plan": m.group(0) if m else None, "stderr": err[-300:], "stdout": out[:300]}
            if rc != 0 or not m:
                res["violations"].append(("large-listing-run-failed", f"{direction} --dry-run over two identical trees of {n_files} files failed (rc {rc})", rep))
            elif (int(m.group(1)), int(m.group(2)), int(m.group(3))) != (0, n_files, 0):
                res["violations"].append(("unchanged-file-planned", f"{direction}: both trees hold the same {n_files} files (same size and mtime), yet the plan is `{m.group(0)}`: names of the remote listing were misread", rep))


def comma_exclude_section(res, count):
    """C04 / C15: an `--exclude` pattern is ONE glob, whatever characters it holds — a comma in particular (RCS `*,v` files, names
    like `keep,me.cfg`). `--delete --exclude 'keep,me.cfg'` protects the destination-only file of that name; `--exclude '*,v'`
    leaves out the `,v` files and nothing else (seed C04-N: the option gained `value_delimiter = ','`, which turned `*,v` into the
    two patterns `*` and `v`: nothing was delivered, exit 0)."""
    for direction in ("local", "push", "pull"):
        with Sandbox("C04comma") as sb:
            src = {"main.c": (b"int main;\n", 1_650_000_000, 0), "main.c,v": (b"rcs\n", 1_650_000_001, 0), "lib/util.c": (b"util\n", 1_650_000_002, 0),
                   "lib/util.c,v": (b"rcs util\n", 1_650_000_003, 0), "v": (b"a file called v\n", 1_650_000_004, 0)}
            dst = {"keep,me.cfg": (b"local configuration, excluded\n", 1_500_000_000, 0), "old.txt": (b"stale\n", 1_500_000_000, 0)}
            rc, out, err, s1, d1, sroot, droot = run_case(sb, None, direction, src, dst, ["--delete", "--exclude", "keep,me.cfg", "--exclude", "*,v"], count)
            count(f"comma-in-exclude/{direction}")
            rep = {"direction": direction, "flags": ["--delete", "--exclude", "keep,me.cfg", "--exclude", "*,v"], "rc": rc, "stdout": out[-300:], "stderr": err[-300:],
                   "destination_after": sorted(d1)}
            if "keep,me.cfg" not in d1:
                res["violations"].append(("excluded-destination-file-removed", f"{direction}: destination file `keep,me.cfg` matches --exclude 'keep,me.cfg' and was removed by --delete (rc {rc})", rep))
            missing = [p for p in ("main.c", "lib/util.c", "v") if d1.get(p, (None,))[0] != src[p][0]]
            if rc == 0 and missing:
                res["violations"].append(("exit-0-but-planned-file-not-delivered", f"{direction}: --exclude '*,v' excludes only the `,v` files, yet {missing} were not delivered and the run exited 0", rep))
            extra = [p for p in ("main.c,v", "lib/util.c,v") if p in d1]
            if extra:
                res["violations"].append(("excluded-file-transferred", f"{direction}: {extra} match --exclude '*,v' and were delivered", rep))
            if rc == 0 and "old.txt" in d1:
                res["violations"].append(("stale-file-not-deleted", f"{direction}: --delete left the stale, non-excluded old.txt in place and exited 0", rep))


def unresolvable_link_in_destination_section(res, count):
    """C14 next to its domain: the trees to synchronise are regular files; the DESTINATION also holds, from elsewhere, a symlink that
    cannot be resolved (`docs/self -> self`: ELOOP; `docs/through -> ../notes.txt/x`: ENOTDIR). Such a link is not a file and not an
    error of the walk; after one successful run the same command again must find nothing to do (seed C14-N: the walker reported
    the link's resolution error, the destination scan's `unwrap_or_default()` turned that into an EMPTY listing, every run re-sent
    everything and exited 0)."""
    for direction in ("local", "pull"):
        for link, target in (("docs/self", "self"), ("docs/through", "../notes.txt/x")):
            with Sandbox("C14ul") as sb:
                sroot = sb.path("src") if direction == "local" else os.path.join(sb.home, "rsrc")
                droot = sb.path("dst")
                src = {"notes.txt": (b"notes\n", 1_650_000_000, 0), "docs/a.txt": (b"alpha\n", 1_650_000_001, 0), "docs/b.bin": (b"B" * 3000, 1_650_000_002, 0), "c": (b"", 1_650_000_003, 0)}
                write_tree(sroot, src); os.makedirs(os.path.join(droot, "docs"))
                os.symlink(target, os.path.join(droot, link))
                sarg = sroot if direction == "local" else f"{HOST}:rsrc"
                rc1, o1, e1 = sb.run(["sync", "-r", sarg, droot], timeout=60)
                snap = read_tree(droot)
                rc2, o2, e2 = sb.run(["sync", "-r", sarg, droot], timeout=60)
                txt = o2.decode("utf-8", "replace") + e2.decode("utf-8", "replace")
                count(f"unresolvable-link-in-destination/{direction}")
                plan = [ln for ln in txt.splitlines() if ln.startswith("Plan:")]
                rep = {"direction": direction, "destination_link": f"{link} -> {target}", "rc1": rc1, "rc2": rc2, "second_run_plan": plan, "second_run_output": txt[-300:]}
                if rc1 == 0 and (rc2 != 0 or (plan and not plan[0].startswith("Plan: 0 to transfer")) or read_tree(droot) != snap):
                    res["violations"].append(("second-run-not-a-no-op", f"{direction}: the destination holds an unresolvable symlink ({link} -> {target}) — the immediate second run planned {plan} (rc {rc2})", rep))


def excluded_twin_section(res, count):
    """C15 "excluded paths are neither sent nor deleted": the destination holds an EXCLUDED file that is byte-, size- and
    mtime-identical to a file the source has newly gained at another path (a copy made with `cp -p`, a moved report). With
    `--delete --exclude keep` the excluded `keep/report.bin` stays exactly where it is, the new `data/report.bin` is delivered,
    the stale `old.txt` goes (seed C15-N: a "moved file" optimisation renamed destination-only files to their new paths without
    consulting the excludes)."""
    body = bytes((i * 13) % 251 for i in range(40_000))
    for direction in ("local", "push", "pull"):
        with Sandbox("C15twin") as sb:
            src = {"data/report.bin": (body, 1_650_000_000, 0), "a.txt": (b"a\n", 1_650_000_001, 0)}
            dst = {"keep/report.bin": (body, 1_650_000_000, 0), "old.txt": (b"stale\n", 1_500_000_000, 0), "a.txt": (b"a\n", 1_650_000_001, 0)}
            flags = ["--delete", "--exclude", "keep"]
            rcd, outd, errd, _, dd, _, _ = run_case(sb, None, direction, src, dst, flags, count, dry=True)
            rc, out, err, s1, d1, sroot, droot = run_case(sb, None, direction, src, dst, flags, count)
            count(f"excluded-twin/{direction}")
            printed = sorted(ln.strip() for ln in outd.splitlines() if ln.startswith(("send ", "delete ")))
            rep = {"direction": direction, "flags": flags, "rc": rc, "dry_run_printed": printed, "stdout": out[-300:], "stderr": err[-300:], "destination_after": sorted(d1)}
            if d1.get("keep/report.bin", (None,))[0] != body:
                res["violations"].append(("excluded-destination-file-removed", f"{direction}: keep/report.bin is excluded (--exclude keep) and is gone or changed after `sync -r --delete` (rc {rc}); the dry run printed {printed}", rep))
            if rc == 0 and d1.get("data/report.bin", (None,))[0] != body:
                res["violations"].append(("exit-0-but-planned-file-not-delivered", f"{direction}: data/report.bin was not delivered and the run exited 0", rep))
            if rc == 0 and "old.txt" in d1:
                res["violations"].append(("stale-file-not-deleted", f"{direction}: --delete left old.txt and exited 0", rep))


def missing_destination_dry_run_section(res, count):
    """C15 "--dry-run changes nothing": the dry run BEFORE a first sync — the destination root (and two of its ancestors) does not
    exist yet. Everything under the destination's existing ancestor is snapshotted with `lstat` (type, size, mtime; directories
    included — a file map cannot see a created directory) before and after; nothing may appear and no mtime may move (seed C15-P:
    the destination scan was preceded by `create_dir_all(dst)`, above the dry-run gate)."""
    def snap(root):
        out = {}
        for dp, dns, fns in os.walk(root):
            for nm in [""] + dns + fns:
                p = os.path.join(dp, nm) if nm else dp
                st = os.lstat(p)
                out[os.path.relpath(p, root)] = (st.st_mode, st.st_size if not os.path.isdir(p) else 0, st.st_mtime_ns)
        return out
    for direction in ("local", "pull", "push"):
        for flags in ([], ["--delete"]):
            with Sandbox("C15md") as sb:
                src = {"a.txt": b"a\n", "d/e/b.bin": bytes(range(200))}
                if direction == "pull":
                    sroot, parent = os.path.join(sb.home, "rsrc"), sb.path("lparent")
                    sarg, darg = f"{HOST}:rsrc", os.path.join(parent, "new", "deeper", "dst")
                elif direction == "push":
                    sroot, parent = sb.path("src"), os.path.join(sb.home, "rparent")
                    sarg, darg = sroot, f"{HOST}:rparent/new/deeper/dst"
                else:
                    sroot, parent = sb.path("src"), sb.path("lparent")
                    sarg, darg = sroot, os.path.join(parent, "new", "deeper", "dst")
                sb.write_tree(sroot, src); os.makedirs(parent)
                with open(os.path.join(parent, "bystander.txt"), "wb") as fh:
                    fh.write(b"here before\n")
                os.utime(parent, ns=(1_600_000_000_000_000_000, 1_600_000_000_000_000_000))
                before = snap(parent)
                rc, out, err = sb.run(["sync", "-r", "--dry-run", sarg, darg] + flags, timeout=60)
                after = snap(parent)
                count(f"dry-run-missing-destination/{direction}")
                if before != after:
                    diff = sorted(k for k in set(before) | set(after) if before.get(k) != after.get(k))
                    rep = {"direction": direction, "flags": flags, "rc": rc, "stdout": out.decode("utf-8", "replace")[-300:], "stderr": err.decode("utf-8", "replace")[-300:],
                           "appeared_or_changed_under_the_existing_ancestor": diff}
                    res["violations"].append(("dry-run-changed-a-tree", f"{direction}: `sync -r --dry-run` into a destination that does not exist yet created or touched {diff[:4]} (\".\" is the existing ancestor itself)", rep))


def stale_staging_section(res, count):
    """C04 / C14: a staging file `<dst>.copia-tmp` left by an earlier, failed or killed run — with the size and whole-second mtime the
    source file has NOW but other bytes (the source was regenerated since) — lies in the destination. A run delivers the source's
    bytes; it never publishes a staging file it did not write in this run (seed C04-O: a leftover that passes the quick check
    against the source was renamed into place unread)."""
    new = b"N" * 5000 + b" new contents\n"; old = b"O" * 5000 + b" old contents\n"
    assert len(new) == len(old)
    for direction in ("local", "pull"):
        with Sandbox("C04st") as sb:
            sroot = sb.path("src") if direction == "local" else os.path.join(sb.home, "rsrc")
            droot = sb.path("dst")
            src = {"data/f.bin": (new, 1_650_000_000, 0), "g.txt": (b"g\n", 1_650_000_001, 0)}
            write_tree(sroot, src); os.makedirs(os.path.join(droot, "data"))
            st = os.path.join(droot, "data", "f.bin.copia-tmp")
            open(st, "wb").write(old); os.utime(st, (1_650_000_000, 1_650_000_000))
            rc, out, err = sb.run(["sync", "-r", sroot if direction == "local" else f"{HOST}:rsrc", droot], timeout=60)
            got = read_tree(droot)
            count(f"stale-staging-file/{direction}")
            rep = {"direction": direction, "rc": rc, "stdout": out.decode("utf-8", "replace")[-200:], "stderr": err.decode("utf-8", "replace")[-200:],
                   "planted": "data/f.bin.copia-tmp with the source's size and mtime, other bytes"}
            if rc == 0 and got.get("data/f.bin", (None,))[0] != new:
                res["violations"].append(("exit-0-but-planned-file-not-delivered", f"{direction}: with a stale staging file in place the run exited 0 and data/f.bin does not hold the source's bytes", rep))


def delayed_write_section(res, count):
    """C14, pull and local: every write to ONE staging file is slow (400 ms each, injected with strace — a busy disk, a network file
    system). Nothing fails. The delivered file must still carry the source's mtime and the immediate second run must send nothing
    (seed C14-O: the pull loop handed its last chunk to tokio's background writer and went on to rename and stamp without a flush;
    the late write re-stamped the file with the current time)."""
    import subprocess
    for direction in ("pull", "local"):
        with Sandbox("C14dw") as sb:
            sroot = os.path.join(sb.home, "rsrc") if direction == "pull" else sb.path("src")
            droot = sb.path("dst"); os.makedirs(droot)
            src = {"data.bin": (bytes(range(256)) * 1200, 1_500_000_000, 0), "a.txt": (b"a\n", 1_500_000_001, 0), "b.txt": (b"b\n", 1_500_000_002, 0)}
            write_tree(sroot, src)
            sarg = f"{HOST}:rsrc" if direction == "pull" else sroot
            st = os.path.join(droot, "data.bin.copia-tmp")
            cmd = ["strace", "-f", "-qq", "-o", "/dev/null", "-P", st, "-e", "trace=write,pwrite64", "-e", "inject=write,pwrite64:delay_enter=400000", CLI_BIN, "sync", "-r", sarg, droot]
            try:
                r = subprocess.run(cmd, env=sb.env, cwd=sb.dir, stdout=subprocess.PIPE, stderr=subprocess.PIPE, timeout=120)
                rc1 = r.returncode
            except subprocess.TimeoutExpired:
                rc1 = "timeout"
            import time as _t
            _t.sleep(0.6)
            d1 = read_tree(droot)
            rc2, o2, e2 = sb.run(["sync", "-r", sarg, droot], timeout=60)
            txt = o2.decode("utf-8", "replace") + e2.decode("utf-8", "replace")
            plan = [ln for ln in txt.splitlines() if ln.startswith("Plan:")]
            count(f"slow-staging-writes/{direction}")
            rep = {"direction": direction, "rc1": rc1, "rc2": rc2, "second_run_plan": plan, "mtime_of_data.bin": d1.get("data.bin", (None, None))[1]}
            if rc1 == 0 and d1.get("data.bin", (None, None))[:2] != src["data.bin"][:2]:
                res["violations"].append(("delivered-file-mtime-not-the-sources", f"{direction}: after an exit-0 run with slow staging writes data.bin does not carry the source's bytes and mtime (mtime {d1.get('data.bin', (None, None))[1]})", rep))
            if rc1 == 0 and plan and not plan[0].startswith("Plan: 0 to transfer") and "Already up to date" not in txt:
                res["violations"].append(("second-run-not-a-no-op", f"{direction}: the immediate second run planned {plan}", rep))


def deep_tree_section(rng, res, count):
    """C04 "any nesting": a source tree nested beyond PATH_MAX (built and read back through directory handles). The run may exit 0
    only if EVERY source file arrived; if it cannot handle the depth it must fail and say so (D22: the walker classified entries
    with `Path::is_dir` / `is_file`, which answer false on ENAMETOOLONG — whole subtrees silently missing, exit 0, "0 failed")."""
    n = 0
    for direction in ("local", "push"):
        with Sandbox("C04deep") as sb:
            sroot = sb.path("src"); os.makedirs(sroot)
            droot = sb.path("dst") if direction == "local" else os.path.join(sb.home, "rdst")
            os.makedirs(droot, exist_ok=True)
            cwd0 = os.getcwd()
            files, rel, depth, comp = {"top.txt": b"top"}, "", 0, "n" * 200
            try:
                os.chdir(sroot)
                open("top.txt", "wb").write(b"top")
                while len(sroot) + len(rel) < 4096 + 450:
                    os.mkdir(comp); os.chdir(comp); depth += 1
                    rel += comp + "/"
                    body = b"level %d" % depth
                    open("f.txt", "wb").write(body); files[rel + "f.txt"] = body
            finally:
                os.chdir(cwd0)
            if direction == "push":
                # second shape (D23): the directories are all listable, ONE file's own path is too long (its stat fails)
                shutil.rmtree(sroot, ignore_errors=True); os.makedirs(sroot)
                files, rel = {"top.txt": b"top"}, ""
                try:
                    os.chdir(sroot)
                    open("top.txt", "wb").write(b"top")
                    while len(sroot) + len(rel) + 201 < 4000:
                        os.mkdir(comp); os.chdir(comp); rel += comp + "/"
                    pad = "p" * (4060 - len(sroot) - len(rel) - 1)
                    os.mkdir(pad); os.chdir(pad); rel += pad + "/"
                    open("short.txt", "wb").write(b"its path fits"); files[rel + "short.txt"] = b"its path fits"
                    open("L" * 230, "wb").write(b"its path does not"); files[rel + "L" * 230] = b"its path does not"
                finally:
                    os.chdir(cwd0)
                direction = "local"
                droot = sb.path("dst"); os.makedirs(droot, exist_ok=True)
            rc, out, err = sb.run(["sync", "-r", sroot, droot if direction == "local" else f"{HOST}:rdst"], timeout=120)
            out, err = out.decode("utf-8", "replace"), err.decode("utf-8", "replace")
            got = {}
            for dpath, dnames, fnames, dfd in os.fwalk(droot):
                for fn in fnames:
                    fd = os.open(fn, os.O_RDONLY, dir_fd=dfd)
                    try:
                        got[os.path.relpath(os.path.join(dpath, fn), droot) if len(dpath) < 3000 else (dpath[len(droot) + 1:] + "/" + fn)] = os.read(fd, 1 << 20)
                    finally:
                        os.close(fd)
            n += 1
            count(f"deep-source-tree/{direction}")
            missing = sorted(k for k, v in files.items() if got.get(k) != v)
            rep = {"direction": direction, "source_files": len(files), "deepest_path_bytes": len(sroot) + len(rel) + 5, "rc": rc,
                   "stdout": out[-300:], "stderr": err[-300:], "undelivered": len(missing), "first_undelivered_depth": (missing[0].count("/") if missing else None)}
            if rc == 0 and missing:
                res["violations"].append(("exit-0-but-planned-file-not-delivered", f"source tree nested beyond PATH_MAX: copia exited 0 with {len(missing)} of {len(files)} source files undelivered", rep))
            if rc != 0 and not err.strip():
                res["violations"].append(("failed-without-report", f"the run failed (rc {rc}) on a deep source tree without reporting an error", rep))
    return n


def unlistable_dir_section(rng, res, count):
    """C04: a source SUB-directory whose listing fails (EACCES on its `openat`, injected by strace for exactly that path — the
    checks run as root, for whom no mode bits deny anything). The files below it cannot be known: the run may exit 0 only if
    every source file is at the destination, and with `--delete` it may not remove destination files that still exist in the
    source (seed C04-J: the walker skipped the directory with a warning, the delete pass then removed its mirrored files)."""
    n = 0
    for direction in ("local", "push"):
        for flags in ([], ["--delete"]):
            src = {"a.txt": (b"new a", 1_650_000_000, 0), "private/k1.txt": (b"key one", 1_650_000_001, 0), "private/sub/k2.txt": (b"key two", 1_650_000_002, 0),
                   "z/last.txt": (b"last", 1_650_000_003, 0)}
            dst = {"a.txt": (b"old", 1_500_000_000, 0), "private/k1.txt": (b"key one", 1_650_000_001, 0), "private/sub/k2.txt": (b"key two", 1_650_000_002, 0),
                   "stale.txt": (b"stale", 1_500_000_000, 0)}
            with Sandbox("C04ul") as sb:
                sroot = sb.path("src")
                droot = sb.path("dst") if direction == "local" else os.path.join(sb.home, "rdst")
                write_tree(sroot, src); write_tree(droot, dst)
                victim = os.path.join(sroot, "private")
                prefix = ["strace", "-f", "-qq", "-o", "/dev/null", "-P", victim, "-e", "inject=openat:error=EACCES"]
                rc, out, err = sb.run(["sync", "-r", sroot, droot if direction == "local" else f"{HOST}:rdst"] + flags, timeout=120, prefix=prefix)
                out, err = out.decode("utf-8", "replace"), err.decode("utf-8", "replace")
                d1 = read_tree(droot)
                n += 1
                count(f"unlistable-source-dir/{direction}")
                rep = {"direction": direction, "flags": flags, "unlistable": "src/private (openat → EACCES)", "rc": rc, "stdout": out[-300:], "stderr": err[-300:], "after": sorted(d1)}
                missing = sorted(k for k, v in src.items() if d1.get(k, (None, None))[:2] != v[:2])
                removed = sorted(k for k in dst if k in src and k not in d1)
                if removed:
                    res["violations"].append(("deleted-a-file-present-in-source", f"{removed} exist in the source (below a directory the run could not list) and were removed from the destination (rc {rc})", rep))
                if rc == 0 and missing:
                    res["violations"].append(("exit-0-but-planned-file-not-delivered", f"a source sub-directory could not be listed; copia exited 0 with {missing} not delivered", rep))
                if rc != 0 and not (err + out).strip():
                    res["violations"].append(("failed-without-report", f"the run failed (rc {rc}) without reporting an error", rep))
    return n


def split_listing_section(rng, thorough, res, count):
    """C19 / C04: the plan does not depend on how the remote listing is cut into reads. Pull and push with `--delete --dry-run`
    on trees that need NO action, the `find` output delivered in two pieces with a pause, cut right before / after each record
    terminator and inside a record (seed C19-K: a streaming parser lost a record whose NUL terminator began the next read)."""
    src = {"a.txt": (b"alpha", 1_650_000_000, 0), "b.txt": (b"bravo!", 1_650_000_001, 0), "sub/c.txt": (b"charlie", 1_650_000_002, 0), "sub/d e.txt": (b"delta", 1_650_000_003, 0)}
    n = 0
    for direction in ("pull", "push"):
        with Sandbox("C19sp") as sb:
            rc, out, err, s1, d1, sroot, droot = run_case(sb, rng, direction, src, dict(src), ["--delete"], count, dry=True)
            base_plan = [ln for ln in (out + err).splitlines() if ln.startswith("Plan:")]
            remote_root = sroot if direction == "pull" else droot
            listing = subprocess.run(["bash", "-c", "cd " + remote_root + " && find . -type f -printf '%s\\t%T@\\t%p\\0'"], stdout=subprocess.PIPE).stdout
            cuts = set()
            for i, ch in enumerate(listing):
                if ch == 0:
                    cuts |= {i, i + 1, max(1, i - 1)}
            cuts |= {1, len(listing) // 2}
            cuts = sorted(c for c in cuts if 0 < c < len(listing))
            if not thorough:
                cuts = cuts[:14]
            sb.env["SSH_STUB_SPLIT_MATCH"] = "find "
            for c_ in cuts:
                sb.env["SSH_STUB_SPLIT_AT"] = str(c_)
                sarg, darg = (f"{HOST}:rsrc", droot) if direction == "pull" else (sroot, f"{HOST}:rdst")
                rc2, o2, e2 = sb.run(["sync", "-r", sarg, darg, "--delete", "--dry-run"], timeout=60)
                txt = o2.decode("utf-8", "replace") + e2.decode("utf-8", "replace")
                plan = [ln for ln in txt.splitlines() if ln.startswith("Plan:")]
                n += 1
                count(f"split-listing/{direction}")
                if plan != base_plan or rc2 != rc:
                    res["violations"].append(("plan-depends-on-how-the-listing-arrives", f"{direction}: with the remote listing ({len(listing)} bytes) delivered as {c_} bytes, a pause, the rest, the plan is {plan} (rc {rc2}); in one piece it is {base_plan} (rc {rc})",
                                              {"direction": direction, "cut_after_byte": c_, "listing_hex": listing.hex()[:400], "output": txt[-400:]}))
                    break
    return n


def symlink_second_run_section(res, count):
    """C14 next to its domain: the source holds a symlink to a regular file (`releases/latest.bin -> v1.bin`). The tool lists it
    as a file and delivers the target's bytes; a second run of the same command must then find nothing to do (seed C14-K: the
    scan took the LINK's own size and mtime, which never match what was delivered)."""
    for direction, flags in (("local", []), ("push", []), ("local", ["--delete", "--jobs", "1"])):
        with Sandbox("C14sl") as sb:
            sroot = sb.path("src")
            droot = sb.path("dst") if direction == "local" else os.path.join(sb.home, "rdst")
            os.makedirs(os.path.join(sroot, "releases")); os.makedirs(droot, exist_ok=True)
            open(os.path.join(sroot, "releases", "v1.bin"), "wb").write(b"release one " * 40)
            open(os.path.join(sroot, "notes.txt"), "wb").write(b"notes\n")
            os.symlink("v1.bin", os.path.join(sroot, "releases", "latest.bin"))
            for p_ in ("releases/v1.bin", "notes.txt"):
                os.utime(os.path.join(sroot, p_), (1_650_000_000, 1_650_000_000))
            darg = droot if direction == "local" else f"{HOST}:rdst"
            rc1, o1, e1 = sb.run(["sync", "-r", sroot, darg] + flags, timeout=60)
            snap = read_tree(droot)
            rc2, o2, e2 = sb.run(["sync", "-r", sroot, darg] + flags, timeout=60)
            txt = o2.decode("utf-8", "replace") + e2.decode("utf-8", "replace")
            count(f"symlink-second-run/{direction}")
            plan = [ln for ln in txt.splitlines() if ln.startswith("Plan:")]
            rep = {"direction": direction, "flags": flags, "rc1": rc1, "rc2": rc2, "second_run_plan": plan, "second_run_output": txt[-300:]}
            if rc1 == 0 and (rc2 != 0 or not plan or not plan[0].startswith("Plan: 0 to transfer") or read_tree(droot) != snap):
                res["violations"].append(("second-run-not-a-no-op", f"{direction}: source with a symlink to a regular file — the immediate second run planned {plan} (rc {rc2})", rep))


def many_jobs_section(rng, res, count):
    """C04 "any positive job count": 90 files to send with `--jobs 100`, 70 with `--jobs 65`, 80 with `--jobs 64` — local and push.
    Exit 0 means every planned file arrived (seed C04-L: a worker pool capped at 64 lanes while the plan was dealt out in strides
    of `jobs`: the lanes beyond the cap were never run, nor counted as failed)."""
    for direction in ("local", "push"):
        for nfiles, jobs in ((90, 100), (70, 65), (80, 64)):
            src = {f"d{i % 5}/f{i:03d}.txt": (b"content %d\n" % i, 1_650_000_000 + i, 0) for i in range(nfiles)}
            with Sandbox("C04mj") as sb:
                rc, out, err, s1, d1, sroot, droot = run_case(sb, rng, direction, src, {}, ["--jobs", str(jobs)], count)
                count(f"many-jobs/{direction}")
                missing = sorted(k for k, v in src.items() if d1.get(k, (None, None))[:2] != v[:2])
                rep = {"direction": direction, "files": nfiles, "jobs": jobs, "rc": rc, "stdout": out[-200:], "stderr": err[-200:], "undelivered": len(missing), "first": missing[:3]}
                if rc == 0 and missing:
                    res["violations"].append(("exit-0-but-planned-file-not-delivered", f"{direction}, {nfiles} files, --jobs {jobs}: copia exited 0 with {len(missing)} planned files undelivered (e.g. {missing[:2]})", rep))
    return 0


def hardlinked_destination_section(res, count):
    """C14: all regular files — two source files with the same bytes and different mtimes; in the destination the two names are hard
    links of one file (what dedup tools leave). After one successful run the same command again must send nothing (seed C14-L:
    an existing destination with the right bytes was re-stamped IN PLACE — one inode cannot carry two mtimes, every run flips it)."""
    with Sandbox("C14hl") as sb:
        sroot, droot = sb.path("src"), sb.path("dst")
        os.makedirs(os.path.join(sroot, "sub")); os.makedirs(os.path.join(droot, "sub"))
        body = b"identical bytes under two names " * 30
        open(os.path.join(sroot, "a.bin"), "wb").write(body); os.utime(os.path.join(sroot, "a.bin"), (1_650_000_000, 1_650_000_000))
        open(os.path.join(sroot, "sub", "b.bin"), "wb").write(body); os.utime(os.path.join(sroot, "sub", "b.bin"), (1_600_000_000, 1_600_000_000))
        open(os.path.join(droot, "a.bin"), "wb").write(body); os.utime(os.path.join(droot, "a.bin"), (1_500_000_000, 1_500_000_000))
        os.link(os.path.join(droot, "a.bin"), os.path.join(droot, "sub", "b.bin"))
        rc1, o1, e1 = sb.run(["sync", "-r", sroot, droot], timeout=60)
        plans = []
        for _ in range(2):
            rc2, o2, e2 = sb.run(["sync", "-r", sroot, droot], timeout=60)
            txt = o2.decode("utf-8", "replace") + e2.decode("utf-8", "replace")
            plans.append(([ln for ln in txt.splitlines() if ln.startswith("Plan:")], rc2))
        count("hardlinked-destination")
        mt = {n: int(os.stat(os.path.join(droot, n)).st_mtime) for n in ("a.bin", "sub/b.bin")}
        rep = {"rc1": rc1, "second_and_third_run": plans, "destination_mtimes": mt}
        if rc1 == 0 and any(rc != 0 or not pl or not pl[0].startswith("Plan: 0 to transfer") for pl, rc in plans):
            res["violations"].append(("second-run-not-a-no-op", f"destination names hard-linked to one file: after a successful run the same command planned {plans}", rep))
        if rc1 == 0 and mt != {"a.bin": 1_650_000_000, "sub/b.bin": 1_600_000_000}:
            res["violations"].append(("delivered-file-without-source-mtime", f"after the runs the destination mtimes are {mt}", rep))


def walk_section(rng, thorough, rundir, model_run, res, count):
    """`transfer.rs::discover_local_files` observed through the real CLI against the tree world of `Model/WalkTree` (the world the
    theorems `C06.source_walk_*` / `C04.source_walk_reports_every_failure` quantify over): random trees of regular files, symlinks
    to regular files, other symlinks (dangling, to a directory, to a fifo), fifos and nested directories, plus trees with one
    directory beyond PATH_MAX (`read_dir` fails there: the model's unreadable directory). `sync -r --dry-run TREE EMPTY` prints one
    `send` line per listed file, in plan order; the model answers with the sorted files of the tree, or FAIL for an unclean tree."""
    NAMES = ["a", "b", "A", "a.b", "a b", "é", "z", "d", "-x", "0", "ab", "a-b", "日", "B", "a.", ".h"]
    def gen(depth):
        ents, used = [], set()
        for _ in range(rng.range(2, 8) if depth == 0 else rng.range(0, 5)):
            nm = rng.pick(NAMES)
            if nm in used:
                continue
            used.add(nm)
            k = rng.range(0, 10)
            if k < 4 or (k >= 7 and depth >= 3):
                ents.append((nm, "f"))
            elif k == 4:
                ents.append((nm, "l"))
            elif k == 5:
                ents.append((nm, "x"))
            elif k == 6:
                ents.append((nm, "o"))
            else:
                ents.append((nm, gen(depth + 1)))
        return ents
    def build(d, ents, targets, toks):
        for nm, k in ents:
            p = os.path.join(d, nm)
            if k == "f":
                open(p, "wb").write(b"x" * rng.range(0, 9))
            elif k == "l":
                sib = [n2 for n2, k2 in ents if k2 == "f" and n2 != nm]
                os.symlink(rng.pick(sib) if sib and rng.coin(1, 2) else targets["file"], p)
            elif k == "x":
                # … and links that cannot be RESOLVED at all: to itself (ELOOP), through a regular file (ENOTDIR), to a name longer than
                # NAME_MAX (ENAMETOOLONG) — not files, not errors of the walk either (seed C14-N made them abort the scan)
                os.symlink(rng.pick([targets["missing"], targets["dir"], targets["fifo"], "no-such-sibling", nm, targets["file"] + "/below-a-file", "n" * 300]), p)
            elif k == "o":
                os.mkfifo(p)
            if isinstance(k, list):
                os.mkdir(p)
                toks.append("D1:" + hexs(nm))
                build(p, k, targets, toks)
                toks.append(")")
            else:
                toks.append(f"{k}:" + hexs(nm))
    ops, impl = [], []
    ntrees = 60 if thorough else 16
    for i in range(ntrees + 2):
        with Sandbox("C04walk") as sb:
            src, dst, tg = sb.path("s"), sb.path("d"), sb.path("targets")
            os.makedirs(src); os.makedirs(dst); os.makedirs(os.path.join(tg, "dir"))
            open(os.path.join(tg, "file"), "wb").write(b"target")
            open(os.path.join(tg, "dir", "inner"), "wb").write(b"inner")
            os.mkfifo(os.path.join(tg, "fifo"))
            targets = {"file": os.path.join(tg, "file"), "dir": os.path.join(tg, "dir"), "fifo": os.path.join(tg, "fifo"), "missing": os.path.join(tg, "missing")}
            toks = []
            if i < ntrees:
                build(src, gen(0), targets, toks)
                count("walk/clean-tree")
            else:
                # one branch nested until its directory's path no longer fits PATH_MAX: `read_dir` fails on that directory
                open(os.path.join(src, "top"), "wb").write(b"t"); toks.append("f:" + hexs("top"))
                comp, cwd0, rel, closes = "n" * (200 + 17 * (i - ntrees)), os.getcwd(), src, 0
                try:
                    os.chdir(src)
                    while True:
                        os.mkdir(comp); os.chdir(comp); rel = rel + "/" + comp; closes += 1
                        fits = len(rel.encode()) <= 4095
                        toks.append(("D1:" if fits else "D0:") + hexs(comp))
                        open("f", "wb").write(b"f"); toks.append("f:" + hexs("f"))
                        if not fits:
                            break
                finally:
                    os.chdir(cwd0)
                toks += [")"] * closes
                count("walk/tree-beyond-PATH_MAX")
            rc, out, err = sb.run(["sync", "-r", "--dry-run", src, dst], timeout=120)
            if rc != 0:
                im = "FAIL"
            else:
                sent = [ln[7:] for ln in out.decode("utf-8", "surrogateescape").split("\n") if ln.startswith("send   ")]
                im = ",".join(hexs(s_.encode("utf-8", "surrogateescape")) for s_ in sent) if sent else "-"
            ops.append("walk " + (",".join(toks) if toks else "-")); impl.append(im)
            if i >= ntrees:
                shutil.rmtree(src, ignore_errors=True)
    path = os.path.join(rundir, "walk", "ops.txt")
    os.makedirs(os.path.dirname(path), exist_ok=True)
    with open(path, "w") as f:
        f.write("\n".join(ops) + "\n")
    model = model_run(path)
    dis = 0
    for q, im, mo in zip(ops, impl, model + [None] * (len(ops) - len(model))):
        if im != mo:
            dis += 1
            if len(res.setdefault("disagreements", [])) < 10:
                res["disagreements"].append({"query": q[:600], "impl": im[:600], "model": (mo or "")[:600]})
    if dis:
        res["broken"].append(f"C04/corr/walk: the real walker (through `sync -r --dry-run`) and Model/WalkTree disagree on {dis} of {len(ops)} trees")
    return len(ops), dis


def location_section(rng, thorough, rundir, model_run, res, count):
    """`FileLocation::parse` observed through the real CLI: `sync -r --dry-run SRC X` either lists X over (stand-in)
    ssh — the stub logs the host and the command, whose `cd $'…'` argument is the remote path — or treats X as a
    local path (no ssh call; `Scanning SRC and X...`). Compared with the model's `parseLocation`."""
    strings = list(LOC_STRINGS)
    alpha = ["a", "b", ":", ":", "/", "\\", ".", "é", "'", " "]
    for _ in range(200 if thorough else 40):
        s_ = "".join(rng.pick(alpha) for _ in range(rng.range(1, 6)))
        # local candidates are scanned by the real tool: keep them inside the sandbox (no absolute paths, no `..`, not the cwd itself)
        if not s_.startswith("-") and not s_.startswith("/") and ".." not in s_ and s_.strip("./ ") != "":
            strings.append(s_)
    ops, impl = [], []
    for x in strings:
        with Sandbox("C04") as sb:
            src = sb.path("s"); os.makedirs(src); open(os.path.join(src, "f"), "wb").write(b"x")
            log = sb.path("ssh.log")
            sb.env["SSH_STUB_LOG"] = log
            rc, out, err = sb.run(["sync", "-r", "--dry-run", src, x], timeout=60, cwd=sb.home)
            err = err.decode("utf-8", "replace")
            lines = open(log).read().split("\n")[:-1] if os.path.exists(log) else []
            if lines:
                args = [bytes.fromhex(t).decode("utf-8", "replace") for t in lines[0].split(" ")[:-1]]
                host = args[0] if args else ""
                cmd = args[1] if len(args) > 1 else ""
                m = re.match(r"(?:CDPATH= )?cd \$'(.*)' && find ", cmd, re.S)      # (the `CDPATH=` guard came with the D21 repair)
                path = _unescape_ansi(m.group(1)) if m else "?" + cmd[:40]
                im = f"R {hexs(host)} {hexs(path)}"
                count("location/remote")
            else:
                m = re.search(r"Scanning (.*) and (.*)\.\.\.", err, re.S)
                im = "L " + (hexs(m.group(2)) if m else "?")
                count("location/local")
        ops.append("loc " + hexs(x)); impl.append(im)
    path = os.path.join(rundir, "loc", "ops.txt")
    os.makedirs(os.path.dirname(path), exist_ok=True)
    with open(path, "w") as f:
        f.write("\n".join(ops) + "\n")
    model = model_run(path)
    dis = 0
    for q, im, mo in zip(ops, impl, model + [None] * (len(ops) - len(model))):
        if im != mo:
            dis += 1
            if len(res.setdefault("disagreements", [])) < 10:
                res["disagreements"].append({"query": q, "impl": im, "model": mo})
    if dis:
        res["broken"].append(f"C04/corr/location: the real CLI and the model of FileLocation::parse disagree on {dis} of {len(ops)} arguments")
    return len(ops), dis


def run(pid, tier, seed, rundir, model_run):
    rng = Rng(seed ^ 0xC04)
    thorough = tier == "thorough"
    n = {"C04": 150, "C14": 110, "C15": 110, "C19": 24}[pid] * (12 if thorough else 1)
    res = {"violations": [], "broken": [], "notes": [], "distribution": {}, "samples": []}
    dist = res["distribution"]

    def count(k, c=1):
        dist[k] = dist.get(k, 0) + c

    ops, impl, reps = [], [], []
    cids = {}

    def cid(b):
        return cids.setdefault(b, f"c{len(cids)}")

    for i in range(n):
        direction = ["local", "push", "pull"][i % 3]
        # names with a newline cannot be listed by the remote `find … -printf '…\\0'`? they can (NUL-terminated) — keep them
        src = gen_tree(rng, 9)
        dst = derive_dst(rng, src)
        if i % 17 == 0:
            src = {}
        flags = []
        excl = []
        wd = rng.coin(1, 2)
        if wd:
            flags.append("--delete")
        for _ in range(rng.pick([0, 0, 1, 2])):
            e = rng.pick(EXCL); excl.append(e); flags += ["--exclude", e]
            if rng.coin(1, 2) and "/" not in e and "?" not in e:
                # next to a file the pattern excludes by name, files whose names merely EXTEND that name (they sort right
                # after it and are not excluded): app.log / app.log.1 / app.log.d/part
                lit = e.replace("*", "k")
                d_ = rng.pick(["", "d/e", "sp dir"])
                pre = (d_ + "/" if d_ else "") + lit
                if not any(k == pre or k.startswith(pre + "/") or pre.startswith(k + "/") or k.startswith(pre + ".d/") for k in src):
                    mt_ = 1_600_000_000 + rng.below(1000)
                    src[pre] = (b"excluded by name\n", mt_, 0); src[pre + ".1"] = (b"extends the name\n", mt_, 0); src[pre + ".d/part"] = (b"below an extending dir\n", mt_, 0)
                    count("exclude/name-extension-siblings")
            if "*" in e and "/" not in e and e.replace("*", "") not in ("", ".", ".."):
                # … and the name the pattern matches with its `*` standing for NOTHING (`*.env` excludes a file named `.env`,
                # `sp*` one named `sp`), as a file and as a directory
                lit0 = e.replace("*", "")
                for pre in (lit0, "d/e/" + lit0 + "/below"):
                    if not any(k == pre or k.startswith(pre + "/") or pre.startswith(k + "/") for k in src) and not any(k == pre or k.startswith(pre + "/") or pre.startswith(k + "/") for k in dst):
                        src[pre] = (b"the star matches nothing\n", 1_600_000_000 + rng.below(1000), 0)
                        if wd and rng.coin(1, 2):
                            dst[pre] = (b"excluded on the destination too\n", 1_500_000_000, 0)
                        count("exclude/star-matches-empty")
        jobs = rng.pick([1, 2, 4, 8])
        flags += ["--jobs", str(jobs)]
        if rng.coin(1, 4):
            flags.append("--verbose")
        with Sandbox(pid) as sb:
            count(f"dir/{direction}")
            if pid == "C15":
                # dry run first: nothing may change, and what it prints must be what the real run does
                rc0, out0, err0, s0, d0, sroot, droot = run_case(sb, rng, direction, src, dst, flags, count, dry=True)
                rep = {"direction": direction, "flags": flags, "src": sorted(src), "dst": sorted(dst), "stdout": out0[-600:]}
                if s0 != {k: v for k, v in src.items()} or d0 != {k: v for k, v in dst.items()}:
                    res["violations"].append(("dry-run-changed-a-tree", "sync --dry-run modified a file or mtime", rep))
                printed_send = sorted(l[7:] for l in out0.split("\n") if l.startswith("send   "))
                printed_del = sorted(l[7:] for l in out0.split("\n") if l.startswith("delete "))
                rc, out, err, s1, d1, sroot, droot = run_case(sb, rng, direction, src, dst, flags, count)
                changed = sorted(p for p in set(dst) | set(d1) if dst.get(p) != d1.get(p) and p in d1)
                removed = sorted(p for p in dst if p not in d1)
                has_nl = any("\n" in p for p in list(src) + list(dst))
                if rc == 0 and not has_nl and "No files found" not in err0:
                    # every printed send is performed or was already byte-identical; every change was printed
                    if not set(changed) <= set(printed_send) or sorted(removed) != printed_del:
                        res["violations"].append(("dry-run-plan-ne-real-run", f"dry run printed send={printed_send} delete={printed_del}; real run changed {changed} removed {removed}", rep))
                count("dry-run-pairs")
            else:
                rc, out, err, s1, d1, sroot, droot = run_case(sb, rng, direction, src, dst, flags, count)
            q = f"ow {1 if wd else 0} {list_tok(excl)} {tree_tok(src, cid)} {tree_tok(dst, cid)}"
            m = re.search(r"Plan: (\d+) to transfer, (\d+) unchanged \(skipped\), (\d+) to delete", err)
            ran = 1 if m else 0
            plan_tok = f"{m.group(1)},{m.group(2)},{m.group(3)}" if m else "-"
            impl_line = f"rc={rc} dest={tree_tok(d1, cid)} plan={plan_tok} ran={ran}"
            ops.append(q); impl.append(impl_line)
            rep = {"direction": direction, "flags": flags, "query": q[:1500], "rc": rc, "stderr": err[-500:], "impl": impl_line[:1500],
                   "has_newline_name": any("\n" in p for p in list(src) + list(dst))}
            reps.append(rep)
            if len(res["samples"]) < 6:
                res["samples"].append({"direction": direction, "flags": flags, "src": sorted(src)[:6], "dst": sorted(dst)[:6], "rc": rc})
            # ---- oracles on the real run (C04)
            if s1 != src:
                res["violations"].append(("source-modified", "the source tree was modified", rep))
            leftovers = [p for p in d1 if p.endswith(".copia-tmp")]
            if leftovers and rc == 0:
                res["violations"].append(("staging-left-behind", f"staging files remain after a successful run: {leftovers}", rep))
            if pid == "C14" and rc == 0:
                rc2, out2, err2 = sb.run(["sync", "-r", (sroot if direction != "pull" else f"{HOST}:rsrc"), (droot if direction != "push" else f"{HOST}:rdst")] + flags, timeout=120)
                err2 = err2.decode("utf-8", "replace")
                d2, s2 = read_tree(droot), read_tree(sroot)
                m2 = re.search(r"Plan: (\d+) to transfer, (\d+) unchanged \(skipped\), (\d+) to delete", err2)
                if (m2 and (m2.group(1) != "0" or m2.group(3) != "0")) or d2 != d1 or s2 != s1 or rc2 != 0:
                    key = "second-run-resends" if m2 and m2.group(1) != "0" else "second-run-changes"
                    res["violations"].append((key, f"the immediate second run planned {m2.groups() if m2 else None} / changed a tree (rc {rc2})", dict(rep, second_stderr=err2[-300:])))
                count("second-runs")
    # ---- C15: `bisync --dry-run` changes nothing (trees, mtimes, recorded state) and prints exactly the plan
    bi_ops, bi_impl, bi_reps = [], [], []
    if pid == "C15":
        import bb_bisync as BB
        for hi in range(40 * (10 if thorough else 1)):
            hops = BB.gen_history(rng, rng.range(2, 8))
            with Sandbox("C15bi") as sb:
                h = BB.Hist(sb)
                hist_txt = []
                for op in hops:
                    if op[0] == "write":
                        h.write(op[1], op[2], op[3]); hist_txt.append(f"write {op[1]} {op[2]}")
                    elif op[0] == "delete":
                        h.delete(op[1], op[2]); hist_txt.append(f"delete {op[1]} {op[2]}")
                    elif op[0] == "both":
                        h.write("A", op[1], op[2]); h.write("B", op[1], op[3]); hist_txt.append(f"write A,B {op[1]}")
                    elif op[0] == "delboth":
                        h.delete("A", op[1]); h.delete("B", op[1]); hist_txt.append(f"delete A,B {op[1]}")
                    elif op[0] == "bisync":
                        ta, tb, raw, trusted = h.observe()
                        adir = os.path.join(sb.home, ".copia")
                        def snap():
                            out = {}
                            for root in (h.A, h.B, adir):
                                for d, _, files in os.walk(root):
                                    for fn in files:
                                        pth = os.path.join(d, fn)
                                        st = os.stat(pth)
                                        out[pth] = (open(pth, "rb").read(), st.st_mtime_ns)
                            return out
                        before = snap()
                        rc, out, err, plan_n, conf_n, safe = h.bisync(dry=True)
                        after = snap()
                        rep = {"history": list(hist_txt) + ["bisync --dry-run"], "stdout": out[-500:], "rc": rc}
                        if before != after:
                            changed = sorted(set(before) ^ set(after)) + sorted(k for k in before if k in after and before[k] != after[k])
                            key = "bisync-dry-run-wrote-archive" if any("/.copia/" in c for c in changed) else "bisync-dry-run-changed-a-tree"
                            res["violations"].append((key, f"bisync --dry-run changed {changed[:4]}", rep))
                        # names may contain newlines, so the printed plan is not parsed line by line: the model's plan is
                        # rendered the way bidir.rs prints it (`{:<22} {}` per entry) and the whole stdout is compared
                        printed = [out]
                        da, db = BB.digests(ta), BB.digests(tb)
                        arch_tok = "none" if trusted is None else BB.tree_tok(trusted)
                        bi_ops.append(f"biplan {BB.tree_tok(da)} {BB.tree_tok(db)} {arch_tok}")
                        bi_impl.append(";".join(printed) if printed else "-")
                        bi_reps.append(rep)
                        count("bisync-dry-runs")
                        h.bisync()
                        hist_txt.append("bisync")
    # ---- model
    ops_all = ops + bi_ops
    with open(os.path.join(rundir, "ops.txt"), "w") as f:
        f.write("\n".join(ops_all) + ("\n" if ops_all else ""))
    if False:
        pass
    with open(os.path.join(rundir, "ops.txt"), "a") as f:
        pass
    model = model_run(os.path.join(rundir, "ops.txt"))
    ndis = 0
    res["disagreements"] = []
    def render_plan(mo):
        lines = []
        for ent in ([] if mo in ("-", "", None) else mo.split(";")):
            hp, act = ent.split(":", 1)
            lines.append(f"{act:<22} {bytes.fromhex(hp).decode('utf-8', 'surrogateescape')}\n")
        return "".join(lines) + "(dry run) nothing was modified\n"
    for q, im, mo, rep in zip(bi_ops, bi_impl, model[len(ops):], bi_reps):
        if mo is None or im != render_plan(mo):
            ndis += 1
            res["violations"].append(("bisync-dry-run-prints-ne-plan", f"bisync --dry-run printed {im[:200]!r} but the plan a real run performs from this state is {(mo or '')[:200]}", dict(rep, query=q[:800])))
    model = model[:len(ops)]
    for k, (q, im, mo) in enumerate(zip(ops, impl, model)):
        mm = re.match(r"dest=(\S+) T:(\S+)\|S:(\d+)\|D:(\S+) ran=(\d)", mo or "")
        if not mm:
            ndis += 1
            res["disagreements"].append({"query": q[:800], "impl": im[:800], "model": (mo or "")[:800]})
            continue
        nt = 0 if mm.group(2) == "-" else len(mm.group(2).split(","))
        nd = 0 if mm.group(4) == "-" else len(mm.group(4).split(","))
        exp_plan = f"{nt},{mm.group(3)},{nd}" if mm.group(5) == "1" else "-"
        im_m = re.match(r"rc=(\S+) dest=(\S+) plan=(\S+) ran=(\d)", im)
        rep = reps[k]
        if im_m.group(1) == "0":
            if im_m.group(2) != mm.group(1) or im_m.group(3) != exp_plan:
                ndis += 1
                if len(res["disagreements"]) < 10:
                    res["disagreements"].append({"direction": rep["direction"], "flags": rep["flags"], "query": q[:1200], "impl": im[:1200], "model": mo[:1200]})
                # the model's prediction IS the property's postcondition: classify the failure
                key = "exit0-but-destination-ne-plan-outcome"
                if rep["direction"] == "push" and rep["has_newline_name"]:
                    key = "push-newline-in-name"
                res["violations"].append((key, "exit 0 but the destination is not: transferred files = source bytes + whole-second mtime, skipped files untouched, deletes only with --delete", dict(rep, model=mo[:1500])))
        else:
            count("nonzero-exit")
            # "if the exit status is non-zero … still nothing outside that plan (other than reserved staging names) has been touched"
            def unhexp(tok):
                return [] if tok == "-" else [bytes.fromhex(x).decode("utf-8", "surrogateescape") for x in tok.split(",")]
            allowed = set(unhexp(mm.group(2))) | set(unhexp(mm.group(4)))
            d_before = dict(x.split("=") for x in q.split(" ")[4].split(";")) if q.split(" ")[4] != "-" else {}
            d_after = dict(x.split("=") for x in im_m.group(2).split(";")) if im_m.group(2) != "-" else {}
            touched = [bytes.fromhex(k).decode("utf-8", "surrogateescape") for k in set(d_before) | set(d_after) if d_before.get(k) != d_after.get(k)]
            bad = [t for t in touched if t not in allowed and not t.endswith(".copia-tmp")]
            if bad:
                res["violations"].append(("nonzero-exit-touched-outside-plan", f"the run failed (rc {im_m.group(1)}) and touched {bad[:4]} which are neither in transfer nor in delete", dict(rep, model=mo[:1500])))
    if pid == "C04":
        nq, qdis = quoting_section(rng, thorough, rundir, model_run, res, count)
        ndis += qdis
        nl, ldis = location_section(rng, thorough, rundir, model_run, res, count)
        ndis += ldis
        nw, wdis = walk_section(rng, thorough, rundir, model_run, res, count)
        ndis += wdis
        remote_failure_section(rng, thorough, res, count)
        deep_tree_section(rng, res, count)
        unlistable_dir_section(rng, res, count)
        many_jobs_section(rng, res, count)
        split_listing_section(rng, thorough, res, count)
        write_limit_section(rng, thorough, res, count)
        comma_exclude_section(res, count)
        stale_staging_section(res, count)
        big_listing_section(res, count)
        many_failures_section(thorough, res, count)
    if pid == "C15":
        comma_exclude_section(res, count)
        excluded_twin_section(res, count)
        missing_destination_dry_run_section(res, count)
        remote_failure_section(rng, thorough, res, count)      # (for its excluded-file-vs-directory part: excludes protect)
    if pid == "C14":
        symlink_second_run_section(res, count)
        unresolvable_link_in_destination_section(res, count)
        stale_staging_section(res, count)
        delayed_write_section(res, count)
        big_listing_section(res, count)
        hardlinked_destination_section(res, count)
    if pid == "C19":
        split_listing_section(rng, thorough, res, count)       # the listing parser seen through the CLI: pieces, pauses
    if ndis:
        res["broken"].append(f"{pid}/corr: model and implementation disagree on {ndis} of {len(ops)} runs")
    res.update(evaluations=len(ops), distinct_nontrivial=len({q for q in ops if q.count("=") >= 2}), n_disagreements=ndis,
               n_oracle_failures=len(res["violations"]),
               rule="trees of 0–9 files over 24 awkward names (spaces, quotes, backslash, $, globs, newline, tab, leading dash, unicode, shell metacharacters) × 7 directories; "
                    "per-file destination state ∈ {absent, same size+mtime (sub-second differs), different size, different mtime, same size+mtime but other bytes}, stale extras; mtimes {0,1,1e9,1.7e9,year 2286 (the sandbox file system clamps later stamps),random} × sub-second parts; "
                    "flags over --delete, 0–2 --exclude patterns, --jobs {1,2,4,8}, --verbose; directions local/push/pull round-robin. Non-trivial: ≥ 2 files across both trees.")
    return res
