"""C02 / C06 / C07 — black-box correspondence + oracles for `copia bisync` on generated histories.

Every real `copia bisync` run becomes one model query `bi <host> <A> <B> <arch>` built from the state
actually observed on disk BEFORE the run (trees as path→BLAKE3, archive entries if the archive would
load); the model's answer is compared with what the real run left behind (status, plan length,
conflict count, both trees, archive entries).  The property oracles are evaluated on the real
before/after states.
"""
import json, os, shutil, subprocess
from bbox import Sandbox, Rng, blake3_hex, hexs, HOST, CLI_BIN

CONTENTS = [b"one\n", b"two two\n", b"3", b"", b"four-four-four-four\n", b"\x00\xff\x00five", b"six" * 50,
            # same lengths as others above: a rewrite that changes neither size nor (within the second of the last run) mtime
            b"1ne\n", b"ONE\n", b"TWO two\n", b"4",
            # block-multiple lengths ending in (or made of) zero blocks: a copy that keeps files sparse must still deliver every byte
            bytes(range(256)) * 256 + b"\x00" * 65536, b"\x00" * 131072, b"\x00" * 65536 + b"tail" + b"\x00" * 65532 + b"\x00" * 65536,
            # sizes at a power-of-two boundary and one byte to either side (a scan that treats "large" files differently: seed C06-L)
            bytes(range(251)) * 4178 + b"x" * (1048576 - 251 * 4178), bytes(range(251)) * 4178 + b"y" * (1048575 - 251 * 4178), bytes(range(251)) * 4178 + b"z" * (1048577 - 251 * 4178)]
PATHS = ["p", "q", "d/r", "d/e/s", "t.txt", "a b", "d.x"]
# every random history also gets three names from this list (seed C06-D: a file name containing `..` made the archive
# look tampered). None is a directory prefix of another or of PATHS; none ends in the reserved staging suffix.
EXOTIC = ["v1..v2.diff", ".hidden", "d/.e", "UP.txt", "up.txt", "a'b", "nl\nx", "é", "-dash", "tab\tz", "d/e/..s", "sp dir/f",
          "q.conflict-vh-000000000000", "~t", "$v", "Q3%20R.txt", "d/%41%zz", "100%.txt", "star*", "d..d/f", "...", "a\\b", "%p", "d/e/s.bak", "zz/.copia/x", ".copia/commit.lock", ".copia/notes"]


def archive_trust(raw, stem):
    """Would Archive::load accept these bytes? (serde_json strictness: no trailing garbage; all five
    fields present and well-typed; format_version == 1; root_pair_hash == the pair's hash)."""
    if raw is None:
        return None
    try:
        j = json.loads(raw.decode("utf-8"))
    except Exception:
        return None
    try:
        if not isinstance(j, dict):
            return None
        fv, rp, ep, hid, ent = j["format_version"], j["root_pair_hash"], j["epoch"], j["host_id"], j["entries"]
        if type(fv) is not int or not (0 <= fv < 2 ** 32) or type(rp) is not str or type(ep) is not int or not (0 <= ep < 2 ** 64):
            return None
        if type(hid) is not str or not isinstance(ent, dict):
            return None
        out = {}
        for k, v in ent.items():
            b = v["blake3"]
            if not (isinstance(b, list) and len(b) == 32 and all(type(x) is int and 0 <= x < 256 for x in b)):
                return None
            if v["ftype"] not in ("File", "Symlink"):
                return None
            out[k] = bytes(b).hex()
        if fv != 1 or rp != stem:
            return None
        return out
    except Exception:
        return None


def tree_tok(tree_digests):
    if not tree_digests:
        return "-"
    # same order as the driver prints: component-wise path order (Rust's PathBuf order)
    return ";".join(f"{hexs(p)}={d}" for p, d in sorted(tree_digests.items(), key=lambda kv: kv[0].split("/")))


def digests(tree):
    ps = sorted(tree)
    hs = blake3_hex([tree[p] for p in ps])
    return dict(zip(ps, hs))


def cname(p, dig):
    return f"{p}.conflict-{HOST}-{dig[:12]}"


class Hist:
    """One history in one sandbox."""

    def __init__(self, sb, swap=False):
        self.sb = sb
        self.A = sb.path("B" if swap else "A")
        self.B = sb.path("A" if swap else "B")
        os.makedirs(self.A, exist_ok=True)
        os.makedirs(self.B, exist_ok=True)
        self.T = {}          # tree both sides held at the end of the last completed run (path -> digest)
        self.T_bytes = {}
        self.completed = 0

    def root(self, side):
        return self.A if side == "A" else self.B

    def write(self, side, path, data, mtime=None):
        p = os.path.join(self.root(side), path)
        os.makedirs(os.path.dirname(p), exist_ok=True)
        with open(p, "wb") as f:
            f.write(data)
        if mtime is not None:
            os.utime(p, (mtime, mtime))

    def delete(self, side, path):
        try:
            os.remove(os.path.join(self.root(side), path))
        except OSError:
            pass

    def observe(self):
        ta, tb = self.sb.read_tree(self.A), self.sb.read_tree(self.B)
        ap = self.sb.archive_path()
        raw = open(ap, "rb").read() if ap else None
        stem = os.path.basename(ap)[:-5] if ap else None
        return ta, tb, raw, archive_trust(raw, stem)

    def bisync(self, dry=False):
        args = ["bisync", self.A, self.B] + (["--dry-run"] if dry else [])
        rc, out, err = self.sb.run(args)
        err = err.decode("utf-8", "replace")
        out = out.decode("utf-8", "replace")
        plan_n = conf_n = None
        for ln in err.split("\n"):
            if ln.startswith("Bidirectional plan:"):
                plan_n = int(ln.split()[2])
        for ln in out.split("\n"):
            if ln.startswith("Bidirectional sync complete:"):
                conf_n = int(ln.split()[5])     # "... N applied, M conflict(s) preserved."
        return rc, out, err, plan_n, conf_n, ("SAFE no-base mode" in err)


def gen_history(rng, length, c07=False):
    ops = []
    PATHS = globals()["PATHS"] + [rng.pick(EXOTIC) for _ in range(3)]
    made_conflict_names = []
    for i in range(length):
        r = rng.below(11)
        if r == 10:
            c = rng.pick(CONTENTS)
            ops.append(("both", rng.pick(PATHS), c, c))   # both sides make the SAME edit (converge-identical over a recorded base)
        elif r < 4:
            ops.append(("write", rng.pick("AB"), rng.pick(PATHS), rng.pick(CONTENTS)))
        elif r < 6:
            ops.append(("delete", rng.pick("AB"), rng.pick(PATHS)))
        elif r == 6:
            ops.append(("both", rng.pick(PATHS), rng.pick(CONTENTS), rng.pick(CONTENTS)))   # divergent edit
        elif r == 7:
            ops.append(("delboth", rng.pick(PATHS)))
        elif r == 8:
            ops.append(("editcc", rng.pick("AB"), rng.pick(CONTENTS)))   # edit a conflict-copy produced earlier
        else:
            ops.append(("recreate", rng.pick("AB"), rng.pick(PATHS)))    # re-create a path with content it had before
        if rng.coin(1, 2) or i == length - 1:
            if c07 and rng.coin(1, 2):
                ops.append(("fault", rng.below(15), rng.next()))
            ops.append(("bisync",))
    return ops


def apply_fault(sb, kind, rnd):
    """C07 archive faults; returns a label (or None if there is nothing to damage)."""
    d = os.path.join(sb.home, ".copia", "archive")
    ap = sb.archive_path()
    if ap is None:
        return None
    raw = open(ap, "rb").read()
    if kind == 0:
        os.remove(ap); return "absent"
    if kind == 1:
        open(ap, "wb").close(); return "zero-length"
    if kind in (2, 3, 4):
        n = rnd % max(len(raw), 1); open(ap, "wb").write(raw[:n]); return f"truncated@{n}/{len(raw)}"
    if kind == 5:
        open(ap, "wb").write(bytes((rnd >> (8 * (i % 8))) & 0xFF for i in range(64))); return "garbage"
    if kind == 6:
        open(ap, "wb").write(b'{"entries": [], "format_version": "1"}'); return "wrong-shape"
    if kind == 7:
        open(ap, "wb").write(b"[1,2,3]"); return "json-array"
    if kind == 8:
        j = json.loads(raw); j["format_version"] = [0, 2, 3, 7, 255, 65536, 4294967295, 0][rnd % 8]
        open(ap, "wb").write(json.dumps(j).encode()); return f"format_version={j['format_version']}"
    if kind == 9:
        j = json.loads(raw); j["root_pair_hash"] = "0" * 64; open(ap, "wb").write(json.dumps(j).encode()); return "other-pair"
    if kind == 10:
        shutil.move(ap, ap + ".bak"); return "only-.bak"
    if kind == 11:
        shutil.move(ap, ap + ".tmp"); return "only-.tmp"
    if kind in (12, 13):
        # valid JSON, this pair's hash, the entries intact — one of the five members missing (every member is required: a record
        # that does not SAY it is format 1 of this pair is not one)
        j = json.loads(raw); m = ["format_version", "root_pair_hash", "epoch", "host_id", "entries", "format_version"][rnd % 6]
        j.pop(m, None); open(ap, "wb").write(json.dumps(j).encode()); return f"member-missing={m}"
    if kind == 14:
        j = json.loads(raw); m = ["format_version", "root_pair_hash", "format_version"][rnd % 3]
        j[{"format_version": "version", "root_pair_hash": "pair"}[m]] = j.pop(m); open(ap, "wb").write(json.dumps(j).encode()); return f"member-renamed={m}"
    return None


# root-name pairs that a sloppy pair identity conflates: invalid UTF-8 differing in one byte (lossy decoding), Unicode
# normal forms, letter case, runs of spaces, a trailing dot, an invisible character
PAIR_NAMES = [(b"caf\xe9", b"caf\xe8"), (b"a\xffb", b"a\xfeb"), ("e\u0301t\u00e9".encode(), "\u00e9te\u0301".encode()),
              (b"Dir", b"dir"), (b"x y", b"x  y"), (b"p.", b"p"), (b"q", "q\u200b".encode()), (b"ab", b"a")]


def two_filesystems_section(pid, res, count):
    """C02 / C06 on a replica root that spans TWO filesystems (a mounted disk, a bind mount or a subvolume below the root): files
    on the two filesystems can carry the same inode NUMBER. With hard-linked files of equal inode number on either side of the
    mount point, the first run must deliver every file's own bytes, an immediate second run is idle, and a divergent edit (in
    place on the two-filesystem side) keeps both versions (seed C02-M: digests reused per `st_ino` without `st_dev`).
    Skipped (counted) where tmpfs mounts are not permitted."""
    import re
    with Sandbox(pid) as sb:
        a, b = sb.path("A"), sb.path("B")
        os.makedirs(a); os.makedirs(b)
        mounted = []
        try:
            for mp in (a, os.path.join(a, "sub")):
                os.makedirs(mp, exist_ok=True)
                if subprocess.run(["mount", "-t", "tmpfs", "none", mp], stdout=subprocess.PIPE, stderr=subprocess.PIPE).returncode != 0:
                    count("two-filesystems/skipped-no-mount")
                    return
                mounted.append(mp)
            k, v = os.path.join(a, "k"), os.path.join(a, "sub", "v")
            open(k, "wb").write(b"KKKK"); open(v, "wb").write(b"V0")
            for _ in range(3000):
                ik, iv = os.stat(k).st_ino, os.stat(v).st_ino
                if ik == iv:
                    break
                if iv < ik:
                    os.remove(v); open(v, "wb").write(b"V0")
                else:
                    os.remove(k); open(k, "wb").write(b"KKKK")
            if os.stat(k).st_ino != os.stat(v).st_ino or os.stat(k).st_dev == os.stat(v).st_dev:
                count("two-filesystems/skipped-inode-numbers-differ")
                return
            os.link(k, k + ".lnk"); os.link(v, v + ".lnk")
            want1 = {"k": b"KKKK", "k.lnk": b"KKKK", "sub/v": b"V0", "sub/v.lnk": b"V0"}
            hist = ["A = tmpfs, A/sub = another tmpfs; A/k (+ hard link k.lnk) and A/sub/v (+ hard link v.lnk) have the same inode number", "bisync"]
            rc1, _, e1 = sb.run(["bisync", a, b])
            tb = sb.read_tree(b)
            count("two-filesystems/first-run")
            rep = {"history": list(hist), "rc": rc1, "stderr": e1.decode("utf-8", "replace")[-300:], "B": {p_: c_[:20].decode("latin1") for p_, c_ in tb.items()}}
            if rc1 == 0 and tb != want1:
                res["violations"].append(("first-run-did-not-converge", f"after an exit-0 first run into an empty replica, B differs from A at {sorted(p_ for p_ in set(tb) | set(want1) if tb.get(p_) != want1.get(p_))}", rep))
            rc2, o2, e2 = sb.run(["bisync", a, b, "--dry-run"])
            m = re.search(r"Bidirectional plan: (\d+)", e2.decode("utf-8", "replace"))
            if pid == "C06" and rc1 == 0 and m and int(m.group(1)) != 0:
                res["violations"].append(("second-run-not-idle", f"an immediate second run plans {m.group(1)} action(s)", dict(rep, second_run=e2.decode("utf-8", "replace")[-300:])))
            open(v, "r+b").write(b"edit-made-on-A"); open(os.path.join(b, "sub", "v"), "wb").write(b"edit-made-on-B")
            hist += ["write A sub/v (in place) 'edit-made-on-A'", "write B sub/v 'edit-made-on-B'", "bisync"]
            rc3, _, e3 = sb.run(["bisync", a, b])
            ta, tb = sb.read_tree(a), sb.read_tree(b)
            count("two-filesystems/divergent-edit")
            rep = {"history": hist, "rc": rc3, "stderr": e3.decode("utf-8", "replace")[-300:]}
            for side_, t_ in (("A", ta), ("B", tb)):
                for want in (b"edit-made-on-A", b"edit-made-on-B"):
                    if want not in t_.values() and (rc3 == 0 or b"had conflicts" in e3):
                        res["violations"].append(("version-lost", f"after the run the version {want.decode()!r} of sub/v exists nowhere on side {side_}", rep))
        finally:
            for mp in reversed(mounted):
                subprocess.run(["umount", "-l", mp], stdout=subprocess.PIPE, stderr=subprocess.PIPE)


def foreign_owner_section(pid, res, count):
    """C02 / C07 for a runner that is NOT root: the replicas belong to the account that runs `bisync`, but one file of replica B was
    put there by ANOTHER account (mode 0644: readable by everyone, as in a shared directory or after a restore). Readable is
    readable — the scan must see the file: both versions of a divergent edit survive, also (C07) when the archive was damaged
    (seeds C07-N / C13-N: files opened with O_NOATIME, which the kernel refuses with EPERM to anyone but the owner; the scan skips
    what it cannot hash, the path looks one-sided and the other replica's version is copied over it).
    Skipped (counted) when not root or without setpriv."""
    import shutil as _sh
    if os.geteuid() != 0 or not _sh.which("setpriv"):
        count("foreign-owner/skipped")
        return
    u1, u2 = 23001, 23002
    for fault in ((None, "truncate") if pid == "C07" else (None,)):
        with Sandbox(pid) as sb:
            a, b = sb.path("A"), sb.path("B")
            os.chmod(sb.dir, 0o755)
            tree = {"report.txt": b"report v0\n", "sub/minutes.txt": b"minutes v0\n", "keep.txt": b"kept\n"}
            sb.write_tree(a, tree); sb.write_tree(b, tree)
            for top in (a, b, sb.home):
                for d_, dn, fn in os.walk(top):
                    os.chown(d_, u1, u1)
                    for f_ in fn:
                        os.chown(os.path.join(d_, f_), u1, u1)
            prefix = ["setpriv", "--reuid", str(u1), "--regid", str(u1), "--clear-groups"]
            rc1, o1, e1 = sb.run(["bisync", a, b], prefix=prefix)
            if rc1 != 0:
                count("foreign-owner/skipped-first-run-failed")
                continue
            va = {"report.txt": b"report edited on A by the runner\n", "sub/minutes.txt": b"minutes edited on A\n"}
            vb = {"report.txt": b"report replaced on B by another account\n", "sub/minutes.txt": b"minutes replaced on B by another account\n"}
            for rel, data in va.items():
                p_ = os.path.join(a, rel); open(p_, "wb").write(data); os.chown(p_, u1, u1)
            for rel, data in vb.items():
                p_ = os.path.join(b, rel); os.remove(p_); open(p_, "wb").write(data); os.chown(p_, u2, u2); os.chmod(p_, 0o644)
            lab = None
            if fault:
                ap = sb.archive_path()
                if ap:
                    raw = open(ap, "rb").read(); open(ap, "wb").write(raw[:len(raw) // 2]); os.chown(ap, u1, u1); lab = "archive truncated to half"
            before = set(sb.read_tree(a).values()) | set(sb.read_tree(b).values())
            paths_before = set(sb.read_tree(a)) | set(sb.read_tree(b))
            rc2, o2, e2 = sb.run(["bisync", a, b], prefix=prefix)
            ta, tb = sb.read_tree(a), sb.read_tree(b)
            count("foreign-owner/" + ("archive-fault" if fault else "trusted"))
            rep = {"history": ["A, B, $HOME owned by uid 23001; bisync as 23001", "A: report.txt, sub/minutes.txt edited by 23001",
                               "B: the same two files REPLACED by files of uid 23002 (0644)"] + ([lab] if lab else []) + ["bisync as 23001"],
                   "rc": rc2, "stderr": e2.decode("utf-8", "replace")[-400:], "A": sorted(ta), "B": sorted(tb)}
            if rc2 == 0 or b"had conflicts" in e2:
                for side_, t_ in (("A", ta), ("B", tb)):
                    lost = [c_[:40] for c_ in before if c_ not in t_.values()]
                    if lost:
                        res["violations"].append(("version-lost", f"after the run (rc {rc2}) side {side_} no longer holds {len(lost)} version(s) that existed before it, e.g. {lost[0]!r}: a readable file owned by another account was not seen by the scan", rep))
                        break
                gone = sorted(p_ for p_ in paths_before if p_ not in ta or p_ not in tb)
                if gone:
                    res["violations"].append(("path-disappeared", f"after the run {gone} are missing on a side", rep))


def symlink_tie_section(pid, res, count):
    """C02 / C07: one path is a SYMLINK on one side (`current -> notes-v2.txt`) and a REGULAR FILE on the other whose bytes are the
    link's target string (what a checkout without symlink support leaves). The two fingerprints carry the same digest (a symlink
    hashes its target string) and different types: a conflict — both versions survive, with and without a trusted archive
    (seed C07-O: the loser's conflict copy was skipped "because the digests are equal", while `copy_atomic` follows the link and
    overwrote the 12-byte file with the linked file's content)."""
    for fault in ((False, True) if pid == "C07" else (False,)):
        for link_side in ("A", "B"):
            with Sandbox(pid) as sb:
                a, b = sb.path("A"), sb.path("B")
                base = {"notes-v2.txt": b"the notes, second version\n" * 3, "keep.txt": b"kept\n"}
                sb.write_tree(a, base); sb.write_tree(b, base)
                rc0, _, _ = sb.run(["bisync", a, b])
                ls, fs_ = (a, b) if link_side == "A" else (b, a)
                os.symlink("notes-v2.txt", os.path.join(ls, "current"))
                open(os.path.join(fs_, "current"), "wb").write(b"notes-v2.txt")
                lab = None
                if fault:
                    ap = sb.archive_path()
                    if ap:
                        open(ap, "wb").close(); lab = "archive zero-length"
                rc, out, err = sb.run(["bisync", a, b])
                count("symlink-vs-file-with-the-target-string/" + ("archive-fault" if fault else "trusted"))
                def versions(root):
                    got = set()
                    for d_, _, fns in os.walk(root):
                        for fn in fns:
                            p_ = os.path.join(d_, fn)
                            if os.path.islink(p_):
                                got.add(("link", os.readlink(p_)))
                            elif os.path.isfile(p_):
                                got.add(("file", open(p_, "rb").read()))
                    return got
                va, vb = versions(a), versions(b)
                rep = {"history": ["both: notes-v2.txt, keep.txt; bisync", f"{link_side}: current -> notes-v2.txt (symlink)", "other side: current = the 12 bytes `notes-v2.txt`"] + ([lab] if lab else []) + ["bisync"],
                       "rc": rc, "stderr": err.decode("utf-8", "replace")[-300:], "A": sorted(os.listdir(a)), "B": sorted(os.listdir(b))}
                if rc == 0 or b"had conflicts" in err:
                    for side_, v_ in (("A", va), ("B", vb)):
                        if ("file", b"notes-v2.txt") not in v_:
                            res["violations"].append(("version-lost", f"after the run the 12-byte regular file version of `current` exists nowhere on side {side_}", rep))
                            break


def unhashable_file_section(pid, res, count):
    """C02: both replicas hold, among ordinary files, one file the walk LISTS and the scan cannot HASH (its own path is longer than
    PATH_MAX: `open` fails with ENAMETOOLONG). Such a file is skipped, never guessed — and the files around it keep THEIR OWN
    digests: one side edits one file, the other side another, both edits propagate (seed C02-O: digests computed in parallel and
    zipped back to the paths AFTER dropping the failures, so every path after the unhashable one got its successor's digest)."""
    with Sandbox(pid) as sb:
        a, b = sb.path("A"), sb.path("B")
        base = {"m.txt": b"m v0\n", "notes.txt": b"notes v0\n", "report.txt": b"report v0\n", "z.txt": b"z v0\n"}
        cwd0 = os.getcwd()
        for root in (a, b):
            sb.write_tree(root, base)
            try:
                os.chdir(root)
                comp, depth = "d" * 200, 0
                os.mkdir("0deep"); os.chdir("0deep")
                while len(root) + 7 + depth * 201 + 201 < 4000:
                    os.mkdir(comp); os.chdir(comp); depth += 1
                open("L" * 240, "wb").write(b"its own path does not fit PATH_MAX\n")
            finally:
                os.chdir(cwd0)
        try:
            rc1, _, e1 = sb.run(["bisync", a, b], timeout=120)
            if rc1 != 0:
                count("unhashable-file/skipped-first-run-failed")
                return
            open(os.path.join(b, "notes.txt"), "wb").write(b"notes v1 - written on B\n")
            open(os.path.join(a, "report.txt"), "wb").write(b"report v1 - written on A\n")
            rc2, _, e2 = sb.run(["bisync", a, b], timeout=120)
            count("unhashable-file/divergent-edits-around-it")
            ga = {k: open(os.path.join(a, k), "rb").read() for k in base}; gb = {k: open(os.path.join(b, k), "rb").read() for k in base}
            rep = {"history": ["A, B: m.txt notes.txt report.txt z.txt and 0deep/…/LLL… (path > PATH_MAX); bisync", "B: notes.txt edited", "A: report.txt edited", "bisync"],
                   "rc": rc2, "stderr": e2.decode("utf-8", "replace")[-300:], "A": {k: v[:30].decode() for k, v in ga.items()}, "B": {k: v[:30].decode() for k, v in gb.items()}}
            if rc2 == 0:
                want = dict(base, **{"notes.txt": b"notes v1 - written on B\n", "report.txt": b"report v1 - written on A\n"})
                if ga != want or gb != want:
                    res["violations"].append(("version-lost", "two one-sided edits of different files next to an unhashable file: after an exit-0 run the replicas do not both hold both edits", rep))
        finally:
            for root in (a, b):
                shutil.rmtree(os.path.join(root, "0deep"), ignore_errors=True)


def non_utf8_section(pid, res, count):
    """C02 on names that are not valid UTF-8 (oracle only: the model's names are strings). Whatever the tool does with such a
    name — today every run fails at the save of the record, after converging the trees — a file created on ONE side must never be
    DELETED: `caf\\xE9.txt` synced on both sides, then `caf<U+FFFD>.txt` (what a lossy conversion makes of the first name) created
    on one side with the same content. A record keyed by lossy names holds false evidence that both sides had it (seed C02-K)."""
    for side in (b"A", b"B"):
        for same in (True, False):
            with Sandbox(pid) as sb:
                base = os.fsencode(sb.dir)
                a, b = os.path.join(base, b"A"), os.path.join(base, b"B")
                os.makedirs(a); os.makedirs(b)
                for r_ in (a, b):
                    open(os.path.join(r_, b"caf\xe9.txt"), "wb").write(b"v0 synced\n")
                    open(os.path.join(r_, b"plain.txt"), "wb").write(b"p\n")
                runs = []
                def go():
                    r = subprocess.run([os.fsencode(CLI_BIN), b"bisync", a, b], env=sb.env, cwd=sb.dir, stdout=subprocess.PIPE, stderr=subprocess.PIPE)
                    runs.append((r.returncode, r.stderr.decode("utf-8", "replace")[-200:]))
                go(); go()
                twin = "caf\ufffd.txt".encode()
                body = b"v0 synced\n" if same else b"other content\n"
                open(os.path.join(a if side == b"A" else b, twin), "wb").write(body)
                go(); go()
                count("non-utf8/lossy-twin")
                here = {s_: os.path.exists(os.path.join(r_, twin)) and open(os.path.join(r_, twin), "rb").read() == body for s_, r_ in (("A", a), ("B", b))}
                rep = {"history": ["both sides: caf\\xe9.txt = v0, plain.txt", "bisync x2", f"write {side.decode()} caf<U+FFFD>.txt = {'v0 (same bytes)' if same else 'other'}", "bisync x2"],
                       "runs": runs, "twin_present": here}
                if not here[side.decode()]:
                    res["violations"].append(("one-sided-creation-deleted", f"a file created on side {side.decode()} only (its name is the lossy form of a non-UTF-8 name already synced) is gone from that side after bisync", rep))
                elif not all(here.values()) and all(rc == 0 for rc, _ in runs[2:]):
                    res["violations"].append(("one-sided-creation-not-propagated", "the run(s) exited 0 and the one-sided creation is not on both sides", rep))


def pair_identity_section(pid, res, count):
    """C06/C07: the record of one root pair is never taken for another pair's. The archive's name must be
    blake3(canon(A) NUL canon(B)) over the exact path BYTES (the model of pair identity), and a first run on a pair
    whose root names differ from an already-synced pair's only in bytes a lossy comparison conflates must be in
    SAFE no-base mode: a one-sided file whose content the OTHER pair's record lists at that path is created, not deleted."""
    ndis = 0
    for n1, n2 in PAIR_NAMES:
        with Sandbox(pid) as sb:
            base = os.fsencode(sb.dir)
            roots = {}
            for tag, nm in (("1", n1), ("2", n2)):
                a, b = os.path.join(base, nm, b"A"), os.path.join(base, nm, b"B")
                os.makedirs(a); os.makedirs(b)
                roots[tag] = (a, b)
            a1, b1 = roots["1"]; a2, b2 = roots["2"]
            for r_ in (a1, b1):
                with open(os.path.join(r_, b"notes.txt"), "wb") as f:
                    f.write(b"shared template\n")
            env = sb.env
            r1 = subprocess.run([os.fsencode(CLI_BIN), b"bisync", a1, b1], env=env, cwd=sb.dir, stdout=subprocess.PIPE, stderr=subprocess.PIPE)
            files = [f for f in sb.archive_files() if f.endswith(".json")]
            want = blake3_hex([os.path.realpath(a1) + b"\0" + os.path.realpath(b1)])[0]
            count("pair-identity/probes")
            rep = {"root_names": [n1.hex(), n2.hex()], "archive_files": files, "expected_stem": want, "rc1": r1.returncode}
            if files != [want + ".json"]:
                ndis += 1
                res.setdefault("pair_disagreements", []).append(rep)
            with open(os.path.join(a2, b"notes.txt"), "wb") as f:
                f.write(b"shared template\n")
            r2 = subprocess.run([os.fsencode(CLI_BIN), b"bisync", a2, b2], env=env, cwd=sb.dir, stdout=subprocess.PIPE, stderr=subprocess.PIPE)
            rep2 = dict(rep, rc2=r2.returncode, stderr2=r2.stderr.decode("utf-8", "replace")[-300:],
                        history=[f"pair 1 = <{n1!r}>/A,B both hold notes.txt; bisync", f"pair 2 = <{n2!r}>/A holds the same notes.txt, B is empty; bisync"])
            ok_a = os.path.exists(os.path.join(a2, b"notes.txt")); ok_b = os.path.exists(os.path.join(b2, b"notes.txt"))
            if b"SAFE no-base mode" not in r2.stderr:
                res["violations"].append(("foreign-archive-trusted", "the first run on a root pair trusted the record of ANOTHER pair (root names differing only in bytes a lossy comparison conflates)", rep2))
            if not (ok_a and ok_b):
                res["violations"].append(("file-removed-under-foreign-archive", f"notes.txt existed on side A of a never-synced pair and is {'missing on A' if not ok_a else 'not created on B'} after the run", rep2))
    # a root reached through a SYMLINK, and the link re-pointed at another directory between two runs: the pair is the pair of
    # DIRECTORIES (canonical paths), not of spellings — the record made for the old target must not be trusted for the new one
    for via_parent in (False, True):
        with Sandbox(pid) as sb:
            base = os.fsencode(sb.dir)
            t1, t2, b_ = os.path.join(base, b"store1", b"A"), os.path.join(base, b"store2", b"A"), os.path.join(base, b"B")
            for d_ in (t1, t2, b_):
                os.makedirs(d_)
            for r_ in (t1, b_):
                open(os.path.join(r_, b"f"), "wb").write(b"both\n"); open(os.path.join(r_, b"g"), "wb").write(b"recorded on both sides\n")
            open(os.path.join(t2, b"f"), "wb").write(b"both\n")
            if via_parent:
                link = os.path.join(base, b"cur"); os.symlink(b"store1", link); root_a = os.path.join(link, b"A")
            else:
                link = os.path.join(base, b"work"); os.symlink(os.path.join(b"store1", b"A"), link); root_a = link
            env = sb.env
            r1 = subprocess.run([os.fsencode(CLI_BIN), b"bisync", root_a, b_], env=env, cwd=sb.dir, stdout=subprocess.PIPE, stderr=subprocess.PIPE)
            files = [f for f in sb.archive_files() if f.endswith(".json")]
            want = blake3_hex([os.path.realpath(t1) + b"\0" + os.path.realpath(b_)])[0]
            count("pair-identity/symlinked-root")
            rep = {"root": root_a.decode(), "link_target": "store1", "archive_files": files, "expected_stem": want, "rc1": r1.returncode}
            if files != [want + ".json"]:
                ndis += 1
                res.setdefault("pair_disagreements", []).append(rep)
            os.remove(link)
            os.symlink(b"store2" if via_parent else os.path.join(b"store2", b"A"), link)
            r2 = subprocess.run([os.fsencode(CLI_BIN), b"bisync", root_a, b_], env=env, cwd=sb.dir, stdout=subprocess.PIPE, stderr=subprocess.PIPE)
            rep2 = dict(rep, rc2=r2.returncode, stderr2=r2.stderr.decode("utf-8", "replace")[-300:],
                        history=[f"{root_a.decode()} -> store1/A; A and B both hold f, g; bisync", "the link is re-pointed at store2/A, which holds f only; bisync with the same arguments"])
            if b"SAFE no-base mode" not in r2.stderr:
                res["violations"].append(("foreign-archive-trusted", "after the root symlink was re-pointed at another directory the run trusted the record made for the OLD directory pair", rep2))
            if not (os.path.exists(os.path.join(b_, b"g")) and os.path.exists(os.path.join(t2, b"g"))):
                res["violations"].append(("file-removed-under-foreign-archive", "B/g is listed in the record of the old pair; with the new directory behind the link it was removed instead of created there", rep2))
    # a root that does NOT exist, given by a relative name, from two different working directories (two different would-be
    # directories behind one spelling): whatever the first run recorded must not be trusted by the second
    with Sandbox(pid) as sb:
        base = os.fsencode(sb.dir)
        data, c1, c2 = os.path.join(base, b"data"), os.path.join(base, b"P1"), os.path.join(base, b"P2")
        for d_ in (data, c1, c2):
            os.makedirs(d_)
        for nm in (b"a.txt", b"b.txt", b"sub/c.txt"):
            os.makedirs(os.path.dirname(os.path.join(data, nm)), exist_ok=True)
            open(os.path.join(data, nm), "wb").write(b"content of " + nm)
        before = sb.read_tree(data.decode())
        r1 = subprocess.run([os.fsencode(CLI_BIN), b"bisync", data, b"mirror"], env=sb.env, cwd=c1, stdout=subprocess.PIPE, stderr=subprocess.PIPE)
        r2 = subprocess.run([os.fsencode(CLI_BIN), b"bisync", data, b"mirror"], env=sb.env, cwd=c2, stdout=subprocess.PIPE, stderr=subprocess.PIPE)
        after = sb.read_tree(data.decode())
        count("pair-identity/missing-relative-root")
        if any(k not in after for k in before):
            res["violations"].append(("file-removed-under-foreign-archive", "`bisync data mirror` from a second working directory (where `mirror` does not exist either) removed files of data/ on the strength of the record the first run made for ANOTHER mirror directory",
                                      {"rc1": r1.returncode, "rc2": r2.returncode, "stderr2": r2.stderr.decode("utf-8", "replace")[-300:], "before": sorted(before), "after": sorted(after)}))
    if ndis:
        res["broken"].append(f"{pid}/corr/pair-identity: the archive file name differs from blake3(canon(A) NUL canon(B)) over the exact path bytes for {ndis} of {len(PAIR_NAMES) + 2} root pairs")
    return ndis


def run(pid, tier, seed, rundir, model_run):
    rng = Rng(seed ^ 0xC02)
    thorough = tier == "thorough"
    n_hist = {"C02": 70, "C06": 60, "C07": 70}[pid] * (12 if thorough else 1)
    ops_f = open(os.path.join(rundir, "ops.txt"), "w")
    impl_lines, meta_lines = [], []
    res = {"violations": [], "broken": [], "notes": [], "distribution": {}, "samples": []}
    dist = res["distribution"]

    def count(k, n=1):
        dist[k] = dist.get(k, 0) + n

    distinct = set()
    nbis = 0
    corpus = [
        # D4: create, sync, delete on both sides, sync, re-create the same content on A, sync
        [("write", "A", "p", b"one\n"), ("bisync",), ("delboth", "p"), ("bisync",), ("write", "A", "p", b"one\n"), ("bisync",), ("bisync",)],
        # D10: conflict, then edit the conflict copy and repeat the conflict with the same loser
        [("write", "A", "p", b"3"), ("bisync",), ("both", "p", b"one\n", b"two two\n"), ("bisync",),
         ("editcc", "A", b"six" * 50), ("both", "p", b"one\n", b"four-four-four-four\n"), ("bisync",), ("bisync",)],
        # (seed C02-C) both sides make the SAME edit over a recorded base, then one side goes on and the other goes back
        [("both", "p", b"one\n", b"one\n"), ("bisync",), ("both", "p", b"two two\n", b"two two\n"), ("bisync",),
         ("write", "A", "p", b"3"), ("write", "B", "p", b"one\n"), ("bisync",), ("bisync",)],
        # delete-vs-modify, first run without archive, several paths
        [("write", "A", "p", b"one\n"), ("write", "B", "q", b"3"), ("write", "A", "d/r", b""), ("bisync",),
         ("delete", "A", "p"), ("write", "B", "p", b"two two\n"), ("delete", "B", "d/r"), ("bisync",), ("bisync",)],
    ]
    corpus.append(
        # (seed C02-F) a same-length rewrite right after a run, in the same second, then the other side changes the path: the
        # rewritten version is one side of a divergent edit, whatever size and mtime say
        [("write", "A", "p", b"one\n"), ("bisync",), ("write", "A", "p", b"1ne\n"), ("write", "B", "p", b"two two\n"), ("bisync",), ("bisync",),
         ("write", "B", "q", b"ONE\n"), ("bisync",), ("write", "B", "q", b"one\n"), ("delete", "A", "q"), ("bisync",), ("bisync",)])
    corpus.append(
        # (seed C06-F) a propagated delete empties a replica through a NESTED path: the roots themselves must survive, the next run must work
        [("write", "A", "d/e/x", b"one\n"), ("bisync",), ("delete", "A", "d/e/x"), ("bisync",), ("bisync",), ("write", "B", "p", b"3"), ("bisync",)])
    # (seed C02-G) a path that CANNOT be delivered: its name fits NAME_MAX, the staging name (+10 bytes) does not, so the copy fails and
    # the run stops there with an error, every time. A failed run is a run that stopped: nothing may be recorded for the path, and no
    # later run may take the undelivered version for one "both sides held".
    LONG = "n" * 250
    corpus.append([("write", "A", LONG, b"one\n"), ("write", "A", "p", b"3"), ("bisync",), ("bisync",), ("write", "B", "q", b"two two\n"), ("bisync",)])
    corpus.append([("both", "p", b"one\n", b"one\n"), ("bisync",), ("write", "B", "d/" + LONG, b"two two\n"), ("write", "A", "p", b"3"), ("bisync",), ("bisync",), ("bisync",)])
    # (seed C02-J) a replica root may itself hold a directory named `.copia` (it is, or was, served as a hub): its files are user
    # files like any others, on both sides, whether or not one side also holds `.copia/commit.lock`
    corpus.append([("both", ".copia/notes", b"one\n", b"one\n"), ("write", "A", ".copia/todo", b"3"), ("bisync",),
                   ("write", "A", ".copia/commit.lock", b""), ("write", "A", ".copia/notes", b"two two\n"), ("write", "B", ".copia/notes", b"four-four-four-four\n"),
                   ("write", "A", ".copia/new", b"ONE\n"), ("bisync",), ("bisync",)])
    corpus.append([("write", "B", ".copia/commit.lock", b""), ("write", "A", ".copia/x", b"one\n"), ("write", "B", ".copia/y", b"3"), ("bisync",),
                   ("delete", "A", ".copia/y"), ("write", "B", ".copia/x", b"two two\n"), ("bisync",), ("bisync",)])
    # (seed C02-L) a conflict copy C is itself edited on both sides (a conflict ON C), and later one side edits it again while the
    # other restores C's ORIGINAL bytes: the loser of that conflict is kept under a name derived from C — never C itself
    for orig in (b"one\n", b"two two\n"):
        for again in (b"4", b"3", b"six" * 50):
            corpus.append([("both", "p", b"one\n", b"two two\n"), ("bisync",), ("editcc0", "A", b"ONE\n"), ("editcc0", "B", b"TWO two\n"), ("bisync",),
                           ("editcc0", "A", again), ("editcc0", "B", orig), ("bisync",), ("bisync",)])
    # (seed C06-M) log rotation: the old bytes of p move to a NEW name that sorts after p, p itself gets new bytes — delivering the
    # new name to the other side must deliver the OLD bytes (the other side's own copy of them, at p, is overwritten in this very run)
    corpus.append([("both", "p", b"one\n", b"one\n"), ("bisync",), ("write", "A", "q", b"one\n"), ("write", "A", "p", b"two two\n"), ("bisync",), ("bisync",)])
    corpus.append([("both", "d/e/x", b"3", b"3"), ("bisync",), ("write", "B", "d/e/x.1", b"3"), ("write", "B", "d/e/x", b"ONE\n"), ("write", "A", "p", b"3"), ("bisync",), ("bisync",)])
    # (seed C07-M) ONE path diverges ten times: ten conflict copies of it, identical on both sides, accumulate. Whatever a run
    # thinks of old conflict copies (a cap, a clean-up), they are versions like any other: none may vanish — in particular not in a
    # run whose archive was damaged (C07: such a run deletes nothing)
    many = []
    for k_ in range(10):
        many.append(("both", "p", b"A side, edit %d\n" % k_, b"B side, edit %d\n" % k_))
        if pid == "C07" and k_ in (8, 9):
            many.append(("fault", [0, 10][k_ - 8], 1))
        many.append(("bisync",))
    many.append(("bisync",))
    corpus.append(many)
    # (seed C02-P) a draft replaced by the final version: in ONE run the only recorded file of a sub-directory is deleted on B and a new
    # file appears in that same directory on B — a run that tidies directories "emptied by its deletes" must not take the new file along
    corpus.append([("both", "docs/draft.txt", b"one\n", b"one\n"), ("both", "docs/old/x", b"3", b"3"), ("bisync",), ("delete", "B", "docs/draft.txt"), ("delete", "B", "docs/old/x"),
                   ("write", "B", "docs/final.txt", b"two two\n"), ("write", "B", "docs/old/y", b"ONE\n"), ("bisync",), ("bisync",)])
    corpus.append([("both", "d/e/s", b"one\n", b"one\n"), ("bisync",), ("delete", "A", "d/e/s"), ("write", "A", "d/e/s2", b"3"), ("write", "B", "p", b"3"), ("bisync",), ("bisync",)])
    histories = [(h, "corpus") for h in corpus] + [(None, "random") for _ in range(n_hist)]
    for hi, (hops, hkind) in enumerate(histories):
        length = rng.range(2, 12)
        if hops is None:
            hops = gen_history(rng, length, c07=(pid == "C07"))
        variant = None
        if pid == "C06" and hkind == "random" and hi % 3 == 0:
            variant = "swap" if hi % 2 == 0 else "mtime"
        final_main = None
        for run_variant in ([None, variant] if variant else [None]):
            with Sandbox(pid) as sb:
                h = Hist(sb, swap=(run_variant == "swap"))
                ccnames = []
                d10_seen = False      # a D10 clash earlier in THIS history: what follows from it later (record, idleness) is the same finding
                history_txt = []
                tmt = 1_600_000_000
                for opi, op in enumerate(hops):
                    tmt += 1
                    mt = (tmt * 7919) % 2_000_000_000 if run_variant == "mtime" else None
                    if mt is None and pid == "C07" and (hi + opi) % 3 == 0:
                        # a modification time AFTER the start of every run (a scan that distrusts "too fresh" files and leaves them
                        # out makes a present file look absent — in no-base mode the other side's version is then copied over it)
                        mt = 4_000_000_000 - tmt
                    if op[0] == "write":
                        h.write(op[1], op[2], op[3], mt); history_txt.append(f"write {op[1]} {op[2]} {op[3][:12]!r}")
                    elif op[0] == "delete":
                        h.delete(op[1], op[2]); history_txt.append(f"delete {op[1]} {op[2]}")
                    elif op[0] == "both":
                        h.write("A", op[1], op[2], mt); h.write("B", op[1], op[3], mt); history_txt.append(f"write A,B {op[1]} {op[2][:8]!r}/{op[3][:8]!r}")
                    elif op[0] == "delboth":
                        h.delete("A", op[1]); h.delete("B", op[1]); history_txt.append(f"delete A,B {op[1]}")
                    elif op[0] == "editcc0":
                        if ccnames:
                            # the FIRST conflict copy of the history (a later conflict on it produces further names)
                            h.write(op[1], ccnames[0], op[2], mt); history_txt.append(f"write {op[1]} {ccnames[0]} {op[2][:8]!r}")
                    elif op[0] == "editcc":
                        if ccnames:
                            # the choice is a function of the history position, NOT of the generator state: the same history replayed
                            # under a variant (mtime / swap) must perform the same edits
                            nm = ccnames[(hi * 31 + opi * 7) % len(ccnames)] if hkind == "random" else ccnames[-1]
                            h.write(op[1], nm, op[2], mt); history_txt.append(f"write {op[1]} {nm} {op[2][:8]!r}")
                    elif op[0] == "recreate":
                        if op[2] in h.T_bytes:
                            h.write(op[1], op[2], h.T_bytes[op[2]], mt); history_txt.append(f"recreate {op[1]} {op[2]}")
                    elif op[0] == "fault":
                        lab = apply_fault(sb, op[1], op[2])
                        if lab:
                            history_txt.append(f"fault {lab}"); count("fault/" + lab.split("@")[0].split("=")[0])
                    elif op[0] == "bisync":
                        ta, tb, raw, trusted = h.observe()
                        da, db = digests(ta), digests(tb)
                        rc, out, err, plan_n, conf_n, safe = h.bisync()
                        ta2, tb2, raw2, trusted2 = h.observe()
                        for side_, root_ in (("A", h.A), ("B", h.B)):
                            if not os.path.isdir(root_):
                                res["violations"].append(("replica-root-removed", f"after the run the root directory of side {side_} no longer exists", {"history": list(history_txt) + ["bisync"], "rc": rc}))
                        da2, db2 = digests(ta2), digests(tb2)
                        nbis += 1
                        status = "ok" if rc == 0 else ("conflicts" if "had conflicts" in err else "ioerror")
                        arch_tok = "none" if trusted is None else tree_tok(trusted)
                        q = f"bi {hexs(HOST)} {tree_tok(da)} {tree_tok(db)} {arch_tok}"
                        arch2_tok = "none" if trusted2 is None else tree_tok(trusted2)
                        imp = f"{status} {plan_n} {conf_n if conf_n is not None else '-'} A={tree_tok(da2)} B={tree_tok(db2)} arch={arch2_tok}"
                        undeliverable = status == "ioerror" and any(len(os.path.basename(p_).encode()) > 245 for p_ in list(da) + list(db))
                        if undeliverable:
                            # the model has no failing copies: these runs are judged by the oracles only (and by what the NEXT run does)
                            count("run/stopped-at-an-undeliverable-name")
                            if raw2 != raw:
                                res["violations"].append(("failed-run-changed-the-record", "the run stopped with an I/O error and yet rewrote the recorded common state", {"history": list(history_txt) + ["bisync"], "rc": rc, "stderr": err[-300:]}))
                        if run_variant is None and not undeliverable:
                            ops_f.write(q + "\n"); impl_lines.append(imp)
                            line = len(impl_lines)
                            meta_lines.append((line, hi, list(history_txt)))
                            if q not in distinct and (len(da) + len(db)) >= 1:
                                distinct.add(q)
                            count(f"run/{status}/trusted={trusted is not None}")
                            if len(res["samples"]) < 8 and plan_n:
                                res["samples"].append({"history": list(history_txt), "query": q[:300], "impl": imp[:300]})
                        else:
                            line = 0
                        if undeliverable:
                            line = 0
                        history_txt.append(f"bisync -> rc={rc} plan={plan_n} conflicts={conf_n}")
                        # the harness's own trust prediction must agree with the banner
                        if (trusted is None) != safe:
                            res["broken"].append(f"{pid}/corr/archive-trust: harness predicted trusted={trusted is not None} but banner says safe={safe} (history {history_txt})")
                        # new conflict-copy names (fed back as edit targets)
                        for p in sorted(set(da2) | set(db2)):     # sorted: the replay of a history under a variant must edit the same copy
                            if ".conflict-" in p and p not in ccnames:
                                ccnames.append(p)
                        # ---------------- oracles
                        rep = {"history": list(history_txt), "line": line, "pre": {"A": da, "B": db, "arch": trusted, "T": dict(h.T)},
                               "post": {"A": da2, "B": db2, "arch": trusted2}, "rc": rc, "stderr": err[-400:]}
                        T = h.T
                        # C02: every run; C07: only runs that had no trusted archive (that is what C07 is about)
                        if (pid == "C02" or (pid == "C07" and trusted is None)) and status != "ioerror":
                            for side, pre, other in (("A", da, db), ("B", db, da)):
                                for p, c in pre.items():
                                    if p.endswith(".copia-tmp"):
                                        continue
                                    on_both = c in da2.values() and c in db2.values()
                                    excused = (pid == "C02" and T.get(p) == c and other.get(p) != c)
                                    if not on_both and not excused:
                                        post_side = da2 if side == "A" else db2
                                        # D10's signature, exactly: the lost version lived at the conflict-copy NAME of a stem path q that was
                                        # itself in conflict in this run, and what now sits at that name is one of q's two versions (the loser
                                        # written over it). A version lost at a conflict-copy-named path in any OTHER way is a new violation
                                        # (seed C02-L: a conflict ON the copy filed its loser under the copy's own name).
                                        d10 = any(p.startswith(q + ".conflict-") and da.get(q) is not None and db.get(q) is not None and da.get(q) != db.get(q)
                                                  and post_side.get(p) in (da.get(q), db.get(q)) for q in set(da) | set(db))
                                        if ".conflict-" in p and post_side.get(p) not in (None, c) and (d10 or d10_seen):
                                            key = "conflict-copy-name-was-live"
                                        elif p not in T and trusted and trusted.get(p) == c:
                                            key = "stale-archive-entry-deletes-recreated-file"
                                        elif trusted is None:
                                            key = "version-lost-without-trusted-archive"
                                        else:
                                            key = "version-lost"
                                        res["violations"].append((key, f"{side}/{p} held {c[:12]} before the run; afterwards it is not on both sides (excused only if it was the last-synced version and the other side changed)", rep))
                        if pid == "C07" and trusted is None:
                            for side, pre, post in (("A", da, da2), ("B", db, db2)):
                                for p in pre:
                                    if p not in post:
                                        res["violations"].append(("delete-without-trusted-archive", f"{side}/{p} was removed although no trusted archive existed", rep))
                        # D10's situation, exactly: a path q in conflict in this run whose loser's conflict-copy name was ALREADY live, on
                        # either side, with other content. Only then are "record ≠ tree" / "second run not idle" the known finding.
                        d10_clash = any(da[q] != db[q] and any(sd.get(f"{q}.conflict-{HOST}-{min(da[q], db[q])[:12]}") not in (None, min(da[q], db[q])) for sd in (da, db))
                                        for q in set(da) & set(db))
                        d10_seen = d10_seen or d10_clash
                        d10_clash = d10_seen
                        if pid == "C06" and status in ("ok", "conflicts"):
                            if da2 != db2:
                                res["violations"].append(("not-converged", "after a completed run the two trees differ", rep))
                            elif trusted2 != da2:
                                if trusted2 and set(trusted2) - set(da2) and all(trusted2.get(k) == v for k, v in da2.items()):
                                    key = "archive-keeps-entries-for-absent-paths"
                                elif d10_clash:
                                    key = "archive-ne-tree-after-conflict-copy-clash"
                                else:
                                    key = "archive-ne-tree"
                                res["violations"].append((key, "after a completed run the recorded common state differs from the tree", rep))
                            # idempotence probe
                            rc3, out3, err3, plan3, conf3, safe3 = h.bisync()
                            ta3, tb3, _, tr3 = h.observe()
                            if plan3 != 0 or digests(ta3) != da2 or digests(tb3) != db2:
                                key = "not-idempotent-after-conflict-copy-clash" if d10_clash else "not-idempotent"
                                res["violations"].append((key, f"an immediate second run planned {plan3} action(s) or changed a tree", rep))
                            count("idempotence-probes")
                        if status in ("ok", "conflicts"):
                            h.completed += 1
                            if da2 == db2:
                                h.T = dict(da2)
                                h.T_bytes = dict(ta2)
                            else:
                                h.T = {p: c for p, c in da2.items() if db2.get(p) == c}
                                h.T_bytes = {p: ta2[p] for p in h.T}
                # end ops
                ta, tb, _, _ = h.observe()
                fin = (digests(ta), digests(tb)) if run_variant != "swap" else (digests(tb), digests(ta))
                if run_variant is None:
                    final_main = fin
                elif final_main is not None and fin != final_main:
                    res["violations"].append((f"depends-on-{run_variant}", f"final trees differ when the same history runs with {run_variant}",
                                              {"history": history_txt, "main": final_main, "variant": fin}))
                if run_variant:
                    count("variant/" + run_variant)
    pair_dis = pair_identity_section(pid, res, count) if pid in ("C07", "C06") else 0
    if pid == "C02":
        non_utf8_section(pid, res, count)
    if pid in ("C02", "C06"):
        two_filesystems_section(pid, res, count)
    if pid in ("C02", "C07"):
        foreign_owner_section(pid, res, count)
        symlink_tie_section(pid, res, count)
    if pid == "C02":
        unhashable_file_section(pid, res, count)
    ops_f.close()
    with open(os.path.join(rundir, "impl.txt"), "w") as f:
        f.write("\n".join(impl_lines) + ("\n" if impl_lines else ""))
    model_lines = model_run(os.path.join(rundir, "ops.txt"))
    ndis = 0
    res["disagreements"] = []
    ops_lines = open(os.path.join(rundir, "ops.txt")).read().split("\n")
    for i, (a, b) in enumerate(zip(impl_lines, model_lines)):
        if a != b:
            ndis += 1
            if len(res["disagreements"]) < 10:
                hist = next((m[2] for m in meta_lines if m[0] == i + 1), [])
                res["disagreements"].append({"line": i + 1, "history": hist, "query": ops_lines[i][:600], "impl": a[:600], "model": b[:600]})
    if ndis or len(model_lines) != len(impl_lines):
        res["broken"].append(f"{pid}/corr: model and implementation disagree on {ndis} of {len(impl_lines)} bisync runs")
    res.update(evaluations=nbis, distinct_nontrivial=len(distinct), n_disagreements=ndis,
               n_oracle_failures=len(res["violations"]),
               rule="histories of 2–12 operations over {write, delete, divergent edit, delete on both sides, edit of an earlier conflict-copy, re-creation of a path "
                    "with its last-synced content" + (", archive fault" if pid == "C07" else "") + ", bisync} on 7 paths (nested, spaces, dots) × 7 contents, corpus first; "
                    "every real run = one model query built from the observed pre-state; C06 adds an idempotence probe after every completed run and re-runs a third of the histories "
                    "with scrambled mtimes or swapped roots. Non-trivial: at least one file on either side; distinct = distinct model queries.")
    return res
