#!/usr/bin/env python3
"""Orchestrator behind `./check <ID> quick|thorough` (DESIGN.md §3.1).

One run =
  1. regenerate the constants layer from /repo's current sources (translator part),
  2. `lake build` the property's theorem module(s) + the model driver, audit axioms,
  3. build the correspondence harness (and, where needed, the real `copia` binary) from /repo's
     CURRENT working tree,
  4. run the correspondence (implementation vs Lean model on the same inputs) and the property's
     executable oracle on the implementation's outputs,
  5. classify (known finding / violation with replay / violation no-failing-input-found),
  6. write evidence/<ID>.json.
"""
import fcntl, json, os, re, shutil, subprocess, sys, time

VERIF = os.path.dirname(os.path.dirname(os.path.abspath(__file__)))
REPO = os.environ.get("COPIA_REPO", "/repo")
LEAN = os.path.join(VERIF, "lean")
BUILD = os.path.join(VERIF, ".build")
TARGET = os.path.join(BUILD, "target")
CLI_TARGET = os.path.join(BUILD, "cli-target")
HELPER_BIN = os.path.join(BUILD, "helper", "copia-corr")
EVID = os.path.join(VERIF, "evidence")
REPLAYS = os.path.join(VERIF, "replays")
KNOWN = os.path.join(VERIF, "known_findings.txt")
ALLOWED_AXIOMS = {"propext", "Classical.choice", "Quot.sound"}
ENV = dict(os.environ, CARGO_NET_OFFLINE="true", CARGO_TARGET_DIR=TARGET)



def link_repo():
    """`.build/repo` -> the tree under test (default /repo; COPIA_REPO overrides, used to run the checks
    against a scratch worktree, e.g. the pinned commit or a seeded change)."""
    os.makedirs(BUILD, exist_ok=True)
    ln = os.path.join(BUILD, "repo")
    if not (os.path.islink(ln) and os.readlink(ln) == REPO):
        if os.path.lexists(ln):
            os.remove(ln)
        os.symlink(REPO, ln)


def log(msg):
    print(f"[check] {msg}", flush=True)


def run(cmd, cwd=None, env=None, timeout=None, stdin=None, stdout=subprocess.PIPE):
    return subprocess.run(cmd, cwd=cwd, env=env or ENV, timeout=timeout, stdin=stdin,
                          stdout=stdout, stderr=subprocess.STDOUT, text=True)


class Lock:
    def __init__(self, name):
        os.makedirs(BUILD, exist_ok=True)
        self.f = open(os.path.join(BUILD, name + ".lock"), "w")

    def __enter__(self):
        fcntl.flock(self.f, fcntl.LOCK_EX)

    def __exit__(self, *a):
        fcntl.flock(self.f, fcntl.LOCK_UN)


# ------------------------------------------------------------------ step 1/2: Lean side

def gen_constants():
    r = run([sys.executable, os.path.join(VERIF, "tools", "gen_constants.py")])
    return r.returncode == 0, r.stdout.strip()


def gen_decisions():
    """translate the small pure decision functions of /repo into Lean (tools/rs2lean.py)"""
    r = run([sys.executable, os.path.join(VERIF, "tools", "rs2lean.py")])
    return r.returncode == 0, r.stdout.strip()


def gen_arith():
    """translate the checksum methods of /repo/src/checksum.rs into Lean (tools/rs2lean_arith.py)"""
    r = run([sys.executable, os.path.join(VERIF, "tools", "rs2lean_arith.py")])
    return r.returncode == 0, r.stdout.strip()


def gen_loops(group):
    """translate the loop functions of reconcile.rs / plan.rs into Lean `do` blocks (tools/rs2lean_do.py)"""
    r = run([sys.executable, os.path.join(VERIF, "tools", "rs2lean_do.py"), group])
    return r.returncode == 0, r.stdout.strip()


LOOP_GROUPS = {"C01": (["delta"], "C01.source_scan_sync_is_model / source_scan_async_is_model / source_engines_scan_alike, C05.source_patch_*_is_model"),
               "C05": (["delta"], "C05.source_patch_sync_is_model / source_patch_async_is_model / source_validate_is_model"),
               "C16": (["delta"], "C16.source_scan_is_model"),
               "C18": (["reconcile"], "C18.source_reconcile_is_model"),
               "C19": (["plan", "scan"], "C19.source_build_plan_is_model / source_is_excluded_is_model / source_glob_match_is_model / source_listing_parser_is_model"),
               "C15": (["plan", "reconcile", "bidir", "oneway"], "C15.source_dry_run_local / source_dry_run_remote / source_is_excluded_is_model / source_glob_match_is_model / source_bisync_dry_run_is_model"),
               "C04": (["plan", "scan", "oneway", "deliver", "target"], "C13.source_parse_location_is_model, C04.source_pull_stream_ok_iff / source_run_local_is_model / source_run_remote_is_model / source_build_plan_is_model / source_meta_scan_fails_on_a_stat_error / source_meta_scan_is_exact"),
               "C02": (["reconcile", "bidir", "crash", "scan"], "C02.source_apply_is_model / source_run_is_model, C18.source_reconcile_is_model"),
               "C06": (["reconcile", "bidir", "crash", "scan"], "C02.source_apply_is_model / source_run_is_model, C18.source_reconcile_is_model"),
               "C07": (["reconcile", "bidir", "archive", "scan"], "C02.source_apply_is_model / source_run_is_model, C18.source_reconcile_is_model, C07.source_pair_key_is_injective"),
               "C08": (["reconcile", "bidir", "crash"], "C02.source_apply_is_model / source_run_is_model, C08.source_copy_atomic_is_model / source_archive_save_is_model"),
               "C14": (["deliver", "scan"], "C14.source_remote_listing_is_the_whole_output, C09.source_deliver_local_is_model / source_deliver_pull_is_model (delivery stamps the source's mtime on a FRESH file)"),
               "C09": (["deliver", "oneway"], "C09.source_delete_list_items, C09.source_deliver_local_is_model / source_deliver_pull_is_model"),
               "C11": (["hub", "hubput", "bidir"], "C11.source_short_hash_has_no_separator / source_safe_join_is_model / source_conflict_name_is_model / source_conflict_name_under_root"),
               "C13": (["hubsync", "hubput", "target", "wire"], "C12.source_serve_is_model (the server loop: a List changes nothing and answers with the tree), C13.source_split_target_is_model / source_push_loop_is_model / source_hub_sync_is_model / source_conflict_name_free_or_same"),
               "C20": (["codec"], "C20.source_write_message_is_model / source_read_header_is_model / source_read_message_is_model"),
               "C12": (["wire", "hubput"], "C11.source_conflict_name_is_model, C12.source_serve_is_model / source_read_frame_is_loop_round / source_read_frame_reserves_at_most_max / source_read_frame_stays_in_step"),
               "C03": (["hubput", "hub"], "C03.source_handle_put_calls_are_solo_put / source_handle_delete_calls_are_solo_delete, C11.source_safe_join_is_model"),
               "C10": (["hubput", "hub"], "C10.source_put_renames_only_verified_bytes / source_put_acknowledges_only_commits / source_put_reply_is_model")}


def lake_build(modules):
    """Returns (ok, output, failing theorem/decl names)."""
    with Lock("lake"):
        r = run(["lake", "build"] + modules + ["copia_model"], cwd=LEAN)
    failing = []
    if r.returncode != 0:
        # map error positions to enclosing declarations
        for m in re.finditer(r"error: (Copia/[\w/]+\.lean):(\d+):\d+", r.stdout):
            path, line = os.path.join(LEAN, m.group(1)), int(m.group(2))
            name = enclosing_decl(path, line)
            mod = m.group(1)[:-5].replace("/", ".")
            failing.append(f"{mod}:{name}")
        for m in re.finditer(r"- (Copia\.[\w\.]+)", r.stdout):
            if not any(f.startswith(m.group(1)) for f in failing):
                failing.append(m.group(1))
    return r.returncode == 0, r.stdout, sorted(set(failing))


def enclosing_decl(path, line):
    try:
        lines = open(path, encoding="utf-8").read().split("\n")
    except OSError:
        return "?"
    for i in range(min(line, len(lines)) - 1, -1, -1):
        m = re.match(r"\s*(?:private |protected )?(theorem|lemma|def|example|instance|abbrev|structure|inductive)\s+([\w\.']+)?", lines[i])
        if m:
            return m.group(2) or m.group(1)
    return "?"


FORBIDDEN = re.compile(r"\b(sorry|admit|native_decide|bv_decide|implemented_by|unsafe)\b|^\s*axiom\s|maxHeartbeats\s+0")


def strip_comments(text):
    # remove /- … -/ (nested) and -- … comments, and string literals
    out, i, depth, n = [], 0, 0, len(text)
    while i < n:
        if text.startswith("/-", i):
            depth += 1
            i += 2
        elif depth and text.startswith("-/", i):
            depth -= 1
            i += 2
        elif depth:
            if text[i] == "\n":
                out.append("\n")
            i += 1
        elif text.startswith("--", i):
            while i < n and text[i] != "\n":
                i += 1
        elif text[i] == '"':
            i += 1
            while i < n and text[i] != '"':
                i += 2 if text[i] == "\\" else 1
            i += 1
        else:
            out.append(text[i])
            i += 1
    return "".join(out)


def source_audit():
    """No sorry/admit/axiom/native_decide/… outside comments anywhere in the Lean sources."""
    hits = []
    for root, _, files in os.walk(LEAN):
        if ".lake" in root:
            continue
        for fn in files:
            if fn.endswith(".lean"):
                p = os.path.join(root, fn)
                if fn == "Audit.lean":
                    continue
                body = strip_comments(open(p, encoding="utf-8").read())
                for k, ln in enumerate(body.split("\n"), 1):
                    if FORBIDDEN.search(ln):
                        hits.append(f"{os.path.relpath(p, LEAN)}:{k}: {ln.strip()[:80]}")
    return hits


def axiom_audit(modules, namespaces):
    """`#print axioms` of every theorem of the property modules. Returns (theorems, bad)."""
    with Lock("lake"):
        r = run(["lake", "env", "lean", "--run", "Audit.lean"] + modules, cwd=LEAN)
    thms, bad = {}, []
    for ln in r.stdout.split("\n"):
        m = re.match(r"THEOREM (\S+) AXIOMS (.*)$", ln)
        if m:
            name = m.group(1)
            if not any(name == ns or name.startswith(ns + ".") for ns in namespaces):
                continue
            if re.search(r"\.(congr_simp|eq_\d+|eq_def|match_\d+|proof_\d+|_\w+)", name) or re.search(r"\.(mk\.(inj|injEq|sizeOf_spec)|sizeOf_spec|injEq|inj|noConfusion\w*|ctorIdx\w*)$", name):
                continue
            axs = [a for a in m.group(2).split(",") if a]
            thms[name] = axs
            if not set(axs) <= ALLOWED_AXIOMS:
                bad.append(f"{name}: {axs}")
        elif ln.startswith("AXIOMDECL"):
            bad.append(ln)
    if r.returncode not in (0,) and not thms:
        bad.append("audit failed: " + r.stdout[-400:])
    return thms, bad


def required_theorems(pid):
    import json
    p = os.path.join(VERIF, "tools", "required_theorems.json")
    if not os.path.exists(p):
        return []
    return json.load(open(p)).get(pid, [])


def leanchecker(modules):
    with Lock("lake"):
        r = run(["lake", "env", "leanchecker"] + modules, cwd=LEAN)
    return r.returncode == 0, r.stdout[-500:]


# ------------------------------------------------------------------ step 3: Rust side

def tree_hash():
    """Content hash of the sources of the tree under test (mtimes can lie after a restore / tree switch)."""
    import hashlib
    h = hashlib.sha256()
    for base in ("src", "Cargo.toml", "Cargo.lock"):
        p = os.path.join(REPO, base)
        if os.path.isfile(p):
            h.update(base.encode()); h.update(open(p, "rb").read())
        for root, dirs, files in os.walk(p):
            dirs.sort()
            for fn in sorted(files):
                fp = os.path.join(root, fn)
                h.update(os.path.relpath(fp, REPO).encode()); h.update(open(fp, "rb").read())
    return h.hexdigest()


def force_if_changed(kind, target_env, pkgs):
    """If the tree's content differs from what the last build of this kind saw, drop cargo's
    fingerprints for the affected packages so the rebuild cannot be skipped on stale mtimes."""
    stamp = os.path.join(BUILD, f"{kind}.treehash")
    cur = tree_hash()
    old = open(stamp).read().strip() if os.path.exists(stamp) else None
    if old != cur:
        for args in pkgs:
            run(["cargo", "clean", "--offline"] + args, cwd=args_cwd(kind), env=target_env)
    return stamp, cur


def args_cwd(kind):
    return os.path.join(VERIF, "harness") if kind == "harness" else REPO


def cargo_build_harness():
    h = os.path.join(VERIF, "harness")
    with Lock("cargo"):
        stamp, cur = force_if_changed("harness", ENV, [["--release", "-p", "copia"], ["--release", "-p", "copia-corr"]])
        try:
            shutil.copyfile(os.path.join(REPO, "Cargo.lock"), os.path.join(h, "Cargo.lock"))
        except OSError:
            pass
        r = run(["cargo", "build", "--release", "--offline", "-q"], cwd=h)
        if r.returncode == 0:
            open(stamp, "w").write(cur)
            try:
                # a copy for the black-box runners' helper subcommands (hashes of byte strings, CBOR of requests): still there
                # when a later tree under test no longer lets the harness compile (cargo removes the stale binary)
                os.makedirs(os.path.dirname(HELPER_BIN), exist_ok=True)
                shutil.copy2(os.path.join(TARGET, "release", "copia-corr"), HELPER_BIN + ".new")
                os.replace(HELPER_BIN + ".new", HELPER_BIN)
            except OSError:
                pass
    return r.returncode == 0, r.stdout


def cargo_build_cli():
    """The real `copia` binary from /repo's current working tree (dev profile), outside /repo."""
    env = dict(ENV, CARGO_TARGET_DIR=CLI_TARGET)
    with Lock("cargo-cli"):
        stamp, cur = force_if_changed("cli", env, [["-p", "copia", "--manifest-path", os.path.join(REPO, "Cargo.toml")]])
        r = run(["cargo", "build", "--offline", "-q", "--features", "cli", "--bin", "copia",
                 "--manifest-path", os.path.join(REPO, "Cargo.toml")], env=env)
        if r.returncode == 0:
            open(stamp, "w").write(cur)
    return r.returncode == 0, r.stdout


HARNESS_BIN = os.path.join(TARGET, "release", "copia-corr")
CLI_BIN = os.path.join(CLI_TARGET, "debug", "copia")
MODEL_BIN = os.path.join(LEAN, ".lake", "build", "bin", "copia_model")


# ------------------------------------------------------------------ known findings

def load_known(pid):
    out = []
    if os.path.exists(KNOWN):
        for ln in open(KNOWN, encoding="utf-8"):
            m = re.match(r"finding:\s+property=(\S+)\s+key=(\S+)\s+(.*)$", ln.strip())
            if m and m.group(1) == pid:
                out.append((m.group(2), m.group(3)))
    return out


# ------------------------------------------------------------------ correspondence

def run_model(ops_path, model_path):
    with open(ops_path) as fi, open(model_path, "w") as fo:
        r = subprocess.run([MODEL_BIN], stdin=fi, stdout=fo, stderr=subprocess.PIPE, text=True)
    return r.returncode == 0, r.stderr


def diff_lines(ops_path, impl_path, model_path, limit=20):
    """Line-by-line comparison; returns (n_lines, [(lineno, op, impl, model)])."""
    dis, n = [], 0
    with open(ops_path) as fo, open(impl_path) as fi, open(model_path) as fm:
        while True:
            o, i, m = fo.readline(), fi.readline(), fm.readline()
            if not o and not i and not m:
                break
            n += 1
            if i != m:
                if len(dis) < limit:
                    dis.append((n, o.rstrip("\n"), i.rstrip("\n"), m.rstrip("\n")))
                else:
                    dis.append(None)
    real = [d for d in dis if d]
    return n, real, len(dis)


def read_oracle(path):
    fails = []
    if os.path.exists(path):
        for ln in open(path, encoding="utf-8"):
            m = re.match(r"FAIL (\d+) (\S+) (.*)$", ln.rstrip("\n"))
            if m:
                fails.append((int(m.group(1)), m.group(2), m.group(3)))
    return fails


def nth_line(path, n):
    with open(path) as f:
        for k, ln in enumerate(f, 1):
            if k == n:
                return ln.rstrip("\n")
    return ""


def short(s, n=2000):
    return s if len(s) <= n else s[:n] + f"…(+{len(s) - n} chars)"


# ------------------------------------------------------------------ main flow

def check(pid, tier, replay=None):
    t0 = time.time()
    cfg = PROPS[pid]
    seed = int(os.environ.get("VERIF_SEED", "1") or 1)
    os.makedirs(EVID, exist_ok=True)
    link_repo()
    rundir = os.path.join(BUILD, "run", pid)
    shutil.rmtree(rundir, ignore_errors=True)
    os.makedirs(rundir, exist_ok=True)

    broken = []          # names of theorems / correspondences that no longer check
    violations = []      # (key, description, replay dict)
    notes = []

    # 1. constants
    ok, out = gen_constants()
    if not ok:
        broken.append(f"Copia.Gen.Constants (extractor: {out})")
    ok, out = gen_decisions()
    if not ok:
        broken.append(f"Copia.Gen.Decisions (translator: {out})")
    if pid in ("C16", "C17"):
        ok, out = gen_arith()
        if not ok:
            broken.append(f"Copia.Gen.Checksum (translator: {out}) — theorems C17.source_*_is_model no longer check")
    if pid in LOOP_GROUPS:
        for g_ in LOOP_GROUPS[pid][0]:
            ok, out = gen_loops(g_)
            if not ok:
                broken.append(f"Copia.Gen.Loops{g_.capitalize()} (translator: {out}) — theorems {LOOP_GROUPS[pid][1]} no longer check")
    # 2. proofs
    ok, out, failing = lake_build(cfg["modules"])
    proofs_ok = ok
    if not ok:
        log("lake build FAILED:\n" + out[-3000:])
        broken += failing or [m + " (build)" for m in cfg["modules"]]
    hits = source_audit()
    if hits:
        broken += ["source-audit: " + h for h in hits]
    thms, bad = ({}, [])
    if proofs_ok:
        thms, bad = axiom_audit(cfg["modules"], cfg["namespaces"])
        if bad:
            broken += ["axiom-audit: " + b for b in bad]
        if not thms:
            broken.append("axiom-audit: no theorem found in " + ",".join(cfg["modules"]))
        # the property theorems this check claims must all still be there (a deleted or renamed
        # theorem is a proof obligation that no longer checks)
        for name in required_theorems(pid):
            if name not in thms:
                broken.append("required theorem missing: " + name)
    checker_note = ""
    if tier == "thorough" and proofs_ok:
        ok_lc, out_lc = leanchecker(cfg["modules"])
        checker_note = "leanchecker: " + ("ok" if ok_lc else "FAILED " + out_lc)
        if not ok_lc:
            broken.append("leanchecker " + ",".join(cfg["modules"]))
    # model driver must exist even when a property module failed (to search for a failing input)
    if not proofs_ok:
        with Lock("lake"):
            r = run(["lake", "build", "copia_model"], cwd=LEAN)
        if r.returncode != 0:
            notes.append("model driver does not build: " + r.stdout[-500:])

    # 3./4. correspondence
    runners = cfg["runner"] if isinstance(cfg["runner"], list) else [cfg["runner"]]
    corr = {}
    for rk, rname in enumerate(runners):
        rd = os.path.join(rundir, rname)
        os.makedirs(rd, exist_ok=True)
        c1 = RUNNERS[rname](pid, tier, seed, rd, cfg, bool(broken))   # -> dict
        if not corr:
            corr = c1
        else:   # merge a second correspondence (e.g. pure in-process part + black-box CLI part)
            for k in ("broken", "violations", "notes", "samples", "disagreements"):
                corr[k] = corr.get(k, []) + c1.get(k, [])
            for k in ("evaluations", "distinct_nontrivial", "n_disagreements", "n_oracle_failures"):
                corr[k] = corr.get(k, 0) + c1.get(k, 0)
            corr["rule"] = corr.get("rule", "") + " || " + c1.get("rule", "")
            corr["distribution"] = dict(corr.get("distribution", {}), **{f"{rname}/{k}": v for k, v in c1.get("distribution", {}).items()})
            corr["exhaustive"] = False
    for b in corr.get("broken", []):
        broken.append(b)
    violations += corr.get("violations", [])
    notes += corr.get("notes", [])

    # 5. classify
    known = load_known(pid)
    printed = []
    new_violations = []
    seen_known = set()
    for key, desc, rep in violations:
        match = [k for k in known if k[0] == key]
        if match:
            if key not in seen_known:
                seen_known.add(key)
                printed.append(f"KNOWN-FINDING: property={pid} {key}: {match[0][1]}")
        else:
            new_violations.append((key, desc, rep))
    rc = 0
    os.makedirs(REPLAYS, exist_ok=True)
    if new_violations:
        key, desc, rep = new_violations[0]
        rp = os.path.join(REPLAYS, f"{pid}-{tier}-{seed}.json")
        with open(rp, "w") as f:
            json.dump({"property": pid, "tier": tier, "seed": seed, "kind": "failing-input", "key": key,
                       "what": desc, "replay": rep, "broken": broken,
                       "others": [(k, short(d, 300)) for k, d, _ in new_violations[1:20]]}, f, indent=1)
        printed.append(f"VIOLATION property={pid} replay={rp}")
        rc = 1
    elif broken:
        rp = os.path.join(REPLAYS, f"{pid}-{tier}-{seed}.json")
        with open(rp, "w") as f:
            json.dump({"property": pid, "tier": tier, "seed": seed, "kind": "no-failing-input-found",
                       "no_longer_checks": broken,
                       "disagreements": corr.get("disagreements", [])[:10],
                       "searched": corr.get("searched", "")}, f, indent=1)
        printed.append(f"VIOLATION property={pid} replay={rp} no-failing-input-found")
        rc = 1

    # 6. evidence
    n_thm = len(thms)
    discharged = sum(1 for a in thms.values() if set(a) <= ALLOWED_AXIOMS) if proofs_ok else 0
    cov = {
        "obligations": max(n_thm, 1) if proofs_ok else max(len(failing), 1),
        "discharged": discharged,
        "checker_cmd": f"cd lean && lake build {' '.join(cfg['modules'])} && lake env lean --run Audit.lean {' '.join(cfg['modules'])}"
                       + (" && lake env leanchecker " + " ".join(cfg["modules"]) if tier == "thorough" else ""),
        "trusted_base": [
            "Lean 4.33.0 kernel" + (" + leanchecker re-check of the compiled .olean" if tier == "thorough" else ""),
            "axioms used by the property theorems: " + ", ".join(sorted({a for v in thms.values() for a in v}) or ["none"]),
            "no native_decide / bv_decide / sorry / own axioms (source audit + #print axioms on every theorem)",
            "hand-written Lean model tied to the Rust code by the correspondence run of this check (generator quality bounds what it sees)",
            "tools/gen_constants.py (regex extraction of constants from /repo into Copia/Gen/Constants.lean)", "tools/rs2lean.py (translator: Fingerprint::same, reconcile_path, needs_transfer, cas_decide → Copia/Gen/Decisions.lean; proved equal to the hand models in Lemmas/GenEq)", "tools/rs2lean_arith.py (translator: both new/roll/push/digest of src/checksum.rs → Copia/Gen/Checksum.lean; proved equal to Model/Checksum in Lemmas/GenEqChecksum)", "tools/rs2lean_do.py (translator, statement by statement into Lean `do` blocks: reconcile (reconcile.rs) → Copia/Gen/LoopsReconcile.lean; build_plan, is_excluded, glob_match (plan.rs) → Copia/Gen/LoopsPlan.lean; patch of both engines and Delta::validate (seek + read_exact = a bounds test and a slice of the basis, write_all = append to the output, hasher.update = append to the hashed bytes), the scan loops of sync.rs::delta and async_sync.rs::delta (from `let mut pos = 0usize;` to the tail literal) → Copia/Gen/LoopsDelta.lean (the scans' SignatureTable calls are written as filter-by-weak / first-equal-strong over the block list; SignatureTable::from_signature, find_match and has_weak_match are themselves translated — FxHashMap<u32, Vec<usize>> as an association list weak hash ↦ positions — and proved to be exactly those lookups in Lemmas/GenEqLoopsT; Delta::push_* as the model's accumulator operations); copy_atomic and Archive::save as lists of file-system calls (→ Copia/Gen/LoopsCrash.lean), deliver_local / deliver_pull as lists of delivery calls (→ LoopsDeliver.lean), safe_join (→ LoopsHub.lean), the push loop of hub_sync (→ LoopsHubSync.lean); apply and the section of run_bisync from `let mut common = base;` to `arc.save(&apath)?;` (bidir.rs) → Copia/Gen/LoopsBidir.lean, over a modelled world (the two trees, the `common` map, the archive): copy_atomic = copy-or-fail, symlink_metadata = lookup, remove_file = delete, arc.save = record; proved equal to Model/Reconcile and Model/Plan in Lemmas/GenEqLoops*; interprets BTreeMap as a key-ordered association list, sort as mergeSort over the key order, `while` as a fuel-bounded loop returning none when the fuel runs out)",
        ] + cfg.get("trusted_base", []),
        "theorems": {k: v for k, v in sorted(thms.items())},
        "evaluations": corr.get("evaluations", 0),
        "distinct_nontrivial": corr.get("distinct_nontrivial", 0),
        "rule": corr.get("rule", ""),
        "samples": corr.get("samples", [])[:12] or ["(none)"],
        "traces_validated_against_impl": corr.get("traces_validated", corr.get("evaluations", 0)),
        "model_vs_impl_disagreements": corr.get("n_disagreements", 0),
        "impl_vs_oracle_failures": corr.get("n_oracle_failures", 0),
        "known_findings_reported": sorted(seen_known),
        "input_distribution": corr.get("distribution", {}),
        "exhaustive": bool(corr.get("exhaustive", False)),
        "no_longer_checks": broken,
        "notes": notes + ([checker_note] if checker_note else []),
    }
    ev = {
        "property_id": pid, "tier": tier, "seed": seed, "level": "proof", "coverage": cov,
        "assumptions": cfg.get("assumptions", []),
        "wall_s": round(time.time() - t0, 2),
        "violations": len(new_violations) + (1 if (broken and not new_violations) else 0),
    }
    with open(os.path.join(EVID, f"{pid}.json"), "w") as f:
        json.dump(ev, f, indent=1, ensure_ascii=False)
    for ln in printed:
        print(ln, flush=True)
    log(f"{pid} {tier}: theorems={n_thm} discharged={discharged} evaluations={cov['evaluations']} "
        f"disagreements={cov['model_vs_impl_disagreements']} oracle_failures={cov['impl_vs_oracle_failures']} "
        f"wall={ev['wall_s']}s rc={rc}")
    return rc


# ------------------------------------------------------------------ runners

def rust_runner(pid, tier, seed, rundir, cfg, search_more=False):
    """In-process correspondence: harness (Rust, real code) → ops/impl/oracle; Lean driver → model."""
    res = {"broken": [], "violations": [], "notes": []}
    ok, out = cargo_build_harness()
    if not ok:
        # the code under test (or the harness against it) no longer compiles: nothing can be checked
        res["broken"].append(f"{pid}/corr/harness-build: " + short(out[-1500:], 1500))
        return res
    henv = dict(ENV)
    if cfg.get("needs_cli"):
        okc, outc = cargo_build_cli()
        if not okc:
            res["broken"].append(f"{pid}/corr/cli-build: " + short(outc[-1500:], 1500))
            return res
        henv["COPIA_BIN"] = CLI_BIN
    seeds = [seed]
    total_lines = 0
    agg = None
    for attempt, s in enumerate(seeds + [seed + 1000003, seed + 2000003]):
        d = os.path.join(rundir, f"s{attempt}")
        os.makedirs(d, exist_ok=True)
        r = run([HARNESS_BIN, pid, tier, str(s), d], env=henv, timeout=cfg.get("timeout", 3000))
        if r.returncode != 0:
            cur = os.path.join(d, "current.txt")
            if r.returncode < 0 and os.path.exists(cur):
                q = open(cur).read()
                res["violations"].append(("process-killed-on-input", f"the code under test killed the process (signal {-r.returncode}: abort / allocation failure / stack overflow) while handling this input",
                                          {"seed": s, "tier": tier, "query": short(q), "stderr": short(r.stdout[-600:], 600)}))
            res["broken"].append(f"{pid}/corr/harness-run rc={r.returncode}: " + short(r.stdout[-800:], 800))
            return res
        okm, err = run_model(os.path.join(d, "ops.txt"), os.path.join(d, "model.txt"))
        if not okm:
            res["broken"].append(f"{pid}/corr/model-driver: " + short(err[-500:], 500))
            return res
        n, dis, ndis = diff_lines(os.path.join(d, "ops.txt"), os.path.join(d, "impl.txt"), os.path.join(d, "model.txt"))
        meta = json.load(open(os.path.join(d, "meta.json")))
        fails = read_oracle(os.path.join(d, "oracle.txt"))
        total_lines += n
        if agg is None:
            agg = meta
            res.update(evaluations=n, distinct_nontrivial=meta.get("distinct_nontrivial", 0), rule=meta.get("rule", ""),
                       samples=meta.get("samples", []), distribution=meta.get("distribution", {}),
                       exhaustive=meta.get("exhaustive", False), n_disagreements=ndis, n_oracle_failures=len(fails))
            res["notes"] += meta.get("notes", [])
        else:
            res["evaluations"] = total_lines
            res["n_disagreements"] += ndis
            res["n_oracle_failures"] += len(fails)
        bykey = {}
        for ln, key, what in fails:
            bykey.setdefault(key, []).append((ln, what))
        for key, lst in bykey.items():
            ln, what = lst[0]
            op = nth_line(os.path.join(d, "ops.txt"), ln)
            res["violations"].append((key, f"{what} [{len(lst)} case(s) with this key]",
                                      {"seed": s, "tier": tier, "line": ln, "query": short(op),
                                       "impl": short(nth_line(os.path.join(d, 'impl.txt'), ln)),
                                       "model": short(nth_line(os.path.join(d, 'model.txt'), ln)), "oracle": what}))
        if ndis:
            res["broken"].append(f"{pid}/corr: model and implementation disagree on {ndis} of {n} cases (seed {s})")
            res.setdefault("disagreements", [])
            for ln, op, i, m in dis[:10]:
                res["disagreements"].append({"seed": s, "line": ln, "query": short(op), "impl": short(i), "model": short(m)})
        # search further seeds only when something broke and no concrete failing input is known yet
        if res["violations"] or not (ndis or search_more):
            break
        res["searched"] = f"oracle evaluated on all generated cases of seeds {seeds[0]}..; re-seeded neighbourhood runs: {attempt + 1}"
    return res


def bb_runner(pid, tier, seed, rundir, cfg, search_more=False):
    """Black-box correspondence: a Python module drives the REAL `copia` binary (built from the tree
    under test) and the Lean model driver; see tools/bb_*.py."""
    import importlib
    res = {"broken": [], "violations": [], "notes": []}
    okc, outc = cargo_build_cli()
    if not okc:
        res["broken"].append(f"{pid}/corr/cli-build: " + short(outc[-1500:], 1500))
        return res
    okh, outh = cargo_build_harness()     # helper subcommands (blake3 of byte strings, …)
    if not okh:
        res["broken"].append(f"{pid}/corr/harness-build: " + short(outh[-1500:], 1500))
        if not os.path.exists(HELPER_BIN):
            return res
        # the in-process harness no longer compiles against the tree under test (an obligation that no longer checks, reported
        # above); the black-box search for a failing input still runs — its helper subcommands (hashes of byte strings) come
        # from the last harness that built and do not involve the code under test
        res["notes"].append("harness-build failed: black-box helper subcommands taken from the last harness binary that built")
    mod = importlib.import_module(cfg["bb_module"])

    def model_run(ops_path):
        mp = ops_path[:-7] + "model.txt" if ops_path.endswith("ops.txt") else ops_path + ".model"
        okm, err = run_model(ops_path, mp)
        if not okm:
            res["broken"].append(f"{pid}/corr/model-driver: " + short(err[-500:], 500))
            return []
        return open(mp).read().split("\n")[:-1]

    seeds = [seed, seed + 1000003] if search_more else [seed]
    for k, s in enumerate(seeds):
        d = os.path.join(rundir, f"s{k}")
        os.makedirs(d, exist_ok=True)
        try:
            r = mod.run(pid, tier, s, d, model_run)
        except Exception as e:  # the harness itself failed: report as a broken correspondence, never hide it
            import traceback
            res["broken"].append(f"{pid}/corr/bb-harness-exception: {e!r} " + short(traceback.format_exc()[-1200:], 1200))
            return res
        vs = r.pop("violations", [])
        bykey = {}
        for key, desc, rep in vs:
            bykey.setdefault(key, []).append((desc, rep))
        for key, lst in bykey.items():
            desc, rep = lst[0]
            res["violations"].append((key, f"{desc} [{len(lst)} case(s) with this key]", dict(rep, seed=s, tier=tier)))
        res["broken"] += r.pop("broken", [])
        res["notes"] += r.pop("notes", [])
        if k == 0:
            res.update(r)
        else:
            for kk in ("evaluations", "n_disagreements", "n_oracle_failures"):
                res[kk] = res.get(kk, 0) + r.get(kk, 0)
        if res["violations"] or not res["broken"]:
            break
    import bbox as _bbox
    shutil.rmtree(_bbox.BBOX_BASE, ignore_errors=True)
    return res


from props import PROPS  # noqa: E402  (per-property configuration)

RUNNERS = {"rust": rust_runner, "bb": bb_runner}


def main(argv):
    if len(argv) < 3 or argv[1] not in PROPS or argv[2] not in ("quick", "thorough"):
        print("usage: check <" + "|".join(sorted(PROPS)) + "> quick|thorough [--replay file]", file=sys.stderr)
        return 2
    if "--replay" in argv:
        rp = json.load(open(argv[argv.index("--replay") + 1]))
        os.environ["VERIF_SEED"] = str(rp.get("replay", {}).get("seed", rp.get("seed", 1)))
        print(json.dumps(rp, indent=1)[:4000])
        with Lock("global"):
            return check(argv[1], rp.get("tier", argv[2]))
    # one check at a time: the tree-under-test link and the cargo target dirs are shared
    with Lock("global"):
        return check(argv[1], argv[2])
