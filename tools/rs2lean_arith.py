#!/usr/bin/env python3
"""Translator for copia's fixed-width ARITHMETIC methods: Rust source text → Lean definitions.

Regenerates lean/Copia/Gen/Checksum.lean from /repo/src/checksum.rs on every check run: both `new`s
(incl. their `for (i, &byte) in data.iter().enumerate()` loop), `roll`, `push` and `digest` of
`RollingChecksum` and `FastRollingChecksum`. `Copia/Lemmas/GenEqChecksum.lean` proves each generated
definition equal to the hand-written model (`Copia.Checksum.Rolling.*`, `Fast.*`) that the C17 / C16
theorems are about, so those theorems are re-checked against what the source says now: an edited
modulus bias, a dropped `+ MOD`, a reordered normalisation, a different cast is a broken proof
obligation before any input is generated.

Semantics of the emitted terms (the model's conventions, Model/Checksum.lean): u32 / u64 `+ - *` and
`wrapping_*` wrap (`add32`, `sub64`, …: what a release build does; that a debug build never panics on
the property's domain is the separate `…OK` theorems of C17); `as u32` truncates; `usize` is an
unbounded `Nat` (lengths of in-memory slices); `debug_assert!` and attributes are skipped.

Supported statement subset: `let [mut] x [: T] = e;`, `x = e;` / `self.f = e;` and the compound forms
`+= -= *= %=`, `if c { assignments }`, one `for (i, &x) in SLICE.iter().enumerate() { assignments }`,
`debug_assert!(…);`, a trailing expression (incl. a `Self { … }` literal). Anything else is a
TranslateError = broken obligation.
"""
import os, re, sys

REPO = os.environ.get("COPIA_REPO", "/repo")
OUT = os.environ.get("RS2LEAN_ARITH_OUT") or os.path.normpath(os.path.join(os.path.dirname(os.path.abspath(__file__)), "..", "lean", "Copia", "Gen", "Checksum.lean"))


class TranslateError(Exception):
    pass


TOK = re.compile(r"\s*(<<=|>>=|\+=|-=|\*=|%=|==|!=|<=|>=|<<|>>|&&|\|\||::|->|=>|[A-Za-z_][A-Za-z0-9_]*!?|\d[\d_]*|[{}()\[\],;:.|!&=<>+\-*/%#])")


def tokenize(src):
    src = re.sub(r"//[^\n]*", "", src)
    src = re.sub(r'"(?:[^"\\\\]|\\\\.)*"', "0", src)      # string literals occur only inside debug_assert!(…, "…")
    toks, i = [], 0
    while i < len(src):
        m = TOK.match(src, i)
        if not m:
            if src[i:].strip() == "":
                break
            raise TranslateError(f"cannot tokenize at: {src[i:i+30]!r}")
        toks.append(m.group(1))
        i = m.end()
    return toks


def impl_block(text, ty):
    m = re.search(r"\nimpl " + re.escape(ty) + r" \{", text)
    if not m:
        raise TranslateError(f"impl {ty} not found")
    i = text.index("{", m.start())
    depth, k = 0, i
    while True:
        if text[k] == "{":
            depth += 1
        elif text[k] == "}":
            depth -= 1
            if depth == 0:
                return text[i:k + 1]
        k += 1


def fn_source(text, name):
    m = re.search(r"\bfn " + re.escape(name) + r"\s*\(", text)
    if not m:
        raise TranslateError(f"fn {name} not found")
    j = text.index("{", m.end())
    sig = " ".join(text[m.start():j].split())
    depth, k = 0, j
    while True:
        if text[k] == "{":
            depth += 1
        elif text[k] == "}":
            depth -= 1
            if depth == 0:
                break
        k += 1
    return sig, text[j:k + 1]


WIDTH = {"u8": 8, "u32": 32, "u64": 64, "usize": 0}      # 0 = unbounded Nat


def arith(op, ty, a, b):
    w = WIDTH[ty]
    if w == 0:
        return {"+": f"({a} + {b})", "-": f"({a} - {b})", "*": f"({a} * {b})"}[op]
    if w not in (32, 64):
        raise TranslateError(f"arithmetic at type {ty}")
    return f"({ {'+': 'add', '-': 'sub', '*': 'mul'}[op] }{w} {a} {b})"


class T:
    """typed expression / statement translator for one method"""

    def __init__(self, toks, env, fields, consts, selfname, structname):
        self.t, self.i = toks, 0
        self.env = dict(env)            # local name -> type
        self.fields, self.consts = fields, consts
        self.s = selfname               # Lean name of the current self value (or None)
        self.struct = structname
        self.aux = []                   # auxiliary (loop) definitions

    def peek(self, k=0):
        return self.t[self.i + k] if self.i + k < len(self.t) else None

    def eat(self, x=None):
        tok = self.peek()
        if tok is None or (x is not None and tok != x):
            raise TranslateError(f"expected {x!r}, found {tok!r}: … {' '.join(self.t[max(0, self.i-8):self.i+6])}")
        self.i += 1
        return tok

    # ---------------------------------------------------------------- expressions: return (lean, type)
    def expr(self):
        return self.bor()

    def bor(self):
        a, ta = self.shift()
        while self.peek() == "|":
            self.eat()
            b, tb = self.shift()
            a = f"({a} ||| {b})"
        return a, ta

    def shift(self):
        a, ta = self.addsub()
        while self.peek() in ("<<",):
            self.eat()
            b, _ = self.addsub()
            w = WIDTH[ta]
            a = f"(({a} <<< {b}) % W{w})" if w else f"({a} <<< {b})"
        return a, ta

    def addsub(self):
        a, ta = self.muldiv()
        while self.peek() in ("+", "-"):
            op = self.eat()
            b, tb = self.muldiv()
            self.same(ta, tb, op)
            ta = tb if ta == "lit" else ta
            a = arith(op, ta, a, b)
        return a, ta

    def muldiv(self):
        a, ta = self.cast()
        while self.peek() in ("*", "%"):
            op = self.eat()
            b, tb = self.cast()
            self.same(ta, tb, op)
            ta = tb if ta == "lit" else ta
            a = f"({a} % {b})" if op == "%" else arith(op, ta, a, b)
        return a, ta

    def same(self, ta, tb, op):
        if ta != tb and "lit" not in (ta, tb):
            raise TranslateError(f"operands of `{op}` have types {ta} and {tb}")

    def cast(self):
        a, ta = self.postfix()
        while self.peek() == "as":
            self.eat()
            to = self.eat()
            if to not in WIDTH:
                raise TranslateError(f"cast to {to}")
            wf, wt = WIDTH[ta], WIDTH[to]
            if wt != 0 and ((wf == 0 and wt < 64) or (wf != 0 and wf > wt)):      # usize → u64 is lossless (64-bit target)
                a = f"({a} % W{wt})"        # truncating cast
            ta = to
        return a, ta

    def postfix(self):
        a, ta = self.primary()
        while self.peek() == ".":
            self.eat(".")
            name = self.eat()
            if name == "wrapping_add" or name == "wrapping_sub" or name == "wrapping_mul":
                self.eat("(")
                b, tb = self.expr()
                self.eat(")")
                self.same(ta, tb, name)
                a = arith({"wrapping_add": "+", "wrapping_sub": "-", "wrapping_mul": "*"}[name], ta, a, b)
            elif name == "len" and self.peek() == "(":
                self.eat("("); self.eat(")")
                if ta != "slice":
                    raise TranslateError(".len() of a non-slice")
                a, ta = f"{a}.length", "usize"
            else:
                raise TranslateError(f"unsupported .{name}")
        return a, ta

    def primary(self):
        tok = self.peek()
        if tok == "(":
            self.eat()
            e = self.expr()
            self.eat(")")
            return e
        if tok is not None and re.fullmatch(r"\d[\d_]*", tok):
            self.eat()
            # an integer literal takes the type its context needs: decided by the caller through `lit`
            return tok.replace("_", ""), "lit"
        if tok == "self":
            self.eat(); self.eat("."); f = self.eat()
            if f not in self.fields:
                raise TranslateError(f"unknown field self.{f}")
            return f"{self.s}.{f}", self.fields[f]
        if tok == "Self" and self.peek(1) == "::":
            self.eat(); self.eat("::"); c = self.eat()
            if c not in self.consts:
                raise TranslateError(f"unknown constant Self::{c}")
            return self.consts[c]
        if tok in ("u32", "u64") and self.peek(1) == "::" and self.peek(2) == "from":
            self.eat(); self.eat("::"); self.eat("from"); self.eat("(")
            e, te = self.expr()
            self.eat(")")
            if WIDTH.get(te, 99) > WIDTH[tok] or te == "usize":
                raise TranslateError(f"{tok}::from({te})")
            return e, tok
        if tok == "Self" and self.peek(1) == "{":
            return self.struct_lit()
        if tok in self.env:
            self.eat()
            return tok, self.env[tok]
        raise TranslateError(f"unsupported expression at {tok!r}: … {' '.join(self.t[max(0, self.i-6):self.i+6])}")

    def struct_lit(self):
        self.eat("Self"); self.eat("{")
        parts = []
        while self.peek() != "}":
            f = self.eat(); self.eat(":")
            e, te = self.expr()
            e, te = self.coerce(e, te, self.fields[f])
            parts.append(f"{f} := {e}")
            if self.peek() == ",":
                self.eat()
        self.eat("}")
        if sorted(p.split(" :=")[0] for p in parts) != sorted(self.fields):
            raise TranslateError("struct literal does not set every field")
        return "{ " + ", ".join(parts) + f" : {self.struct} }}", "Self"

    def coerce(self, e, te, want):
        if te == "lit":
            return e, want
        if te != want:
            raise TranslateError(f"type {te} where {want} is expected")
        return e, te

    # ---------------------------------------------------------------- statements
    def assign_target(self):
        """-> (kind, name, type)"""
        if self.peek() == "self":
            self.eat(); self.eat("."); f = self.eat()
            return ("field", f, self.fields[f])
        name = self.eat()
        if name not in self.env:
            raise TranslateError(f"assignment to unknown variable {name}")
        return ("local", name, self.env[name])

    def stmt_assign(self):
        kind, name, ty = self.assign_target()
        op = self.eat()
        if op not in ("=", "+=", "-=", "*=", "%="):
            raise TranslateError(f"unsupported assignment operator {op}")
        e, te = self.expr()
        e, te = self.coerce(e, te, ty)
        self.eat(";")
        cur = f"{self.s}.{name}" if kind == "field" else name
        if op == "%=":
            e = f"({cur} % {e})"
        elif op != "=":
            e = arith(op[0], ty, cur, e)
        if kind == "field":
            return [f"let {self.s} := {{ {self.s} with {name} := {e} }}"], {self.s}
        return [f"let {name} := {e}"], {name}

    def stmts_until_close(self):
        """statements up to the matching `}` (consumed). -> (lines, assigned names, trailing expr or None)"""
        lines, assigned, tail = [], set(), None
        while self.peek() != "}":
            tok = self.peek()
            if tok == "let":
                self.eat()
                if self.peek() == "mut":
                    self.eat()
                name = self.eat()
                ty = None
                if self.peek() == ":":
                    self.eat(); ty = self.eat()
                self.eat("=")
                e, te = self.expr()
                if ty is not None:
                    e, te = self.coerce(e, te, ty)
                if te == "lit":
                    raise TranslateError(f"untyped literal bound to {name}")
                self.eat(";")
                self.env[name] = te
                lines.append(f"let {name} := {e}")
            elif tok == "debug_assert!":
                depth = 0
                while True:
                    t = self.eat()
                    if t == "(":
                        depth += 1
                    elif t == ")":
                        depth -= 1
                        if depth == 0:
                            break
                self.eat(";")
            elif tok == "if":
                self.eat()
                c, tc = self.cond()
                self.eat("{")
                inner, asg, t2 = self.stmts_until_close()
                if t2 is not None or self.peek() == "else":
                    raise TranslateError("`if` with a value or an `else` branch")
                asg = sorted(asg)
                if len(asg) != 1:
                    raise TranslateError("`if` body must assign exactly one variable (self)")
                v = asg[0]
                lines.append(f"let {v} := if {c} then (" + "; ".join(inner) + f"; {v}) else {v}")
                assigned |= set(asg)
            elif tok == "for":
                lines += self.for_loop()
            elif (tok == "self" and self.peek(3) in ("=", "+=", "-=", "*=", "%=")) or (tok in self.env and self.peek(1) in ("=", "+=", "-=", "*=", "%=")):
                ls, asg = self.stmt_assign()
                lines += ls; assigned |= asg
            else:
                e, te = self.expr()
                if self.peek() != "}":
                    raise TranslateError(f"expression statement: … {' '.join(self.t[max(0, self.i-6):self.i+6])}")
                tail = (e, te)
        self.eat("}")
        return lines, assigned, tail

    def cond(self):
        a, ta = self.expr()
        op = self.eat()
        if op not in (">=", "<=", "<", ">", "==", "!="):
            raise TranslateError(f"condition operator {op}")
        b, tb = self.expr()
        b, tb = self.coerce(b, tb, ta)
        return {">=": f"{b} ≤ {a}", "<=": f"{a} ≤ {b}", "<": f"{a} < {b}", ">": f"{b} < {a}", "==": f"{a} = {b}", "!=": f"{a} ≠ {b}"}[op], "bool"

    def for_loop(self):
        # for (i, &x) in SLICE.iter().enumerate() { accumulator assignments }
        for t in ("for", "("):
            self.eat(t)
        iv = self.eat(); self.eat(","); self.eat("&"); xv = self.eat(); self.eat(")"); self.eat("in")
        sl = self.eat()
        if self.env.get(sl) != "slice":
            raise TranslateError("for loop over a non-slice")
        for t in (".", "iter", "(", ")", ".", "enumerate", "(", ")", "{"):
            self.eat(t)
        saved = dict(self.env)
        self.env[iv] = "usize"; self.env[xv] = "u8"
        body, asg, tail = self.stmts_until_close()
        self.env = saved
        if tail is not None:
            raise TranslateError("for body with a value")
        accs = sorted(asg)
        free = sorted(n for n in saved if n not in accs and n != sl and any(re.search(r"\b" + re.escape(n) + r"\b", l) for l in body))
        name = f"{self.fn_lean}.loop"
        params = " ".join(f"({n} : Nat)" for n in free)
        acc_ty = " → ".join(["Nat"] * len(accs))
        ret = " × ".join(["Nat"] * len(accs))
        tup = "(" + ", ".join(accs) + ")"
        self.aux.append(
            f"def {name} {params} : List Nat → Nat → {acc_ty} → {ret}\n"
            f"  | [], _, {', '.join(accs)} => {tup}\n"
            f"  | {xv} :: rest, {iv}, {', '.join(accs)} =>\n    " + "\n    ".join(body) + f"\n    {name} {' '.join(free)} rest ({iv} + 1) {' '.join(accs)}\n")
        return [f"let {tup} := {name} {' '.join(free)} {sl} 0 {' '.join(accs)}"]


def translate_method(impl_text, ty, struct_lean, fields, consts, fn, want_sig, lean_name, params, ret_self):
    sig, body = fn_source(impl_text, fn)
    norm = lambda s: re.sub(r"\s+", "", s.replace("pub ", "").replace("const ", ""))
    if norm(sig) != norm(want_sig):
        raise TranslateError(f"signature of {ty}::{fn} changed: {sig!r}")
    env = {p: t for p, t in params}
    tr = T(tokenize(body), env, fields, consts, "s" if ret_self in ("mut", "ref") else None, struct_lean)
    tr.fn_lean = lean_name
    tr.eat("{")
    lines, assigned, tail = tr.stmts_until_close()
    if tr.peek() is not None:
        raise TranslateError(f"trailing tokens after the body of {fn}")
    lp = " ".join(f"({p} : {'List Nat' if t == 'slice' else 'Nat'})" for p, t in params)
    if ret_self == "mut":
        if tail is not None:
            raise TranslateError(f"{fn}: a `&mut self` method with a value")
        head = f"def {lean_name} (s : {struct_lean}) {lp} : {struct_lean} :="
        result = "s"
    elif ret_self == "ref":
        head = f"def {lean_name} (s : {struct_lean}) {lp} : Nat :="
        result = tail[0]
    else:
        head = f"def {lean_name} {lp} : {struct_lean} :="
        result = tail[0]
    out = tr.aux + [head] + ["  " + l for l in lines] + ["  " + result, ""]
    return "\n".join(out)


def struct_fields(text, ty):
    m = re.search(r"pub struct " + re.escape(ty) + r" \{(.*?)\n\}", text, re.S)
    if not m:
        raise TranslateError(f"struct {ty} not found")
    body = re.sub(r"//[^\n]*", "", m.group(1))
    return {a: b for a, b in re.findall(r"(\w+)\s*:\s*(\w+)\s*,", body)}


def impl_consts(impl_text, names):
    out = {}
    for rust, lean in names.items():
        m = re.search(r"const " + rust + r":\s*(\w+)\s*=\s*([\d_]+)\s*;", impl_text)
        if not m:
            raise TranslateError(f"const {rust} not found")
        out[rust] = (lean, m.group(1))
    return out


def translate():
    text = open(os.path.join(REPO, "src/checksum.rs"), encoding="utf-8").read()
    L = ["import Copia.Model.Checksum",
         "/-! GENERATED by tools/rs2lean_arith.py from /repo/src/checksum.rs on every check run — do not edit. -/",
         "namespace Copia.Gen.Checksum", "open Copia.Checksum", "",
         "def mul32 (x y : Nat) : Nat := (x * y) % W32", ""]
    specs = [
        ("RollingChecksum", "Copia.Checksum.Rolling", {"a": "u32", "b": "u32", "count": "usize"}, {"MOD": "Copia.Gen.rollingMod"}, "rolling"),
        ("FastRollingChecksum", "Copia.Checksum.Fast", {"a": "u64", "b": "u64", "count": "usize", "rolls": "u32"},
         {"MOD": "Copia.Gen.fastMod", "NORMALIZE_INTERVAL": "Copia.Gen.normalizeInterval"}, "fast"),
    ]
    for ty, lean_struct, want_fields, cnames, prefix in specs:
        fields = struct_fields(text, ty)
        if fields != want_fields:
            raise TranslateError(f"fields of {ty} changed: {fields}")
        impl = impl_block(text, ty)
        consts = impl_consts(impl, cnames)
        for fn, sig, params, mode in [
            ("new", "fn new(data: &[u8]) -> Self", [("data", "slice")], "ctor"),
            ("roll", "fn roll(&mut self, old_byte: u8, new_byte: u8)", [("old_byte", "u8"), ("new_byte", "u8")], "mut"),
            ("push", "fn push(&mut self, byte: u8)", [("byte", "u8")], "mut"),
            ("digest", "fn digest(&self) -> u32", [], "ref"),
        ]:
            L.append(f"/-- `src/checksum.rs::{ty}::{fn}` -/")
            L.append(translate_method(impl, ty, lean_struct, fields, consts, fn, sig, f"{prefix}{fn.capitalize()}", params, mode))
    L.append("end Copia.Gen.Checksum")
    return "\n".join(L) + "\n"


def main():
    try:
        text = translate()
    except (TranslateError, OSError, ValueError, KeyError) as e:
        print(f"rs2lean_arith: {e!r}", file=sys.stderr)
        return 1
    os.makedirs(os.path.dirname(OUT), exist_ok=True)
    old = open(OUT).read() if os.path.exists(OUT) else None
    if old != text:
        with open(OUT, "w") as f:
            f.write(text)
    return 0


if __name__ == "__main__":
    sys.exit(main())
