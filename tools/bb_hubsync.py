"""C13 — `copia hub-sync` against a real hub: local target, `host:root` through the SSH stand-in, and
stale listings produced by pausing one client between its List and its first Put (tools/sshrelay)
while another client commits."""
import os, re, shutil, subprocess, threading, time
from bbox import Sandbox, Rng, blake3_hex, hexs, CLI_BIN, HOST, VERIF
import bb_hub as H

NAMES = ["a.txt", "b", "d/c.txt", "d/e/f", "sp ace", "m.txt", "n/new.txt", "z.txt", ".copiaignore", ".copia-notes/todo.md", "x.conflict-note",
         # a directory next to siblings whose names extend its name by a byte below '/': component-wise (Path) and byte-wise (String) orders differ
         "d.md", "d-old", "n.txt", "d/e.x",
         # a backslash is an ordinary byte of a Unix file name — not a separator, on the wire neither
         "r\\w.txt", "d\\c.txt"]
CONTENTS = [b"one\n", b"two two\n", b"", b"3" * 5000, b"\x00\xff", b"six" * 100000,
            # sizes that are exact multiples of the hub's 256 KiB staging chunk, ending in (or consisting of) zeros: sparse-file / hole tricks
            bytes(range(256)) * 1024 + b"\x00" * 262144, b"\x00" * 524288, b"\x00" * 262144 + b"tail",
            # … and zero-filled stretches whose LAST bytes are data, at lengths that are not a multiple of 8 (a zero-block test that
            # looks at whole 8-byte words only — seed C13-O — takes them for holes)
            b"\x00" * 6000 + b"END", b"\x00" * (262144 + 9001) + b"trail", b"\x00" * 4099 + b"\x07"]


def gen_tree(rng, n, pool=NAMES):
    t = {}
    for _ in range(n):
        nm = rng.pick(pool)
        if any(k.startswith(nm + "/") or nm.startswith(k + "/") for k in t):
            continue
        t[nm] = rng.pick(CONTENTS)
    return t


def hub_state(root):
    return {k: v for k, v in H.hub_tree(root).items() if not k.endswith(".copia-tmp")}


def parse_counts(out):
    m = re.search(r"Hub push complete: (\d+) sent, (\d+) unchanged, (\d+) conflict", out)
    return tuple(int(x) for x in m.groups()) if m else None


TARGET_STRINGS = ["vh:hubdir", "vh:hub:dir", "vh:", "v:hubdir", "é:h", "./a:b", "a/b:c", ":x", "plain", "d/plain", "ab:cd:ef", "user@host:dir", "a\\b:c", "x/:y", "::"]


def target_section(rng, thorough, rundir, model_run, res, count):
    """`hub.rs::split_target` observed through the real CLI: `hub-sync LOCAL T` either starts the hub over (stand-in) ssh —
    the stub logs `-T <host> copia serve <root>` — or serves the local directory T itself. Compared with the model's `splitTarget`."""
    strings = list(TARGET_STRINGS)
    alpha = ["a", "b", ":", ":", "/", ".", "é", " "]
    for _ in range(120 if thorough else 25):
        s_ = "".join(rng.pick(alpha) for _ in range(rng.range(1, 6)))
        if not s_.startswith("-") and not s_.startswith("/") and ".." not in s_ and s_.strip(". /") != "":
            strings.append(s_)
    ops, impl = [], []
    for t in strings:
        with Sandbox("C13") as sb:
            lroot = sb.path("local"); os.makedirs(lroot); open(os.path.join(lroot, "f"), "wb").write(b"x")
            log = sb.path("ssh.log")
            sb.env["SSH_STUB_LOG"] = log
            work = sb.path("cwd"); os.makedirs(work)
            rc, out, err = sb.run(["hub-sync", lroot, t], timeout=60, cwd=work)
            lines = open(log).read().split("\n")[:-1] if os.path.exists(log) else []
            if lines:
                args = [bytes.fromhex(x).decode("utf-8", "replace") for x in lines[0].split(" ")[:-1]]
                # -T host copia serve root
                if len(args) == 5 and args[0] == "-T" and args[2:4] == ["copia", "serve"]:
                    im = f"R {hexs(args[1])} {hexs(args[4])}"
                else:
                    im = "R? " + " ".join(hexs(a) for a in args)
                count("target/remote")
            else:
                im = "L"
                count("target/local")
        ops.append("target " + hexs(t)); impl.append(im)
    path = os.path.join(rundir, "target", "ops.txt")
    os.makedirs(os.path.dirname(path), exist_ok=True)
    with open(path, "w") as f:
        f.write("\n".join(ops) + "\n")
    model = model_run(path)
    dis = 0
    for q, im, mo in zip(ops, impl, model + [None] * (len(ops) - len(model))):
        if im != mo:
            dis += 1
            if len(res.setdefault("disagreements", [])) < 10:
                res["disagreements"].append({"query": q, "impl": im, "model": mo})
    if dis:
        res["broken"].append(f"C13/corr/target: the real CLI and the model of split_target disagree on {dis} of {len(ops)} targets")
    return len(ops), dis


def tilde_target_section(res, count):
    """C13: `hub-sync LOCAL host:~/hub` — the root is expanded by the remote shell (documented usage). After an exit-0 run every
    local file is on THE hub, i.e. below <remote home>/hub, where another client that names the hub by its absolute path finds it
    (seed C13-K: the root was $'…'-quoted for the remote shell, `serve` created a directory literally named `~`)."""
    for root_spelling in ("~/hubT", "$HOME/hubT"):
        with Sandbox("C13") as sb:
            l1 = sb.path("alice"); sb.write_tree(l1, {"a.txt": b"from alice\n", "sub/n.txt": b"nested\n"})
            rc, out, err = sb.run(["hub-sync", l1, f"{HOST}:{root_spelling}"], timeout=60)
            hub = os.path.join(sb.home, "hubT")
            got = hub_state(hub) if os.path.isdir(hub) else {}
            stray = [n for n in os.listdir(sb.home) if n in ("~", "$HOME")]
            count("target/remote-shell-expansion")
            rep = {"target": f"{HOST}:{root_spelling}", "rc": rc, "stdout": out.decode("utf-8", "replace")[-200:], "stderr": err.decode("utf-8", "replace")[-200:],
                   "files_below_<remote home>/hubT": sorted(got), "stray_in_remote_home": stray}
            if rc == 0 and (got.get("a.txt") != b"from alice\n" or got.get("sub/n.txt") != b"nested\n"):
                res["violations"].append(("exit0-but-local-file-not-on-hub", f"hub-sync to {HOST}:{root_spelling} exited 0 but <remote home>/hubT does not hold the local files (stray directories in the remote home: {stray})", rep))


def staging_shaped_user_file_section(res, count):
    """C13: a client tree holding files whose NAMES look like the hub's staging names (`ledger.20240917.copia-tmp`, a number that is
    no live pid; `x.copia-tmp`) — they are user files: pushed, listed and kept like any other. Alice pushes them; Bob pushes an
    unrelated tree ("hub files at other paths are untouched"); Alice's immediate second run sends nothing (seed C13-P: before each
    List the hub swept "orphaned staging files" by name shape — Bob's List deleted Alice's committed file)."""
    with Sandbox("C13") as sb:
        alice = {"exports/ledger.20240917.copia-tmp": b"ledger of 17 Sep\n", "plain.copia-tmp": b"plain\n", "notes.txt": b"alice's notes\n", "backup.4199999.copia-tmp": bytes(range(256)) * 9}
        bob = {"bob/readme.md": b"bob was here\n"}
        la, lb = sb.path("alice"), sb.path("bob")
        sb.write_tree(la, alice); sb.write_tree(lb, bob)
        hub = os.path.join(sb.home, "hubS")
        rc1, o1, e1 = sb.run(["hub-sync", la, f"{HOST}:hubS"], timeout=60)
        t1 = H.hub_tree(hub) if os.path.isdir(hub) else {}
        rc2, o2, e2 = sb.run(["hub-sync", lb, f"{HOST}:hubS"], timeout=60)
        t2 = H.hub_tree(hub) if os.path.isdir(hub) else {}
        rc3, o3, e3 = sb.run(["hub-sync", la, f"{HOST}:hubS"], timeout=60)
        c3 = parse_counts(o3.decode("utf-8", "replace"))
        count("staging-shaped-user-files")
        rep = {"alice": sorted(alice), "bob": sorted(bob), "rc": [rc1, rc2, rc3], "hub_after_alice": sorted(t1), "hub_after_bob": sorted(t2),
               "alice_second_run": o3.decode("utf-8", "replace")[-200:], "stderr": (e1 + e2 + e3).decode("utf-8", "replace")[-300:]}
        if rc1 == 0 and any(t1.get(k) != v for k, v in alice.items()):
            res["violations"].append(("exit0-but-local-file-not-on-hub", f"alice's hub-sync exited 0 but the hub lacks {sorted(k for k, v in alice.items() if t1.get(k) != v)}", rep))
        if rc1 == 0 and rc2 == 0 and any(t2.get(k) != t1.get(k) for k in t1):
            res["violations"].append(("other-clients-hub-file-disturbed", f"bob's hub-sync of an unrelated tree changed or removed hub files he does not have: {sorted(k for k in t1 if t2.get(k) != t1.get(k))}", rep))
        if rc1 == 0 and rc2 == 0 and rc3 == 0 and c3 is not None and c3[0] != 0:
            res["violations"].append(("second-run-sends", f"alice's second run, nothing changed locally, sent {c3[0]} file(s)", rep))


def h6(data_list):
    """a content as the model sees it: the first 6 bytes of its BLAKE3 (= the 12 hex digits of a conflict-copy name)"""
    return [h[:12] for h in blake3_hex(data_list)]


def tree_tok6(tree):
    if not tree:
        return "-"
    ks = sorted(tree)
    return ";".join(f"{hexs(k)}={h}" for k, h in zip(ks, h6([tree[k] for k in ks])))


def multi_query(hub_before, client_trees, schedule):
    """`hubmulti` query for Model/HubMulti: clients walk their files in path order"""
    return f"hubmulti {tree_tok6(hub_before)} {'|'.join(tree_tok6(t) for t in client_trees)} {','.join(str(i) for i in schedule) if schedule else '-'}"


def multi_impl(hub_after, counts):
    return f"tree={tree_tok6(hub_after)} counters={','.join('?' if c is None else f'{c[0]}/{c[1]}/{c[2]}' for c in counts)}"


def run(pid, tier, seed, rundir, model_run):
    rng = Rng(seed ^ 0xC13)
    res = {"violations": [], "broken": [], "notes": [], "distribution": {}, "samples": []}
    dist = res["distribution"]

    def count(k, c=1):
        dist[k] = dist.get(k, 0) + c

    n = 45 * (12 if tier == "thorough" else 1)
    nrun = 0
    mq, mi, mr = [], [], []      # model queries (Model/HubMulti), the real outcome, report
    for i in range(n):
        mode = ["local", "ssh", "stale", "seq"][i % 4]
        if mode == "seq":
            # a SEQUENCE of runs by several clients against one hub, back to back (same wall-clock second), over a few
            # shared paths with equal-length contents: whatever the hub remembers between sessions (listings, caches
            # keyed by size/mtime) must not make a later client skip a file the hub no longer holds
            with Sandbox("C13") as sb:
                hubroot_rel = "hubdir"
                hubroot = os.path.join(sb.home, hubroot_rel)
                os.makedirs(hubroot, exist_ok=True)
                use_ssh = rng.coin(1, 2)
                target = f"{HOST}:{hubroot_rel}" if use_ssh else hubroot
                shared = [rng.pick(NAMES) for _ in range(2)]
                shared = [x for j, x in enumerate(shared) if not any(x != y and (x.startswith(y + "/") or y.startswith(x + "/")) for y in shared[:j])]
                same_len = [b"0041\n", b"0042\n", b"0043\n", b"00\n44"]
                if rng.coin(1, 3):
                    # one client's tree contains a file named like the conflict copy another client's stale Put would land on
                    shared.append(f"{shared[0]}.conflict-{blake3_hex([rng.pick(same_len)])[0][:12]}")
                nclients = rng.range(2, 3)
                trees = []
                for c in range(nclients):
                    t = {k: rng.pick(same_len) for k in shared if rng.coin(4, 5)}
                    if not t:
                        t[shared[0]] = rng.pick(same_len)
                    lr = sb.path(f"client{c}"); sb.write_tree(lr, t); os.makedirs(lr, exist_ok=True)
                    trees.append((lr, t))
                hist = []
                count("mode/seq")
                for step in range(rng.range(3, 6)):
                    c = rng.below(nclients)
                    lr, t = trees[c]
                    if rng.coin(1, 3):
                        k = sorted(t)[rng.below(len(t))]
                        t[k] = rng.pick(same_len); sb.write_tree(lr, {k: t[k]})
                        hist.append(f"client{c} edits {k}")
                    hub_before = hub_state(hubroot)
                    rc, out, err = sb.run(["hub-sync", lr, target])
                    out = out.decode("utf-8", "replace"); err = err.decode("utf-8", "replace")
                    nrun += 1
                    hist.append(f"client{c} hub-sync rc={rc} {out.strip()[-60:]}")
                    hub1 = hub_state(hubroot)
                    rep = {"mode": "seq" + ("/ssh" if use_ssh else "/local"), "history": list(hist), "local": {k: v.decode() for k, v in t.items()}}
                    mq.append(multi_query(hub_before, [t], [0] * (len(t) + 1))); mi.append(multi_impl(hub1, [parse_counts(out)])); mr.append(rep)
                    if rc == 0:
                        for k, v in t.items():
                            if hub1.get(k) != v:
                                res["violations"].append(("exit0-but-local-file-not-on-hub", f"after a sequence of runs by several clients, hub-sync exited 0 but hub/{k} does not hold the local bytes", rep))
                        cnt = parse_counts(out)
                        need = sum(1 for k, v in t.items() if hub_before.get(k) != v)
                        if cnt is not None and cnt[0] != need:
                            res["violations"].append(("sent-count-ne-differing-files", f"{cnt[0]} file(s) sent but {need} local file(s) differed from the hub before the run", rep))
                    else:
                        # sequential runs never race: the listing is never stale, so there is no excuse for a conflict exit
                        res["violations"].append(("nonzero-exit-without-interference", f"hub-sync rc={rc} in a strictly sequential history: {err[-200:]}", rep))
            continue
        with Sandbox("C13") as sb:
            hubroot_rel = "hubdir"
            hubroot = os.path.join(sb.home, hubroot_rel)
            hub0 = gen_tree(rng, rng.below(5))
            sb.write_tree(hubroot, hub0); os.makedirs(hubroot, exist_ok=True)
            local = gen_tree(rng, rng.range(0, 7))
            if rng.coin(1, 3):
                for k in list(hub0)[:2]:
                    if not any(x.startswith(k + "/") or k.startswith(x + "/") for x in local):
                        local[k] = hub0[k] if rng.coin(1, 2) else rng.pick(CONTENTS)    # already there / changed
            lroot = sb.path("local"); sb.write_tree(lroot, local); os.makedirs(lroot, exist_ok=True)
            target = hubroot if mode == "local" else f"{HOST}:{hubroot_rel}"
            rep = {"mode": mode, "local": sorted(local), "hub_before": sorted(hub0)}
            count("mode/" + mode)
            if mode != "stale":
                rc, out, err = sb.run(["hub-sync", lroot, target])
                out = out.decode("utf-8", "replace"); err = err.decode("utf-8", "replace")
                nrun += 1
                hub1 = hub_state(hubroot)
                rep.update(rc=rc, stdout=out[-300:], stderr=err[-300:])
                mq.append(multi_query(hub0, [local], [0] * (len(local) + 1))); mi.append(multi_impl(hub1, [parse_counts(out)])); mr.append(dict(rep))
                if rc == 0:
                    for k, v in local.items():
                        if hub1.get(k) != v:
                            res["violations"].append(("exit0-but-local-file-not-on-hub", f"hub-sync exited 0 but hub/{k} does not hold the local bytes", rep))
                    for k, v in hub0.items():
                        if k not in local and hub1.get(k) != v:
                            res["violations"].append(("hub-file-at-other-path-touched", f"hub/{k} is not a local path but changed", rep))
                    extra = [k for k in hub1 if k not in hub0 and k not in local]
                    if extra:
                        res["violations"].append(("unexpected-hub-file", f"exit 0 but new hub files {extra[:3]} that are not local paths", rep))
                    rc2, out2, err2 = sb.run(["hub-sync", lroot, target])
                    out2 = out2.decode("utf-8", "replace")
                    nrun += 1
                    c2 = parse_counts(out2)
                    if rc2 != 0 or c2 is None or c2[0] != 0 or c2[2] != 0 or hub_state(hubroot) != hub1:
                        res["violations"].append(("second-run-sends", f"an immediate second run: rc={rc2} counts={c2} (expected 0 sent, 0 conflicts, hub unchanged)", dict(rep, second_stdout=out2[-200:])))
                else:
                    # no interference here: a non-zero exit has no excuse
                    res["violations"].append(("nonzero-exit-without-interference", f"hub-sync rc={rc} with no other client: {err[-200:]}", rep))
            else:
                # client 1 through the pausing relay; client 2 commits other content for one of client 1's paths while it is paused
                if not local:
                    local["m.txt"] = b"from client 1\n"; sb.write_tree(lroot, local)
                victim = sorted(local)[rng.below(len(local))]
                other = b"committed by client 2 " + str(i).encode()
                l2 = sb.path("local2"); sb.write_tree(l2, {victim: other})
                if (i // 4) % 2 == 1:
                    # some client pushed a file BELOW a directory named exactly like the conflict copy client 1's losing Put would get:
                    # the name is taken (by a directory — nothing there can be hashed), the copy must land on the next free name
                    blocker = f"{victim}.conflict-{blake3_hex([local[victim]])[0][:12]}/keep"
                    if not any(x == blocker or x.startswith(blocker + "/") or blocker.startswith(x + "/") for x in list(hub0) + list(local) if x != victim):
                        hub0[blocker] = b"below the conflict-copy name"
                        sb.write_tree(hubroot, {blocker: hub0[blocker]})
                        rep["hub_before"] = sorted(hub0)
                        count("stale/directory-under-the-conflict-copy-name")
                rdir = sb.path("relay"); os.makedirs(rdir)
                env = dict(sb.env, PATH=os.path.join(VERIF, "tools", "sshrelay") + ":" + sb.env["PATH"], RELAY_DIR=rdir)
                p1 = subprocess.Popen([CLI_BIN, "hub-sync", lroot, f"{HOST}:{hubroot_rel}"], env=env, cwd=sb.dir, stdout=subprocess.PIPE, stderr=subprocess.PIPE)
                t0 = time.time()
                while not os.path.exists(os.path.join(rdir, "ready")) and time.time() - t0 < 10 and p1.poll() is None:
                    time.sleep(0.01)
                paused = os.path.exists(os.path.join(rdir, "ready"))
                rc2, out2, err2 = sb.run(["hub-sync", l2, hubroot])
                hub_mid = hub_state(hubroot)
                open(os.path.join(rdir, "go"), "w").close()
                try:
                    o1, e1 = p1.communicate(timeout=30)
                except subprocess.TimeoutExpired:
                    p1.kill(); o1, e1 = p1.communicate()
                nrun += 2
                rc1 = p1.returncode
                hub1 = hub_state(hubroot)
                rep.update(rc=rc1, victim=victim, paused=paused, client2_rc=rc2, stdout=o1.decode("utf-8", "replace")[-300:], stderr=e1.decode("utf-8", "replace")[-300:])
                count("stale/paused" if paused else "stale/not-paused(all files skipped)")
                if paused:
                    # client 1 lists, client 2 runs completely, client 1 sends its requests: one schedule of the multi-client model
                    c1 = parse_counts(o1.decode("utf-8", "replace")); c2 = parse_counts(out2.decode("utf-8", "replace"))
                    mq.append(multi_query(hub0, [local, {victim: other}], [0] + [1, 1] + [0] * len(local))); mi.append(multi_impl(hub1, [c1, c2])); mr.append(dict(rep))
                # every local file retrievable: at its path or as a conflict-copy
                hs = dict(zip(sorted(local), blake3_hex([local[k] for k in sorted(local)])))
                # excused: a file client 1 had nothing to send for (the hub already held exactly these bytes when it listed) and
                # that client 2 then replaced with a CAS-put of its own — a later acknowledged commit by another client, which is
                # what C03 allows to replace live content; client 1 never learns of it and rightly exits 0
                replaced_later = {k for k in local if k == victim and hub0.get(k) == local[k] and rc2 == 0}
                for k, v in local.items():
                    cc = f"{k}.conflict-{hs[k][:12]}"
                    if k in replaced_later:
                        count("stale/skipped-file-replaced-by-client-2(excused)")
                        continue
                    if hub1.get(k) != v and not any(hub1.get(cc + sfx) == v for sfx in ("", "-1", "-2", "-3")):
                        res["violations"].append(("local-file-not-retrievable-after-conflict", f"after the run (rc {rc1}) local file {k} is on the hub neither at its path nor as {cc}", rep))
                # nothing client 2 committed may be overwritten
                if rc2 == 0 and paused and hub1.get(victim) != other and local[victim] != other and hub0.get(victim) != local[victim]:
                    res["violations"].append(("other-clients-commit-overwritten", f"client 2's commit at {victim} was replaced", rep))
                if rc1 == 0:
                    for k, v in local.items():
                        if k in replaced_later:
                            continue
                        if hub1.get(k) != v:
                            res["violations"].append(("exit0-but-local-file-not-on-hub", f"exit 0 but hub/{k} does not hold the local bytes", rep))
            if len(res["samples"]) < 6:
                res["samples"].append({k: (str(v)[:120]) for k, v in rep.items()})
    # the hub's control directory is not a place for user files (D12/D17): a local tree that has a top-level `.copia/` is
    # REFUSED with an error (exit non-zero, nothing stored under .copia), run after run — never a silent conflict pile-up
    with Sandbox("C13") as sb:
        hubroot = os.path.join(sb.home, "hubdir"); os.makedirs(hubroot)
        lr = sb.path("ctl"); sb.write_tree(lr, {".copia/notes": b"user file in the reserved directory\n", "zz.txt": b"ordinary\n"})
        outs = []
        for _ in range(2):
            rc, out, err = sb.run(["hub-sync", lr, hubroot]); nrun += 1
            outs.append((rc, err.decode("utf-8", "replace")[-160:]))
        h1 = H.hub_tree(hubroot)
        stored = sorted(k for k in h1 if k.startswith(".copia/") and not k.endswith("commit.lock"))
        rep = {"mode": "control-dir", "runs": outs, "hub": sorted(h1)}
        count("mode/control-dir")
        if any(rc == 0 for rc, _ in outs) or stored:
            res["violations"].append(("control-directory-accepted", f"hub-sync of a tree with a top-level .copia/ file: exit codes {[rc for rc, _ in outs]}, stored under .copia: {stored}", rep))
    with open(os.path.join(rundir, "ops.txt"), "w") as f:
        f.write("\n".join(mq) + ("\n" if mq else ""))
    mm = model_run(os.path.join(rundir, "ops.txt")) if mq else []
    mdis = 0
    for q, im, mo, rp in zip(mq, mi, mm + [None] * (len(mq) - len(mm)), mr):
        if im != mo:
            mdis += 1
            if len(res.setdefault("disagreements", [])) < 8:
                res["disagreements"].append({"query": q[:600], "impl": im[:600], "model": (mo or "")[:600], "case": {k: str(v)[:200] for k, v in rp.items()}})
    count("model-compared-runs", len(mq))
    if mdis:
        res["broken"].append(f"C13/corr/multi-client: hub tree / counters after {mdis} of {len(mq)} real runs differ from Model/HubMulti (theorems C13.step_lands, step_overwrites_only_listed, run_steps_safe)")
    ntgt, tdis = target_section(rng, tier == "thorough", rundir, model_run, res, count)
    tilde_target_section(res, count)
    staging_shaped_user_file_section(res, count)
    tdis += mdis
    res.update(evaluations=nrun + ntgt, distinct_nontrivial=n, n_disagreements=tdis, n_oracle_failures=len(res["violations"]),
               rule="hub trees of 0–4 files and local trees of 0–7 files over names incl. nested, spaces, `.copia`-prefixed user files, conflict-looking names; some local files already on the hub (same / changed); "
                    "targets: local path, `host:root` via the SSH stand-in, and `host:root` via a relay that pauses client 1 after its List while client 2 commits different bytes at one of client 1's paths. "
                    "Every real run (single, sequential multi-client, and the stale interleaving client 1 List / client 2 whole run / client 1 requests) is replayed as a schedule of Model/HubMulti: hub tree (path ↦ hash, conflict-copy names included) and sent/skipped/conflict counters must agree. "
                    "Oracles: exit-0 postcondition, untouched other paths, second run sends nothing; after a stale run every local file is at its path or at its conflict-copy and client 2's commit survives.")
    return res
