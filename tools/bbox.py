"""Black-box helpers: run the REAL `copia` binary in a private sandbox directory and observe trees.

Everything a case needs lives under one scratch directory in /var/tmp (HOME, the two roots, the SSH
stand-in's "remote home"), removed after the case. HOSTNAME is pinned so conflict-copy names are
deterministic.
"""
import hashlib, json, os, shutil, subprocess, tempfile

VERIF = os.path.dirname(os.path.dirname(os.path.abspath(__file__)))
BUILD = os.path.join(VERIF, ".build")
# scratch area for sandboxes: one per copy of /verif (a background run from a snapshot must not share — or clean up — ours)
BBOX_BASE = "/var/tmp/copia-bbox" + ("" if VERIF == "/verif" else "-" + format(__import__("zlib").crc32(VERIF.encode()), "08x"))
CLI_BIN = os.path.join(BUILD, "cli-target", "debug", "copia")
HARNESS_BIN = os.path.join(BUILD, "target", "release", "copia-corr")
HELPER_BIN = os.path.join(BUILD, "helper", "copia-corr")


def helper_bin():
    """the harness binary for HELPER subcommands (hashes, CBOR of requests — nothing of the code under test): the current
    build, or the copy kept from the last build that succeeded when the tree under test no longer lets the harness compile"""
    return HARNESS_BIN if os.path.exists(HARNESS_BIN) else HELPER_BIN
SSHSTUB = os.path.join(VERIF, "tools", "sshstub")
HOST = "vh"


def hexs(b):
    if isinstance(b, str):
        b = b.encode()
    return b.hex() if b else "-"


class Rng:
    """SplitMix64 (same generator as the Rust harness); all random choices of a run derive from one seed."""
    M = (1 << 64) - 1

    def __init__(self, seed):
        self.s = ((seed * 0x9E3779B97F4A7C15) ^ 0xD1B54A32D192ED03) & self.M

    def next(self):
        self.s = (self.s + 0x9E3779B97F4A7C15) & self.M
        z = self.s
        z = ((z ^ (z >> 30)) * 0xBF58476D1CE4E5B9) & self.M
        z = ((z ^ (z >> 27)) * 0x94D049BB133111EB) & self.M
        return z ^ (z >> 31)

    def below(self, n):
        return self.next() % n if n > 0 else 0

    def range(self, lo, hi):
        return lo + self.below(hi - lo + 1)

    def coin(self, num, den):
        return self.below(den) < num

    def pick(self, xs):
        return xs[self.below(len(xs))]

    def bytes(self, n):
        return bytes(self.next() & 0xFF for _ in range(n))


_b3cache = {}


def blake3_hex(data_list):
    """BLAKE3 of each byte string (computed by the Rust harness helper, real `blake3` crate)."""
    todo = [d for d in set(data_list) if d not in _b3cache]
    if todo:
        inp = "\n".join(d.hex() if d else "-" for d in todo) + "\n"
        r = subprocess.run([helper_bin(), "hashhex"], input=inp, text=True, stdout=subprocess.PIPE, check=True)
        for d, h in zip(todo, r.stdout.split("\n")):
            _b3cache[d] = h.strip()
    return [_b3cache[d] for d in data_list]


class Sandbox:
    def __init__(self, tag="case"):
        os.makedirs(BBOX_BASE, exist_ok=True)
        self.dir = tempfile.mkdtemp(prefix=tag + "-", dir=BBOX_BASE)
        self.home = os.path.join(self.dir, "home")
        os.makedirs(self.home)
        # TZ: a non-UTC zone with DST, given as a POSIX string (no tzdata needed). The properties hold in any
        # time zone; epoch-second handling that silently assumes UTC (seed C14-C) is invisible under TZ=UTC.
        self.env = dict(os.environ, HOME=self.home, HOSTNAME=HOST, RUST_LOG="off", TZ="EST5EDT,M3.2.0,M11.1.0",
                        PATH=SSHSTUB + ":" + os.path.dirname(CLI_BIN) + ":" + os.environ.get("PATH", ""),
                        SSH_STUB_HOME=self.home)

    def path(self, *p):
        return os.path.join(self.dir, *p)

    def close(self):
        shutil.rmtree(self.dir, ignore_errors=True)

    def __enter__(self):
        return self

    def __exit__(self, *a):
        self.close()

    def run(self, args, timeout=60, stdin=None, cwd=None, prefix=None):
        cmd = (prefix or []) + [CLI_BIN] + args
        try:
            r = subprocess.run(cmd, env=self.env, cwd=cwd or self.dir, input=stdin, stdout=subprocess.PIPE,
                               stderr=subprocess.PIPE, timeout=timeout)
            return r.returncode, r.stdout, r.stderr
        except subprocess.TimeoutExpired as e:
            return "timeout", e.stdout or b"", e.stderr or b""

    # ---- trees
    def write_tree(self, root, tree):
        """tree: dict relpath(str) -> bytes  (or (bytes, mtime_seconds))"""
        os.makedirs(root, exist_ok=True)
        for rel, v in tree.items():
            data, mt = v if isinstance(v, tuple) else (v, None)
            p = os.path.join(root, rel)
            os.makedirs(os.path.dirname(p), exist_ok=True)
            with open(p, "wb") as f:
                f.write(data)
            if mt is not None:
                os.utime(p, (mt, mt))

    def read_tree(self, root, with_mtime=False):
        out = {}
        if not os.path.isdir(root):
            return out
        for d, _, files in os.walk(root):
            for fn in files:
                p = os.path.join(d, fn)
                rel = os.path.relpath(p, root)
                if os.path.islink(p) or not os.path.isfile(p):
                    continue
                with open(p, "rb") as f:
                    data = f.read()
                out[rel] = (data, int(os.stat(p).st_mtime)) if with_mtime else data
        return out

    def archive_files(self):
        d = os.path.join(self.home, ".copia", "archive")
        return sorted(os.listdir(d)) if os.path.isdir(d) else []

    def archive_path(self):
        d = os.path.join(self.home, ".copia", "archive")
        js = [f for f in self.archive_files() if f.endswith(".json")]
        return os.path.join(d, js[0]) if js else None

    def read_archive(self):
        """-> (raw bytes or None, entries dict rel -> blake3 hex or None if it does not parse)"""
        p = self.archive_path()
        if not p:
            return None, None
        raw = open(p, "rb").read()
        try:
            j = json.loads(raw)
            ent = {k: bytes(v["blake3"]).hex() for k, v in j["entries"].items()}
            return raw, ent
        except Exception:
            return raw, None
