#!/usr/bin/env python3
"""suite.py <tree> [target-dir]: run the existing suite in <tree>; report baseline tests (BASELINE.json stable_pass) that no longer pass."""
import json, os, re, subprocess, sys
wt = sys.argv[1]
tgt = sys.argv[2] if len(sys.argv) > 2 else "/var/tmp/copia-test-target"
base = set(json.load(open("/root/.vp/BASELINE.json"))["stable_pass"])
env = dict(os.environ, CARGO_NET_OFFLINE="true", CARGO_TARGET_DIR=tgt)
r = subprocess.run("cargo test --workspace --no-fail-fast --offline 2>&1", shell=True, cwd=wt, env=env, text=True, stdout=subprocess.PIPE)
passed, cur = set(), "copia::"
for ln in r.stdout.split("\n"):
    m = re.match(r"\s+Running (unittests )?(\S+)", ln)
    if m:
        f = m.group(2)
        cur = "copia::" if f.startswith("src/") else "copia::" + os.path.basename(f)[:-3] + "::"
    m = re.match(r"test (\S+)(?: - should panic)? \.\.\. ok", ln)
    if m:
        passed.add(cur + m.group(1))
missing = sorted(base - passed)
print(f"{len(passed & base)}/{len(base)} baseline tests pass; missing: {missing[:10]}")
sys.exit(1 if missing else 0)
