//! C19 (and the pure part of C15) — `plan.rs` (`glob_match`, `is_excluded`, `build_plan`,
//! `needs_transfer`) and `meta.rs::parse_remote_meta_output`, compiled in unchanged.
use crate::cli::meta::parse_remote_meta_output;
use crate::cli::plan::{build_plan, glob_match, is_excluded, needs_transfer, FileMeta, MetaMap};
use crate::util::{guarded, hex, Out, Rng};
use std::collections::HashMap;
use std::path::{Path, PathBuf};

/// Declarative wildcard semantics (oracle): `*` any run, `?` exactly one, everything else literal.
pub fn matches_ref(p: &[char], t: &[char]) -> bool {
    fn go(p: &[char], t: &[char], memo: &mut HashMap<(usize, usize), bool>) -> bool {
        if let Some(v) = memo.get(&(p.len(), t.len())) {
            return *v;
        }
        let r = match p.split_first() {
            None => t.is_empty(),
            Some(('*', rest)) => go(rest, t, memo) || (!t.is_empty() && go(p, &t[1..], memo)),
            Some(('?', rest)) => !t.is_empty() && go(rest, &t[1..], memo),
            Some((c, rest)) => !t.is_empty() && t[0] == *c && go(rest, &t[1..], memo),
        };
        memo.insert((p.len(), t.len()), r);
        r
    }
    go(p, t, &mut HashMap::new())
}

fn excluded_ref(rel: &str, excludes: &[String]) -> bool {
    for pat in excludes {
        let pat = pat.trim_end_matches('/');
        if pat.is_empty() {
            continue;
        }
        let pc: Vec<char> = pat.chars().collect();
        if pat.contains('/') {
            if matches_ref(&pc, &rel.chars().collect::<Vec<_>>()) {
                return true;
            }
        } else if rel.split('/').any(|c| matches_ref(&pc, &c.chars().collect::<Vec<_>>())) {
            return true;
        }
    }
    false
}

fn strings_upto(alpha: &[char], maxlen: usize) -> Vec<String> {
    let mut out = vec![String::new()];
    let mut frontier = vec![String::new()];
    for _ in 0..maxlen {
        let mut next = Vec::new();
        for s in &frontier {
            for c in alpha {
                let mut t = s.clone();
                t.push(*c);
                next.push(t);
            }
        }
        out.extend(next.iter().cloned());
        frontier = next;
    }
    out
}

fn glob_case(w: &mut Out, p: &str, t: &str, to_model: bool, kind: &str) {
    let got = guarded(|| glob_match(p, t));
    let want = matches_ref(&p.chars().collect::<Vec<_>>(), &t.chars().collect::<Vec<_>>());
    w.count_n(&format!("glob/{kind}"), 1);
    if to_model || got != Ok(want) {
        let imp = match got {
            Ok(b) => b.to_string(),
            Err(()) => "PANIC".into(),
        };
        let line = w.case(&format!("glob {} {}", hex(p.as_bytes()), hex(t.as_bytes())), &imp, p.len() >= 2 && !t.is_empty());
        if got != Ok(want) {
            w.fail(line, "glob-ne-wildcard-semantics", &format!("glob_match({p:?}, {t:?}) = {imp}, wildcard semantics says {want}"));
        }
    }
}

fn meta_tok(m: &MetaMap) -> String {
    if m.is_empty() {
        return "-".into();
    }
    m.iter().map(|(p, f)| format!("{}={}:{}", hex(p.to_string_lossy().as_bytes()), f.size, f.mtime)).collect::<Vec<_>>().join(";")
}

fn list_tok(v: &[String]) -> String {
    if v.is_empty() {
        "-".into()
    } else {
        // `~` marks an empty string (hex("") is "-", which would be ambiguous inside a list)
        v.iter().map(|s| if s.is_empty() { "~".to_string() } else { hex(s.as_bytes()) }).collect::<Vec<_>>().join(",")
    }
}

fn paths_tok(v: &[PathBuf]) -> String {
    if v.is_empty() {
        "-".into()
    } else {
        v.iter().map(|p| hex(p.to_string_lossy().as_bytes())).collect::<Vec<_>>().join(",")
    }
}

fn excl_case(w: &mut Out, rel: &str, ex: &[String], kind: &str) {
    let got = guarded(|| is_excluded(Path::new(rel), ex));
    let imp = match got {
        Ok(b) => b.to_string(),
        Err(()) => "PANIC".into(),
    };
    let line = w.case(&format!("excl {} {}", hex(rel.as_bytes()), list_tok(ex)), &imp, !ex.is_empty());
    w.count(&format!("excl/{kind}"));
    let want = excluded_ref(rel, ex);
    if got != Ok(want) {
        w.fail(line, "excluded-ne-definition", &format!("is_excluded({rel:?}, {ex:?}) = {imp}, definition says {want}"));
    }
}

fn plan_case(w: &mut Out, src: &MetaMap, dst: &MetaMap, ex: &[String], del: bool, kind: &str) {
    let got = guarded(|| build_plan(src, dst, ex, del));
    let imp = match &got {
        Ok(p) => format!("T:{}|S:{}|D:{}", paths_tok(&p.transfer), p.skipped, paths_tok(&p.delete)),
        Err(()) => "PANIC".into(),
    };
    let line = w.case(&format!("plan {} {} {} {}", del as u8, meta_tok(src), meta_tok(dst), list_tok(ex)), &imp, src.len() + dst.len() >= 2);
    w.count(&format!("plan/{kind}/del={}", del as u8));
    // oracle: the set definitions (with the declarative exclusion)
    let exr = |p: &PathBuf| excluded_ref(&p.to_string_lossy(), ex);
    let mut t: Vec<PathBuf> = src.iter().filter(|(p, m)| !exr(p) && dst.get(*p).map_or(true, |d| d.size != m.size || d.mtime != m.mtime)).map(|(p, _)| p.clone()).collect();
    t.sort();
    let s = src.iter().filter(|(p, m)| !exr(p) && dst.get(*p).map_or(false, |d| d.size == m.size && d.mtime == m.mtime)).count();
    let mut d: Vec<PathBuf> = if del { dst.keys().filter(|p| !src.contains_key(*p) && !exr(p)).cloned().collect() } else { vec![] };
    d.sort();
    match &got {
        Ok(p) if p.transfer == t && p.skipped == s && p.delete == d => {}
        Ok(p) => {
            let key = if p.transfer.iter().any(|x| exr(x)) || p.delete.iter().any(|x| exr(x)) {
                "plan-touches-excluded"
            } else if !del && !p.delete.is_empty() {
                "plan-deletes-without-flag"
            } else {
                "plan-ne-set-definition"
            };
            w.fail(line, key, &format!("build_plan gives {imp}; set definition gives T:{}|S:{s}|D:{}", paths_tok(&t), paths_tok(&d)));
        }
        Err(()) => w.fail(line, "plan-panic", "build_plan panicked"),
    }
}

fn parse_case(w: &mut Out, listing: &[u8], expect: Option<&MetaMap>, kind: &str) {
    let got = guarded(|| parse_remote_meta_output(listing));
    let imp = match &got {
        Ok(m) => meta_tok(m),
        Err(()) => "PANIC".into(),
    };
    let line = w.case(&format!("parse {}", hex(listing)), &imp, listing.len() > 8);
    w.count(&format!("parse/{kind}"));
    if let Some(e) = expect {
        if got.as_ref().ok() != Some(e) {
            w.fail(line, "parse-ne-listing", &format!("parsed {imp}, the listing was produced from {}", meta_tok(e)));
        }
    }
    if got.is_err() {
        w.fail(line, "parse-panic", "parse_remote_meta_output panicked");
    }
}

pub fn run(w: &mut Out, thorough: bool, seed: u64, only_c15: bool) {
    w.rule = "glob: EVERY (pattern,text) with |pattern| ≤ 4 (5 thorough), |text| ≤ 5 (6) over {a,b,*,?,.,/} is run on the real \
glob_match against the declarative wildcard semantics; the model is queried on every pair whose verdicts differ, plus \
a fixed 1/97 sample of the pairs whose text contains a metacharacter, 1/1021 of the rest. excl: patterns ≤ 3 over {a,*,?,/,.} × relative paths of ≤ 2 components, lists of 1–2 patterns. \
plan: all (src,dst) metadata relations over a 3-path universe × exclude lists × delete flag. parse: generated listings (tabs/newlines/dots/unicode in names, \
fractional, integral, signed, overflowing numbers, malformed and duplicate entries). find: real `find . -type f -printf <format string read from meta.rs>` on real trees (names with tabs/newlines/*, sizes 0–5000, mtimes pre-epoch / sub-second / year 2100): each record vs the model's rendering of that file, and the real parser's map vs the files. Non-trivial: pattern ≥ 2 chars and non-empty text / non-empty exclude list / ≥ 2 map entries / listing > 8 bytes."
        .into();
    w.exhaustive = true;
    let mut rng = Rng::new(seed ^ 0xC19);
    // ---- glob: exhaustive in Rust, sampled into the model
    let alpha = ['a', 'b', '*', '?', '.', '/'];
    let (pl, tl) = if thorough { (5, 6) } else { (4, 5) };
    let pats = strings_upto(&alpha, pl);
    let texts = strings_upto(&alpha, tl);
    // corpus (D2 witnesses) first
    for (p, t) in [("*a", "*ba"), ("*", "*a"), ("*.tmp", "*a.tmp"), ("a*b*c", "axxbyyc"), ("**", ""), ("?*", "*"), ("*?", "?*?")] {
        glob_case(w, p, t, true, "corpus");
    }
    let mut k: u64 = 0;
    for p in &pats {
        for t in &texts {
            k += 1;
            let meta_in_text = t.contains('*') || t.contains('?');
            let to_model = if thorough { (meta_in_text && k % 211 == 0) || k % 4099 == 0 } else { (meta_in_text && k % 97 == 0) || k % 1021 == 0 };
            glob_case(w, p, t, to_model, "exhaustive");
        }
    }
    // random longer pairs
    for _ in 0..(if thorough { 200_000 } else { 20_000 }) {
        let lp = rng.range(0, 9) as usize;
        let lt = rng.range(0, 14) as usize;
        let a2 = ['a', 'b', 'c', '*', '?', '*', 'é'];
        let p: String = (0..lp).map(|_| *rng.pick(&a2)).collect();
        let t: String = (0..lt).map(|_| *rng.pick(&a2)).collect();
        glob_case(w, &p, &t, true, "random-long");
    }
    // ---- is_excluded
    let ex_pats = strings_upto(&['a', '*', '?', '/', '.'], 3);
    let comps = ["a", "b", "*", "a*", ".a", "ab", "?", "a.a"];
    let mut rels: Vec<String> = comps.iter().map(|s| s.to_string()).collect();
    for c1 in comps {
        for c2 in comps {
            rels.push(format!("{c1}/{c2}"));
        }
    }
    rels.push("a/b/a".into());
    for p in &ex_pats {
        for r in &rels {
            excl_case(w, r, &[p.clone()], "single");
        }
    }
    // whole-path mode is not slash-aware: `?` (and `*`) may stand for a `/`, so a pattern and a path need not have the same depth
    // (seed C15-O: a depth pre-filter skipped patterns without `*` whose slash count differs from the path's)
    for (p, r) in [("d/a?b", "d/a/b"), ("a?b/c", "a/b/c"), ("a/b?c", "a/b/c"), ("a/?", "a/b"), ("a/a?a", "a/a/a"), ("a?a/a", "a/a/a"), ("a/?/a", "a/b/a"),
                   ("?/a??", "a/a/a"), ("d/a?b", "d/axb"), ("d/a?b", "d/a/b/c"), ("a/b", "a/b/c"), ("a/*", "a/b/c"), ("a?b", "a/b")] {
        excl_case(w, r, &[p.to_string()], "qmark-vs-slash");
        excl_case(w, r, &["zzz".to_string(), p.to_string()], "qmark-vs-slash");
    }
    for _ in 0..(if thorough { 100_000 } else { 6_000 }) {
        let n = rng.range(0, 3) as usize;
        let ex: Vec<String> = (0..n).map(|_| rng.pick(&ex_pats).clone()).collect();
        let r = rng.pick(&rels).clone();
        excl_case(w, &r, &ex, "list");
    }
    // ---- build_plan over a 3-path universe
    let upaths = ["a", "d/a", "d.b"];
    let sstates: [Option<(u64, i64)>; 3] = [None, Some((1, 1)), Some((2, 1))];
    let dstates: [Option<(u64, i64)>; 4] = [None, Some((1, 1)), Some((1, 2)), Some((2, 1))];
    let exlists: Vec<Vec<String>> = vec![vec![], vec!["a".into()], vec!["d/*".into(), "*b".into()], vec!["d".into()], vec!["x/y".into(), "d.?".into()], vec!["/".into(), "".into(), "*".into()]];
    for s0 in 0..3 { for s1 in 0..3 { for s2 in 0..3 { for d0 in 0..4 { for d1 in 0..4 { for d2 in 0..4 {
        let (mut src, mut dst) = (MetaMap::new(), MetaMap::new());
        for (i, (s, d)) in [(s0, d0), (s1, d1), (s2, d2)].iter().enumerate() {
            if let Some((size, mtime)) = sstates[*s] { src.insert(PathBuf::from(upaths[i]), FileMeta { size, mtime }); }
            if let Some((size, mtime)) = dstates[*d] { dst.insert(PathBuf::from(upaths[i]), FileMeta { size, mtime }); }
        }
        for (j, ex) in exlists.iter().enumerate() {
            // every flag/list combination in thorough; a rotating subset in quick
            if !thorough && (s0 + s1 * 3 + s2 * 5 + d0 + d1 * 7 + d2 * 11 + j) % 3 != 0 { continue; }
            for del in [false, true] {
                plan_case(w, &src, &dst, ex, del, "universe3");
            }
        }
    }}}}}}
    // random larger maps
    let names = ["x", "x/y", "x.y", "x/y/z", "x y", "b", "b/c", "*", "*a", "a*", "é", "t/*", "-n", "a\tb", "a\nb"];
    for _ in 0..(if thorough { 30_000 } else { 3_000 }) {
        let (mut src, mut dst) = (MetaMap::new(), MetaMap::new());
        for n in names {
            let base = FileMeta { size: rng.below(3), mtime: rng.below(3) as i64 };
            if rng.coin(2, 3) { src.insert(PathBuf::from(n), base); }
            if rng.coin(1, 2) { dst.insert(PathBuf::from(n), if rng.coin(1, 2) { base } else { FileMeta { size: rng.below(3), mtime: rng.below(3) as i64 } }); }
        }
        let pool = ["*", "x", "x/*", "*a", "a*", "?", "b/", "t", "*/z", "é", "-n", "*.y", "x?y"];
        let ex: Vec<String> = (0..rng.range(0, 3)).map(|_| rng.pick(&pool).to_string()).collect();
        plan_case(w, &src, &dst, &ex, rng.coin(1, 2), "random");
    }
    if only_c15 {
        return;
    }
    // ---- needs_transfer (all relations)
    for (ss, sm) in [(0u64, 0i64), (1, 5), (u64::MAX, i64::MAX)] {
        for d in [None, Some((ss, sm)), Some((ss ^ 1, sm)), Some((ss, sm ^ 1)), Some((ss ^ 1, sm ^ 1))] {
            let got = needs_transfer(FileMeta { size: ss, mtime: sm }, d.map(|(size, mtime)| FileMeta { size, mtime }));
            let want = d.map_or(true, |(a, b)| a != ss || b != sm);
            let dt = d.map_or("-".to_string(), |(a, b)| format!("{a}:{b}"));
            let line = w.case(&format!("nt {ss}:{sm} {dt}"), &got.to_string(), true);
            if got != want {
                w.fail(line, "needs-transfer", "needs_transfer differs from its definition");
            }
        }
    }
    // ---- parser
    let pnames = ["a", "a b", "d/e", "tab\there", "new\nline", "dot.dot", "..dots", "é/ü", "-x", "a\t\tb", "x.12", "a*", "?"];
    for _ in 0..(if thorough { 40_000 } else { 4_000 }) {
        let mut listing: Vec<u8> = Vec::new();
        let mut expect = MetaMap::new();
        let n = rng.range(0, 6);
        let mut wellformed = true;
        for _ in 0..n {
            let name = *rng.pick(&pnames);
            let size: u64 = match rng.below(5) { 0 => 0, 1 => u64::MAX, 2 => rng.next(), _ => rng.below(100_000) };
            let secs: i64 = match rng.below(6) { 0 => 0, 1 => i64::MAX, 2 => -(rng.below(1000) as i64), 3 => 32_503_680_000, _ => rng.below(2_000_000_000) as i64 };
            let frac = match rng.below(4) { 0 => String::new(), 1 => ".0000000000".into(), 2 => format!(".{:010}", rng.below(10_000_000_000)), _ => ".5".into() };
            match rng.below(14) {
                0 => { listing.extend_from_slice(format!("{size}\t{secs}{frac}").as_bytes()); listing.push(0); }           // missing path field
                1 => { listing.extend_from_slice(format!("x{size}\t{secs}{frac}\t./{name}").as_bytes()); listing.push(0); }   // bad size
                2 => { listing.extend_from_slice(format!("{size}\t{secs}{frac}\t./").as_bytes()); listing.push(0); }        // empty path
                3 => { listing.extend_from_slice(format!("+{size}\tjunk\t./{name}").as_bytes()); listing.push(0); wellformed = false; } // '+' accepted, bad mtime → 0
                4 => { listing.extend_from_slice(format!("18446744073709551616\t{secs}\t./{name}").as_bytes()); listing.push(0); } // overflow → skipped
                5 => { listing.push(0); }                                                                                    // empty entry
                6 => { listing.extend_from_slice(format!("{size}\t99999999999999999999.5\t{name}").as_bytes()); listing.push(0); wellformed = false; }
                _ => {
                    listing.extend_from_slice(format!("{size}\t{secs}{frac}\t./{name}").as_bytes());
                    listing.push(0);
                    let rel = name.strip_prefix("./").unwrap_or(name);
                    expect.insert(PathBuf::from(rel), FileMeta { size, mtime: secs });
                }
            }
        }
        // names like "./k" or "q/./r" make PathBuf keys non-canonical: run them, but without an expectation
        let canonical = !String::from_utf8_lossy(&listing).contains("/./");
        parse_case(w, &listing, if wellformed && canonical { Some(&expect) } else { None }, if wellformed { "wellformed+skips" } else { "malformed-numbers" });
    }
    // ---- the real listing command: `find . -type f -printf <format taken from meta.rs>` on real trees.
    // Each record the real `find` writes must be the model's rendering of that file (query `render`), and the
    // real parser must give back exactly the (path, size, whole seconds) the files have.
    find_section(w, thorough, &mut rng);
    // raw random bytes incl. invalid UTF-8 are run on the implementation only for totality (no model line)
    let mut tot = 0u64;
    for _ in 0..(if thorough { 50_000 } else { 5_000 }) {
        let len = rng.range(0, 40) as usize;
        let b: Vec<u8> = (0..len).map(|_| *rng.pick(&[0u8, 9, 9, b'.', b'/', b'1', b'9', b'-', b'+', 0xff, b'a', 0xc3])).collect();
        if guarded(|| parse_remote_meta_output(&b)).is_err() {
            let line = w.case(&format!("parse {}", hex(&b)), "PANIC", true);
            w.fail(line, "parse-panic", "parse_remote_meta_output panicked on random bytes");
        }
        tot += 1;
    }
    w.count_n("parse/random-bytes-totality-only", tot);
}


/// the `-printf` format string as written in meta.rs of the tree under test (Rust escapes undone)
fn source_printf_format() -> Option<String> {
    let src = include_str!("../../.build/repo/src/bin/copia/meta.rs");
    let i = src.find("-printf '")? + "-printf '".len();
    let j = src[i..].find('\'')? + i;
    Some(src[i..j].replace("\\\\", "\\"))
}

fn find_section(w: &mut Out, thorough: bool, rng: &mut crate::util::Rng) {
    use std::time::{Duration, UNIX_EPOCH};
    let Some(fmt) = source_printf_format() else {
        let line = w.case("nt 0:0 -", "true", false);
        w.fail(line, "find-format-not-found", "no `-printf '<fmt>'` in meta.rs");
        return;
    };
    let names = ["a", "a b", "tab\there", "new\nline", "dot.dot", "..dots", "é", "-x", "a\t\tb", "x.12", "a*", "?", "d/e", "d/f\tg", "q/r/s.t"];
    let base = PathBuf::from(format!("/var/tmp/copia-corr-find-{}", std::process::id()));
    for round in 0..(if thorough { 60 } else { 12 }) {
        let _ = std::fs::remove_dir_all(&base);
        std::fs::create_dir_all(&base).expect("mkdir");
        let mut expect = MetaMap::new();
        let mut records: Vec<Vec<u8>> = Vec::new();
        let n = rng.range(1, 7);
        for _ in 0..n {
            let name = *rng.pick(&names);
            if expect.contains_key(&PathBuf::from(name)) {
                continue;
            }
            let path = base.join(name);
            if let Some(p) = path.parent() {
                std::fs::create_dir_all(p).expect("mkdir");
            }
            let size = match rng.below(4) { 0 => 0, 1 => 1, _ => rng.below(5000) };
            std::fs::write(&path, vec![b'x'; size as usize]).expect("write");
            let nsec: u32 = match rng.below(4) { 0 => 0, 1 => 500_000_000, 2 => 999_999_999, _ => rng.below(1_000_000_000) as u32 };
            let (secs, t) = match rng.below(6) {
                0 => (0i64, UNIX_EPOCH + Duration::new(0, nsec)),
                1 => { let k = rng.range(1, 1000); (-(k as i64), UNIX_EPOCH - Duration::new(k, 0) + Duration::new(0, nsec)) }
                2 => (4_102_444_800, UNIX_EPOCH + Duration::new(4_102_444_800, nsec)),
                _ => { let k = rng.below(2_000_000_000); (k as i64, UNIX_EPOCH + Duration::new(k, nsec)) }
            };
            std::fs::File::options().write(true).open(&path).expect("open").set_modified(t).expect("set mtime");
            expect.insert(PathBuf::from(name), FileMeta { size, mtime: secs });
            // what the model says `find` prints for this file
            let q = format!("render {} {size} {secs} {:09}0", hex(name.as_bytes()), nsec);
            records.push(q.into_bytes());
        }
        let out = std::process::Command::new("find").arg(".").arg("-type").arg("f").arg("-printf").arg(&fmt)
            .current_dir(&base).output().expect("run find");
        let mut real: Vec<&[u8]> = out.stdout.split(|&b| b == 0).filter(|r| !r.is_empty()).collect();
        real.sort();
        // 1. each model-rendered record is one of find's records (the driver answers with the record's hex, NUL included)
        let mut real_hex: Vec<String> = real.iter().map(|r| { let mut v = r.to_vec(); v.push(0); hex(&v) }).collect();
        real_hex.sort();
        for q in &records {
            let q = String::from_utf8_lossy(q).to_string();
            // the implementation side of this line is: the record of the real output for that path
            let name_hex = q.split(' ').nth(1).unwrap_or("").to_string();
            let want = real.iter().find(|r| {
                let s = r.splitn(3, |&b| b == b'\t').nth(2).unwrap_or(&[]);
                hex(s.strip_prefix(b"./").unwrap_or(s)) == name_hex
            }).map(|r| { let mut v = r.to_vec(); v.push(0); hex(&v) }).unwrap_or_else(|| "MISSING".into());
            w.case(&q, &want, true);
            w.count("find/record-vs-model-render");
        }
        // 2. the real parser on the real listing gives back the files
        parse_case(w, &out.stdout, Some(&expect), "real-find-listing");
        if real.len() != expect.len() {
            let line = w.case("nt 0:0 -", "true", false);
            w.fail(line, "find-record-count", &format!("round {round}: find printed {} records for {} files", real.len(), expect.len()));
        }
    }
    let _ = std::fs::remove_dir_all(&base);
}
