//! C20 — codecs: `FrameHeader`, `Message`, `Codec`, bincode files of `Signature`/`Delta`, CLI file readers.
use crate::c01::CliCtx;
use crate::util::{guarded, hex, Out, Rng};
use copia::{Codec, FrameHeader, Message, MessageType};
const MAX_PAYLOAD_SIZE: u32 = 16 * 1024 * 1024; // not re-exported by the crate; the model takes it from Gen.Constants
use copia::{BlockSignature, Delta, DeltaOp, Signature, StrongHash};
use std::io::Cursor;

fn desc_sig(s: &Signature) -> String {
    let bl: Vec<String> = s.blocks.iter().map(|b| format!("{}:{}:{}", b.index, b.weak_hash, hex(b.strong_hash.as_bytes()))).collect();
    format!("{},{},[{}]", s.block_size, s.file_size, bl.join(";"))
}
fn desc_delta(d: &Delta) -> String {
    let ops: Vec<String> = d.ops.iter().map(|o| match o {
        DeltaOp::Copy { offset, len } => format!("C{offset}+{len}"),
        DeltaOp::Literal(x) => format!("L{}", hex(x)),
    }).collect();
    format!("{},{},{},{},[{}]", d.block_size, d.source_size, d.basis_size, hex(d.checksum.as_bytes()), ops.join(";"))
}
fn desc_msg(m: &Message) -> String {
    match m {
        Message::SignatureRequest { file_id, block_size } => format!("SigReq({file_id},{block_size})"),
        Message::SignatureResponse { file_id, signature } => format!("SigResp({file_id},{})", desc_sig(signature)),
        Message::DeltaData { file_id, delta } => format!("Delta({file_id},{})", desc_delta(delta)),
        Message::Ack { file_id, success, message } => format!("Ack({file_id},{},{})", *success as u8, message.as_ref().map_or("N".to_string(), |s| format!("S{}", hex(s.as_bytes())))),
        Message::Error { code, message } => format!("Err({code},{})", hex(message.as_bytes())),
        Message::Ping { seq } => format!("Ping({seq})"),
        Message::Pong { seq } => format!("Pong({seq})"),
    }
}

fn num(rng: &mut Rng, bits: u32) -> u64 {
    let m = if bits == 64 { u64::MAX } else { (1u64 << bits) - 1 };
    match rng.below(6) { 0 => 0, 1 => m, 2 => 1, 3 => rng.below(300), _ => rng.next() & m }
}

fn gen_string(rng: &mut Rng) -> String {
    let pool = ["", "a", "héllo", "x\ty\n", "\u{0}", "日本", "long long long message ................"];
    let mut s = rng.pick(&pool).to_string();
    if rng.coin(1, 4) { for _ in 0..rng.below(40) { s.push((b'a' + rng.below(26) as u8) as char); } }
    s
}

fn gen_sig(rng: &mut Rng, big: bool) -> Signature {
    let n = if big { rng.range(50, 400) } else { rng.below(5) } as usize;
    Signature {
        block_size: num(rng, 64) as usize,
        file_size: num(rng, 64),
        blocks: (0..n).map(|_| { let mut h = [0u8; 32]; h.copy_from_slice(&rng.bytes(32)); BlockSignature::new(num(rng, 32) as u32, num(rng, 32) as u32, StrongHash::from_bytes(h)) }).collect(),
    }
}

fn gen_delta(rng: &mut Rng, big: bool) -> Delta {
    let n = if big { rng.range(30, 200) } else { rng.below(5) } as usize;
    let mut h = [0u8; 32];
    h.copy_from_slice(&rng.bytes(32));
    Delta {
        block_size: num(rng, 32) as u32,
        source_size: num(rng, 64),
        basis_size: num(rng, 64),
        ops: (0..n).map(|_| if rng.coin(1, 2) { DeltaOp::Copy { offset: num(rng, 64), len: num(rng, 32) as u32 } } else { let k = rng.below(if big { 300 } else { 12 }) as usize; DeltaOp::Literal(rng.bytes(k)) }).collect(),
        checksum: StrongHash::from_bytes(h),
    }
}

fn gen_msg(rng: &mut Rng) -> Message {
    match rng.below(9) {
        0 => Message::SignatureRequest { file_id: num(rng, 64), block_size: num(rng, 32) as u32 },
        1 | 7 => { let big = rng.coin(1, 8); Message::SignatureResponse { file_id: num(rng, 64), signature: gen_sig(rng, big) } }
        2 | 8 => { let big = rng.coin(1, 8); Message::DeltaData { file_id: num(rng, 64), delta: gen_delta(rng, big) } }
        3 => Message::Ack { file_id: num(rng, 64), success: rng.coin(1, 2), message: if rng.coin(1, 2) { Some(gen_string(rng)) } else { None } },
        4 => Message::Error { code: num(rng, 32) as u32, message: gen_string(rng) },
        5 => Message::Ping { seq: num(rng, 64) },
        _ => Message::Pong { seq: num(rng, 64) },
    }
}

/// mutate an encoding: bit flips, truncation, extension, absurd counts at length positions
fn mutate(rng: &mut Rng, b: &[u8]) -> Vec<u8> {
    let mut v = b.to_vec();
    match rng.below(7) {
        0 => { if !v.is_empty() { let i = rng.below(v.len() as u64) as usize; v[i] ^= 1 << rng.below(8); } }
        1 => { let n = rng.below(v.len() as u64 + 1) as usize; v.truncate(n); }
        2 => { let k = rng.below(9) as usize; v.extend(rng.bytes(k)); }
        3 => { if v.len() >= 8 { let i = rng.below((v.len() - 7) as u64) as usize; let val: u64 = *rng.pick(&[u64::MAX, 1 << 32, 1 << 20, 0, 0xFFFF_FFFF, 1 << 40]); v[i..i + 8].copy_from_slice(&val.to_le_bytes()); } }
        4 => { if !v.is_empty() { let i = rng.below(v.len().min(16) as u64) as usize; v[i] = rng.next() as u8; } }
        5 => { let n_ = rng.below(40) as usize; v = rng.bytes(n_); }
        _ => { if v.len() > 4 { let i = rng.below(v.len() as u64) as usize; v.remove(i); } }
    }
    v
}

/// a writer that accepts `left` bytes and then fails
struct FailWriter { left: usize, got: Vec<u8> }
impl std::io::Write for FailWriter {
    fn write(&mut self, buf: &[u8]) -> std::io::Result<usize> {
        if self.left == 0 { return Err(std::io::Error::new(std::io::ErrorKind::BrokenPipe, "transport down")); }
        let n = buf.len().min(self.left);
        self.left -= n;
        self.got.extend_from_slice(&buf[..n]);
        Ok(n)
    }
    fn flush(&mut self) -> std::io::Result<()> { Ok(()) }
}

/// a sink that takes at most `per` bytes per call — through `write` and through `write_vectored` alike (a packetising
/// adaptor, a non-blocking socket with little room): what it has received, in order, is the stream
struct TrickleWriter { per: usize, got: Vec<u8> }
impl std::io::Write for TrickleWriter {
    fn write(&mut self, buf: &[u8]) -> std::io::Result<usize> {
        let n = buf.len().min(self.per);
        self.got.extend_from_slice(&buf[..n]);
        Ok(n)
    }
    fn write_vectored(&mut self, bufs: &[std::io::IoSlice<'_>]) -> std::io::Result<usize> {
        let mut left = self.per;
        for b in bufs {
            let n = b.len().min(left);
            self.got.extend_from_slice(&b[..n]);
            left -= n;
            if left == 0 { break; }
        }
        Ok(self.per - left)
    }
    fn flush(&mut self) -> std::io::Result<()> { Ok(()) }
}

/// `write_message` into sinks that accept 1, 2, 3, 5, 7, 11, 12, 13, 64 bytes per call: the bytes received are the frame a `Vec`
/// receives (seed C20-M: header and payload offered in one vectored write, a short count taken to mean "the header is through").
fn codec_trickle_sinks(w: &mut Out, rng: &mut Rng, thorough: bool) {
    for _ in 0..(if thorough { 120 } else { 24 }) {
        let m = gen_msg(rng);
        let mut whole = Vec::new();
        if !matches!(guarded(|| Codec::new().write_message(&mut whole, &m)), Ok(Ok(()))) { continue; }
        for per in [1usize, 2, 3, 5, 7, 11, 12, 13, 64] {
            let mut tw = TrickleWriter { per, got: Vec::new() };
            let r = guarded(|| Codec::new().write_message(&mut tw, &m));
            w.count("writemsg/slow-sink");
            let bad: Option<(&str, String)> = match r {
                Ok(Ok(())) if tw.got == whole => None,
                Ok(Ok(())) => Some(("frame-differs-on-a-slow-sink", format!("write_message into a sink taking {per} byte(s) per call returned Ok but delivered {} bytes that are not the frame ({} bytes) of {}", tw.got.len(), whole.len(), &desc_msg(&m)[..desc_msg(&m).len().min(60)]))),
                Ok(Err(e)) => Some(("slow-sink-refused", format!("write_message into a sink taking {per} byte(s) per call failed: {e}"))),
                Err(()) => Some(("panic", "write_message panicked on a slow sink".to_string())),
            };
            if let Some((key, what)) = bad {
                let l = w.case("writemsg -", "TRICKLE", true);
                w.fail(l, key, &what);
            }
        }
    }
}

/// A frame whose header is invalid in exactly ONE respect (an unknown type byte, a wrong magic, another version, a length above the
/// bound) followed on the same stream by a well-formed frame: `read_message` reports an error — it never answers with the SECOND
/// frame's message, whatever follows the bad header (seed C20-N: frames of an unknown kind were drained and skipped, "for forward
/// compatibility"; the verdict on a header then depended on the bytes after it).
fn codec_bad_header_then_good_frame(w: &mut Out, rng: &mut Rng, thorough: bool) {
    for _ in 0..(if thorough { 200 } else { 40 }) {
        let m = gen_msg(rng);
        let m2 = gen_msg(rng);
        let (mut f1, mut f2) = (Vec::new(), Vec::new());
        if !matches!(guarded(|| Codec::new().write_message(&mut f1, &m)), Ok(Ok(()))) { continue; }
        if !matches!(guarded(|| Codec::new().write_message(&mut f2, &m2)), Ok(Ok(()))) { continue; }
        if f1.len() < 12 { continue; }
        // header layout: the codec's own bytes; every single-byte change of byte k that makes `FrameHeader::decode` fail
        for k in 0..12usize {
            for delta in [1u8, 0x7F, 0x80, 0xFF] {
                let mut bad = f1.clone();
                bad[k] = bad[k].wrapping_add(delta);
                let head: [u8; 12] = bad[..12].try_into().expect("12");
                if FrameHeader::decode(&head).is_ok() { continue; }   // still a valid header (e.g. another known kind, another length)
                let mut stream = bad.clone();
                stream.extend_from_slice(&f2);
                let r = guarded(|| Codec::new().read_message(&mut Cursor::new(&stream)));
                w.count("readmsg/bad-header-then-good-frame");
                if let Ok(Ok(got)) = &r {
                    let l = w.case("readmsg -", "BADHEAD", true);
                    w.fail(l, "invalid-header-not-an-error", &format!("header byte {k} of a frame changed by {delta:#x} (FrameHeader::decode rejects these 12 bytes); followed by a well-formed frame, read_message returned Ok({})", &desc_msg(got)[..desc_msg(got).len().min(50)]));
                }
                if r.is_err() {
                    let l = w.case("readmsg -", "BADHEAD", true);
                    w.fail(l, "panic", "read_message panicked on an invalid header followed by a valid frame");
                }
            }
        }
    }
}

/// One codec reads a stream that ENDS inside a frame's payload (the peer hung up), reports that, and is then used on another,
/// well-formed stream: every message of it comes back unchanged — nothing of the unfinished frame (a remembered header, a byte
/// count) survives the error (seed C20-O: resumable reads whose state was cleared on `Err` but not on a clean end of input).
fn codec_truncated_then_valid(w: &mut Out, rng: &mut Rng, thorough: bool) {
    for _ in 0..(if thorough { 300 } else { 60 }) {
        let m = loop { let m = gen_msg(rng); let mut f = Vec::new(); if matches!(guarded(|| Codec::new().write_message(&mut f, &m)), Ok(Ok(()))) && f.len() > 13 { break (m, f); } };
        let (_, f1) = m;
        let cut = 12 + rng.below((f1.len() - 12) as u64) as usize;            // the header is complete, the payload is not
        let msgs: Vec<Message> = (0..3).map(|_| gen_msg(rng)).collect();
        let mut good = Vec::new();
        let mut ok = true;
        for m2 in &msgs { ok &= matches!(guarded(|| Codec::new().write_message(&mut good, m2)), Ok(Ok(()))); }
        if !ok { continue; }
        let mut codec = Codec::new();
        let first = guarded(|| codec.read_message(&mut Cursor::new(&f1[..cut])));
        w.count("readmsg/truncated-then-valid");
        if matches!(first, Ok(Ok(_))) {
            let l = w.case("readmsg -", "TRUNC", true);
            w.fail(l, "truncated-frame-accepted", &format!("a frame cut after {cut} of {} bytes was read as a message", f1.len()));
            continue;
        }
        let mut cur = Cursor::new(&good);
        for (k, m2) in msgs.iter().enumerate() {
            let r = guarded(|| codec.read_message(&mut cur));
            if !matches!(&r, Ok(Ok(got)) if got == m2) {
                let l = w.case("readmsg -", "TRUNC", true);
                w.fail(l, "codec-keeps-state-across-reads", &format!("after a stream that ended {cut} bytes into a {}-byte frame, message #{k} of a well-formed stream read through the same codec is not what was written", f1.len()));
                break;
            }
        }
    }
}

/// ONE codec value used for a whole conversation: writes that fail (a refused oversize message, a transport error)
/// and reads of frames of different sizes must leave nothing behind that changes a later message.
fn codec_sequences(w: &mut Out, rng: &mut Rng, thorough: bool) {
    for round in 0..(if thorough { 60 } else { 12 }) {
        let codec = Codec::new();
        let mut wire: Vec<u8> = Vec::new();
        let mut sent: Vec<Message> = Vec::new();
        let nsteps = 3 + rng.below(5);
        let mut hist: Vec<String> = Vec::new();
        for _ in 0..nsteps {
            match rng.below(6) {
                0 => {
                    // refused: payload above the 16 MiB bound (only every other round: it is a big allocation)
                    if round % 2 == 0 {
                        let big = Message::Error { code: 1, message: "x".repeat(17 * 1024 * 1024) };
                        let mut sink = Vec::new();
                        let r = guarded(|| codec.write_message(&mut sink, &big));
                        hist.push(format!("write oversize -> {}", match &r { Ok(Ok(())) => "ok", Ok(Err(_)) => "err", Err(()) => "PANIC" }));
                        if !matches!(r, Ok(Err(_))) {
                            let l = w.case("writemsg -", "SEQ", true);
                            w.fail(l, "oversize-message-written", "write_message accepted a payload above MAX_PAYLOAD_SIZE");
                        }
                    }
                }
                1 => {
                    let m = gen_msg(rng);
                    let mut fw = FailWriter { left: rng.below(20) as usize, got: Vec::new() };
                    let r = guarded(|| codec.write_message(&mut fw, &m));
                    hist.push(format!("write to a failing transport -> {}", match &r { Ok(Ok(())) => "ok", Ok(Err(_)) => "err", Err(()) => "PANIC" }));
                }
                _ => {
                    let m = gen_msg(rng);
                    let mut one = Vec::new();
                    let r = guarded(|| codec.write_message(&mut one, &m));
                    let mut fresh = Vec::new();
                    let r2 = guarded(|| Codec::new().write_message(&mut fresh, &m));
                    hist.push(format!("write {}", &desc_msg(&m)[..desc_msg(&m).len().min(40)]));
                    let same = matches!((&r, &r2), (Ok(Ok(())), Ok(Ok(()))) if one == fresh) || matches!((&r, &r2), (Ok(Err(_)), Ok(Err(_))));
                    if !same {
                        let l = w.case("writemsg -", "SEQ", true);
                        w.fail(l, "codec-keeps-state-across-writes", &format!("after [{}] the same codec frames a message differently from a fresh codec", hist.join("; ")));
                    }
                    if let Ok(Ok(())) = r { wire.extend_from_slice(&one); sent.push(m); }
                }
            }
        }
        // read the whole conversation back through ONE codec
        let mut rcodec = Codec::new();
        let mut cur = Cursor::new(&wire);
        for (k, m) in sent.iter().enumerate() {
            let r = guarded(|| rcodec.read_message(&mut cur));
            if !matches!(&r, Ok(Ok(m2)) if m2 == m) {
                let l = w.case("readmsg -", "SEQ", true);
                w.fail(l, "codec-keeps-state-across-reads", &format!("message #{k} of a conversation read through one codec differs from what was sent (history: {})", hist.join("; ")));
                break;
            }
        }
        w.count("codec-conversations");
    }
}

/// Every message the codec WRITES it also READS back — at every payload size up to the one bound the writer enforces. Texts
/// and literals of 64 KiB, 1 MiB and just below 16 MiB for every kind that can carry them (a reader with a tighter per-kind
/// limit than the writer makes well-formed frames unreadable — seed C20-J).
fn codec_large_payloads(w: &mut Out, rng: &mut Rng, thorough: bool) {
    let sizes: &[usize] = if thorough { &[65_000, 65_514, 65_515, 65_520, 65_521, 65_536, 66_000, 200_000, 1_000_000, 16 * 1024 * 1024 - 64] }
                          else { &[65_000, 65_520, 65_536, 66_000, 1_000_000] };
    for &n in sizes {
        let text: String = (0..n).map(|i| (b'a' + (i % 26) as u8) as char).collect();
        let mut h = [0u8; 32];
        h.copy_from_slice(&rng.bytes(32));
        let msgs = vec![
            Message::Error { code: 7, message: text.clone() },
            Message::Ack { file_id: 9, success: false, message: Some(text.clone()) },
            Message::DeltaData { file_id: 3, delta: Delta { block_size: 2048, source_size: n as u64, basis_size: 0, ops: vec![DeltaOp::Literal(text.clone().into_bytes())], checksum: StrongHash::from_bytes(h) } },
        ];
        for m in msgs {
            let kind = desc_msg(&m).split('(').next().unwrap_or("").to_string();
            let mut framed = Vec::new();
            let wr = guarded(|| Codec::new().write_message(&mut framed, &m));
            w.count("codec-large-payload");
            if let Ok(Ok(())) = wr {
                let mut cur = Cursor::new(&framed);
                let rd = guarded(|| Codec::new().read_message(&mut cur));
                if !matches!(&rd, Ok(Ok(m2)) if *m2 == m) {
                    let l = w.case("writemsg -", "LARGE", true);
                    let what = match &rd { Ok(Ok(_)) => "a different value".to_string(), Ok(Err(e)) => format!("error: {e}"), Err(()) => "PANIC".into() };
                    w.fail(l, "codec-roundtrip", &format!("the codec wrote a {kind} frame with a {n}-byte text/literal ({} payload bytes) and cannot read it back: {what}", framed.len() - 12));
                }
            }
        }
    }
}

pub fn run(w: &mut Out, thorough: bool, seed: u64) {
    w.rule = "headers: all 7 types × lengths {0,1,16Mi,16Mi+1,2^32-1,random} × flags, plus every single-byte mutation class of valid headers and random 12-byte strings; \
messages: generated values of all seven kinds (fields at 0/1/max/random; empty and large signatures/deltas; strings incl. multi-byte UTF-8 and NUL), encoded by the real code, \
then decoded by model and code (exact value), re-encoded by the model (byte-exact), framed through Codec::write_message/read_message; mutated/truncated/extended/random bytes \
through every decoder (value or ERR compared); CLI `copia delta|patch` on valid and single-field-corrupted files (signal vs no signal). \
Non-trivial: payload ≥ 12 bytes; distinct = distinct query lines."
        .into();
    let mut rng = Rng::new(seed ^ 0xC20);
    codec_sequences(w, &mut rng, thorough);
    codec_large_payloads(w, &mut rng, thorough);
    codec_trickle_sinks(w, &mut rng, thorough);
    codec_bad_header_then_good_frame(w, &mut rng, thorough);
    codec_truncated_then_valid(w, &mut rng, thorough);
    let types = [MessageType::SignatureRequest, MessageType::SignatureResponse, MessageType::DeltaData, MessageType::Ack, MessageType::Error, MessageType::Ping, MessageType::Pong];
    // ---- headers
    for t in types {
        for len in [0u32, 1, MAX_PAYLOAD_SIZE, MAX_PAYLOAD_SIZE + 1, u32::MAX, rng.next() as u32 & 0xFF_FFFF] {
            for flags in [0u16, 1, 0xFFFF] {
                for (magic, ver) in [(*b"COPA", 1u8), (*b"COPB", 1), (*b"COPA", 2), (*b"copa", 0)] {
                    let h = FrameHeader { magic, length: len, msg_type: t, version: ver, flags };
                    let enc = h.encode();
                    let l = w.case(&format!("hdrenc {} {len} {} {ver} {flags}", hex(&magic), t as u8), &hex(&enc), true);
                    w.count("hdrenc");
                    if &enc[0..4] != &magic || enc[4..8] != len.to_le_bytes() || enc[8] != t as u8 || enc[9] != ver || enc[10..12] != flags.to_le_bytes() {
                        w.fail(l, "header-layout", "encoded header does not have the documented layout");
                    }
                    let dec = guarded(|| FrameHeader::decode(&enc));
                    let imp = match &dec { Ok(Ok(h)) => format!("ok {} {} {}", h.length, h.msg_type as u8, h.flags), Ok(Err(_)) => "ERR".into(), Err(()) => "PANIC".into() };
                    let l2 = w.case(&format!("hdrdec {}", hex(&enc)), &imp, true);
                    let should_ok = magic == *b"COPA" && ver == 1 && len <= MAX_PAYLOAD_SIZE;
                    match &dec {
                        Ok(Ok(h2)) if should_ok && *h2 == h => {}
                        Ok(Err(_)) if !should_ok => {}
                        _ => w.fail(l2, "header-decode", &format!("header decode gives {imp} for magic {magic:?} version {ver} length {len}")),
                    }
                }
            }
        }
    }
    for _ in 0..(if thorough { 200_000 } else { 20_000 }) {
        let mut b = FrameHeader::new(*rng.pick(&types), rng.below(u64::from(MAX_PAYLOAD_SIZE) + 1) as u32).encode();
        match rng.below(4) {
            0 => { let i = rng.below(12) as usize; b[i] = rng.next() as u8; }
            1 => { let i = rng.below(12) as usize; b[i] ^= 1 << rng.below(8); }
            2 => { b.copy_from_slice(&rng.bytes(12)); }
            _ => { b[8] = rng.below(12) as u8; }
        }
        let dec = guarded(|| FrameHeader::decode(&b));
        let imp = match &dec { Ok(Ok(h)) => format!("ok {} {} {}", h.length, h.msg_type as u8, h.flags), Ok(Err(_)) => "ERR".into(), Err(()) => "PANIC".into() };
        let l = w.case(&format!("hdrdec {}", hex(&b)), &imp, true);
        w.count("hdrdec-mutated");
        let len = u32::from_le_bytes([b[4], b[5], b[6], b[7]]);
        let must_err = &b[0..4] != b"COPA" || b[9] != 1 || !(1..=7).contains(&b[8]) || len > MAX_PAYLOAD_SIZE;
        match &dec {
            Err(()) => w.fail(l, "header-panic", "FrameHeader::decode panicked"),
            Ok(Ok(_)) if must_err => w.fail(l, "header-accepts-invalid", &format!("header with wrong magic/version/type/oversize length accepted: {}", hex(&b))),
            Ok(Err(_)) if !must_err => w.fail(l, "header-rejects-valid", &format!("valid header rejected: {}", hex(&b))),
            _ => {}
        }
    }
    // ---- messages
    let n = if thorough { 30_000 } else { 3_000 };
    for i in 0..n {
        let m = gen_msg(&mut rng);
        let enc = match guarded(|| m.encode()) { Ok(Ok(e)) => e, _ => { let l = w.case("msgenc -", "PANIC", true); w.fail(l, "encode-failed", "Message::encode failed"); continue; } };
        let nt = enc.len() >= 12;
        let l = w.case(&format!("msgdec {}", hex(&enc)), &desc_msg(&m), nt);
        w.count(&format!("msg/{}", desc_msg(&m).split('(').next().unwrap_or("")));
        match guarded(|| Message::decode(&enc)) {
            Ok(Ok(m2)) if m2 == m => {}
            _ => w.fail(l, "message-roundtrip", &format!("decode(encode(m)) != m for {}", &desc_msg(&m)[..desc_msg(&m).len().min(120)])),
        }
        w.case(&format!("msgenc {}", hex(&enc)), &hex(&enc), nt);
        // framed codec
        let mut framed = Vec::new();
        let wr = guarded(|| Codec::new().write_message(&mut framed, &m));
        let imp = match &wr { Ok(Ok(())) => hex(&framed), Ok(Err(_)) => "ERR".into(), Err(()) => "PANIC".into() };
        let l3 = w.case(&format!("writemsg {}", hex(&enc)), &imp, nt);
        if let Ok(Ok(())) = wr {
            if &framed[0..4] != b"COPA" || framed[9] != 1 || framed[4..8] != (enc.len() as u32).to_le_bytes() || framed[12..] != enc[..] {
                w.fail(l3, "frame-layout", "framed message: header does not start with COPA / version 1 / LE payload length = payload");
            }
            let mut stream = framed.clone();
            let ne_ = rng.below(5) as usize;
            let extra = rng.bytes(ne_);
            stream.extend_from_slice(&extra);
            let mut cur = Cursor::new(&stream);
            w.pre(&format!("readmsg {}", hex(&stream)));
            let rd = guarded(|| Codec::new().read_message(&mut cur));
            let impr = match &rd { Ok(Ok(m2)) => format!("{} rest={} alloc={}", desc_msg(m2), stream.len() as u64 - cur.position(), enc.len()), Ok(Err(_)) => "ERR".into(), Err(()) => "PANIC".into() };
            let l4 = w.case(&format!("readmsg {}", hex(&stream)), &impr, nt);
            if !matches!(&rd, Ok(Ok(m2)) if *m2 == m) {
                w.fail(l4, "codec-roundtrip", "read_message(write_message(m)) != m");
            }
            // the same bytes through a reader that delivers them in short pieces (a socket / pipe): same value, same rest
            let kk = [1usize, 3, 7, 1448][rng.below(4) as usize];
            let mut ch = Chunked { data: &stream, pos: 0, k: kk };
            let rd2 = guarded(|| Codec::new().read_message(&mut ch));
            let impr2 = match &rd2 { Ok(Ok(m2)) => format!("{} rest={} alloc={}", desc_msg(m2), stream.len() - ch.pos, enc.len()), Ok(Err(_)) => "ERR".into(), Err(()) => "PANIC".into() };
            w.count("readmsg-short-reads");
            if impr2 != impr {
                w.fail(l4, "codec-short-reads", &format!("read_message through a reader returning at most {} bytes per read gives `{}`, through a cursor `{}`", kk, &impr2[..impr2.len().min(80)], &impr[..impr.len().min(80)]));
            }
            // mutated frame through the codec reader
            if i % 3 == 0 {
                let mm = mutate(&mut rng, &framed);
                let mut cur = Cursor::new(&mm);
                w.pre(&format!("readmsg {}", hex(&mm)));
                let rd = guarded(|| Codec::new().read_message(&mut cur));
                let plen = if mm.len() >= 8 { u32::from_le_bytes([mm[4], mm[5], mm[6], mm[7]]) } else { 0 };
                let impr = match &rd { Ok(Ok(m2)) => format!("{} rest={} alloc={}", desc_msg(m2), mm.len() as u64 - cur.position(), plen), Ok(Err(_)) => "ERR".into(), Err(()) => "PANIC".into() };
                let l5 = w.case(&format!("readmsg {}", hex(&mm)), &impr, nt);
                w.count("readmsg-mutated");
                if rd.is_err() { w.fail(l5, "codec-panic", "Codec::read_message panicked on a mutated frame"); }
            }
        }
        // mutated payload through the message decoder
        for _ in 0..2 {
            let mm = mutate(&mut rng, &enc);
            w.pre(&format!("msgdec {}", hex(&mm)));
            let d = guarded(|| Message::decode(&mm));
            let imp = match &d { Ok(Ok(m2)) => desc_msg(m2), Ok(Err(_)) => "ERR".into(), Err(()) => "PANIC".into() };
            let l6 = w.case(&format!("msgdec {}", hex(&mm)), &imp, nt);
            w.count(if imp == "ERR" { "msgdec-mutated/err" } else { "msgdec-mutated/value" });
            if d.is_err() { w.fail(l6, "decode-panic", "Message::decode panicked on mutated bytes"); }
        }
    }
    // ---- signature / delta files (what the CLI writes and reads)
    let cli = CliCtx::new();
    for i in 0..(if thorough { 6_000 } else { 600 }) {
        let big = rng.coin(1, 10);
        let s = gen_sig(&mut rng, big);
        let d = gen_delta(&mut rng, big);
        let es = bincode::serialize(&s).expect("ser");
        let ed = bincode::serialize(&d).expect("ser");
        w.case(&format!("sigdec {}", hex(&es)), &desc_sig(&s), true);
        w.case(&format!("sigenc {}", hex(&es)), &hex(&es), true);
        w.case(&format!("deltadec {}", hex(&ed)), &desc_delta(&d), true);
        w.case(&format!("deltaenc {}", hex(&ed)), &hex(&ed), true);
        for _ in 0..2 {
            let ms = mutate(&mut rng, &es);
            w.pre(&format!("sigdec {}", hex(&ms)));
            let r = guarded(|| bincode::deserialize::<Signature>(&ms));
            let imp = match &r { Ok(Ok(x)) => desc_sig(x), Ok(Err(_)) => "ERR".into(), Err(()) => "PANIC".into() };
            let l = w.case(&format!("sigdec {}", hex(&ms)), &imp, true);
            if r.is_err() { w.fail(l, "decode-panic", "Signature deserialize panicked"); }
            let md = mutate(&mut rng, &ed);
            w.pre(&format!("deltadec {}", hex(&md)));
            let r = guarded(|| bincode::deserialize::<Delta>(&md));
            let imp = match &r { Ok(Ok(x)) => desc_delta(x), Ok(Err(_)) => "ERR".into(), Err(()) => "PANIC".into() };
            let l = w.case(&format!("deltadec {}", hex(&md)), &imp, true);
            if r.is_err() { w.fail(l, "decode-panic", "Delta deserialize panicked"); }
        }
        w.count("files");
        // files the CLI writes are NOT protocol payloads: a signature / delta above the 16 MiB payload bound must read back
        // (encode → file → decode through `copia delta` / `copia patch`), the round trip has no size cliff
        if i == 0 {
            if let Some(c) = cli.as_ref() {
                let f = |n: &str| c.dir.join(n).to_string_lossy().into_owned();
                let big = rng.bytes((17 << 20) + 123);
                std::fs::write(f("basis"), b"").ok();
                std::fs::write(f("src"), &big).ok();
                let (c1, _) = c.run(&["signature", &f("basis"), "-o", &f("sig"), "-b", "2048"]);
                let (c2, e2) = c.run(&["delta", &f("src"), &f("sig"), "-o", &f("delta")]);
                let (c3, e3) = c.run(&["patch", &f("basis"), &f("delta"), "-o", &f("out")]);
                w.count("cli-large-delta-file");
                let dl = std::fs::metadata(f("delta")).map(|m| m.len()).unwrap_or(0);
                if c1 != Some(0) || c2 != Some(0) || c3 != Some(0) {
                    w.fail(0, "cli-large-file-rejected", &format!("a {dl}-byte delta file written by `copia delta` did not read back: signature/delta/patch exit {c1:?}/{c2:?}/{c3:?} {e2} {e3}"));
                } else if std::fs::read(f("out")).ok().as_deref() != Some(&big[..]) {
                    w.fail(0, "cli-large-file-roundtrip", "a 17 MiB source did not survive signature -> delta -> patch through files");
                }
                // and a signature with > 16 MiB of block entries (a basis of ~ 420 000 blocks of 512 bytes is 215 MB: too big here) is left to thorough
                for n in ["basis", "src", "sig", "delta", "out"] { let _ = std::fs::remove_file(f(n)); }
            }
        }
        // CLI front ends: every single-field corruption of a VALID file (block size 0 / not a power of two / absurd counts)
        if let Some(c) = cli.as_ref() {
            if i % (if thorough { 12 } else { 10 }) == 0 {
                let f = |n: &str| c.dir.join(n).to_string_lossy().into_owned();
                let basis = rng.bytes(3000);
                let src = { let mut s = basis.clone(); s.insert(100, 7); s };
                let vs = Signature::generate(&mut Cursor::new(&basis), 1024).expect("sig");
                let mut variants: Vec<(String, Signature)> = vec![("valid".into(), vs.clone())];
                for bs in [0usize, 1, 1000, 1023, 131072, usize::MAX] { let mut x = vs.clone(); x.block_size = bs; variants.push((format!("bs={bs}"), x)); }
                { let mut x = vs.clone(); x.file_size = u64::MAX; variants.push(("file_size=max".into(), x)); }
                // per-BLOCK fields of a decoded signature are data, not positions: an index beyond the block list, duplicated or
                // permuted indices, on blocks the source really contains (so the scan walks exactly those table entries)
                let nb = vs.blocks.len();
                for j in 0..nb {
                    for val in [u32::MAX, nb as u32, (nb as u32).wrapping_add(7), 0] {
                        let mut x = vs.clone(); x.blocks[j].index = val; variants.push((format!("block{j}.index={val}"), x));
                    }
                }
                if nb >= 2 { let mut x = vs.clone(); x.blocks.swap(0, nb - 1); variants.push(("blocks-swapped".into(), x)); }
                { let mut x = vs.clone(); x.blocks.truncate(1); variants.push(("blocks-truncated".into(), x)); }
                // file_size is data too: it may disagree with the block list in any way (seed C20-L indexed the block list with it)
                let mut fs_variants: Vec<(String, Signature)> = Vec::new();
                for k in [1024u64, 2048, 3072, 1 << 32, 1 << 40, (1 << 62) - 3000] {
                    let mut x = vs.clone(); x.file_size = vs.file_size + k; fs_variants.push((format!("file_size+{k}"), x));
                }
                for k in [1u64, 952, 1024, 2999] { let mut x = vs.clone(); x.file_size = vs.file_size - k; fs_variants.push((format!("file_size-{k}"), x)); }
                std::fs::write(f("src"), &basis).ok();      // a source of exactly the basis's length and content
                for (name, sv) in &fs_variants {
                    let (svc, srcc) = (sv.clone(), basis.clone());
                    let r = guarded(move || { use copia::Sync; copia::CopiaSync::with_block_size(1024).delta(Cursor::new(&srcc), &svc).map(|d| d.ops.len()) });
                    if r.is_err() { w.fail(0, "delta-panic-on-decoded-signature", &format!("CopiaSync::delta panicked on a decoded signature with {name} (source = the basis)")); }
                    let bytes = bincode::serialize(sv).expect("ser");
                    std::fs::write(f("sig"), &bytes).ok();
                    let (code, err) = c.run(&["delta", &f("src"), &f("sig"), "-o", &f("delta")]);
                    w.count("cli-delta-inconsistent-file-size");
                    if code.is_none() { w.fail(0, "cli-delta-signal", &format!("copia delta died by signal on signature file variant {name} (source = the basis): {}", err.lines().next().unwrap_or(""))); }
                    if code == Some(-999) { w.fail(0, "cli-delta-hang", &format!("copia delta did not terminate within 30 s on signature file variant {name}")); }
                }
                std::fs::write(f("src"), &src).ok();
                for (name, sv) in &variants {
                    // the same hostile signature through the library's table + scan, in process
                    let (svc, srcc) = (sv.clone(), src.clone());
                    if sv.block_size >= 512 && sv.block_size <= 65536 {
                        let r = guarded(move || { use copia::Sync; copia::CopiaSync::with_block_size(1024).delta(Cursor::new(&srcc), &svc).map(|d| d.ops.len()) });
                        if r.is_err() { let l = w.case(&format!("libdelta-hostile-sig {name} {i}"), "PANIC", true); w.fail(l, "delta-panic-on-decoded-signature", &format!("CopiaSync::delta panicked on a decoded signature with {name}")); }
                    }
                }
                for (name, sv) in &variants {
                    let bytes = bincode::serialize(sv).expect("ser");
                    std::fs::write(f("sig"), &bytes).ok();
                    let (code, err) = c.run(&["delta", &f("src"), &f("sig"), "-o", &f("delta")]);
                    let imp = if code.is_none() { "signal" } else { "nosignal" };
                    let l = w.case(&format!("clifront delta {}", hex(&bytes)), imp, true);
                    w.count("cli-delta");
                    if code.is_none() { w.fail(l, "cli-delta-signal", &format!("copia delta died by signal on signature file variant {name}: {}", err.lines().next().unwrap_or(""))); }
                    if code == Some(-999) { w.fail(l, "cli-delta-hang", &format!("copia delta did not terminate within 30 s on signature file variant {name}")); }
                    if name == "valid" && code != Some(0) && code != Some(-998) { w.fail(l, "cli-delta-valid-rejected", "copia delta rejected a valid signature file"); }
                }
                // absurd counts: raw byte-level corruption of the length fields
                let raw = bincode::serialize(&vs).expect("ser");
                for pos in [0usize, 8, 16] {
                    for val in [u64::MAX, 1u64 << 40, 0] {
                        let mut b = raw.clone();
                        b[pos..pos + 8].copy_from_slice(&val.to_le_bytes());
                        std::fs::write(f("sig"), &b).ok();
                        let (code, err) = c.run(&["delta", &f("src"), &f("sig"), "-o", &f("delta")]);
                        let l = w.case(&format!("clifront delta {}", hex(&b)), if code.is_none() { "signal" } else { "nosignal" }, true);
                        if code.is_none() { w.fail(l, "cli-delta-signal", &format!("copia delta died by signal on a corrupted count/length: {}", err.lines().next().unwrap_or(""))); }
                    }
                }
                let vd = copia::CopiaSync::with_block_size(1024);
                let dd = { use copia::Sync; vd.delta(Cursor::new(&src), &vs).expect("delta") };
                std::fs::write(f("basis"), &basis).ok();
                let mut dvars: Vec<(String, Delta)> = vec![("valid".into(), dd.clone())];
                for bs in [0u32, 1, 1000, 131072, u32::MAX] { let mut x = dd.clone(); x.block_size = bs; dvars.push((format!("bs={bs}"), x)); }
                { let mut x = dd.clone(); x.source_size = u64::MAX; dvars.push(("source_size=max".into(), x)); }
                { let mut x = dd.clone(); x.basis_size = 0; dvars.push(("basis_size=0".into(), x)); }
                // hostile: lies about basis_size AND copies past the real end of the basis file
                { let mut x = dd.clone(); x.basis_size = u64::MAX; x.ops.insert(0, DeltaOp::Copy { offset: basis.len() as u64 - 10, len: 100 }); dvars.push(("copy-past-real-end".into(), x)); }
                { let mut x = dd.clone(); x.basis_size = 1 << 40; x.ops.push(DeltaOp::Copy { offset: 1 << 39, len: 4096 }); dvars.push(("copy-far-past-end".into(), x)); }
                // a genuine delta against a truncated basis (every copy that reaches past the cut must be an error)
                dvars.push(("valid-delta-truncated-basis".into(), dd.clone()));
                for (name, dv) in &dvars {
                    let bytes = bincode::serialize(dv).expect("ser");
                    std::fs::write(f("delta"), &bytes).ok();
                    if name == "valid-delta-truncated-basis" { std::fs::write(f("basis"), &basis[..basis.len() / 3]).ok(); }
                    let (code, err) = c.run(&["patch", &f("basis"), &f("delta"), "-o", &f("out")]);
                    let l = w.case(&format!("clifront patch {}", hex(&bytes)), if code.is_none() { "signal" } else { "nosignal" }, true);
                    w.count("cli-patch");
                    if code.is_none() { w.fail(l, "cli-patch-signal", &format!("copia patch died by signal on delta file variant {name}: {}", err.lines().next().unwrap_or(""))); }
                    if code == Some(-999) { w.fail(l, "cli-patch-hang", &format!("copia patch did not terminate within 30 s on delta file variant {name}")); }
                    if name == "valid" && code != Some(0) && code != Some(-998) { w.fail(l, "cli-patch-valid-rejected", "copia patch rejected a valid delta file"); }
                }
            }
        }
    }
}

/// a reader that returns at most `k` bytes per `read` call
struct Chunked<'a> { data: &'a [u8], pos: usize, k: usize }
impl<'a> std::io::Read for Chunked<'a> {
    fn read(&mut self, buf: &mut [u8]) -> std::io::Result<usize> {
        let n = buf.len().min(self.k).min(self.data.len() - self.pos);
        buf[..n].copy_from_slice(&self.data[self.pos..self.pos + n]);
        self.pos += n;
        Ok(n)
    }
}
