//! Correspondence harness for the copia verification (see /verif/DESIGN.md §3.3).
//!
//! `copia-corr <prop> <tier> <seed> <outdir>` generates cases for one property, runs the REAL
//! code (the `copia` library as a path dependency and the binary crate's source files compiled in
//! unchanged through `#[path]`), and writes
//!   <outdir>/ops.txt    one model query per line (input of the Lean driver `copia_model`)
//!   <outdir>/impl.txt   the implementation's canonical answer for the same line
//!   <outdir>/oracle.txt `FAIL <line-no> <what>` for every case on which the implementation
//!                       violates the property's executable oracle (spec evaluated in Rust)
//!   <outdir>/meta.json  counts, input distribution, samples
#![allow(dead_code, unused_imports, clippy::all)]

/// The binary crate's modules, compiled in UNCHANGED from /repo (mirrors `main.rs`'s `mod` list
/// for the modules that do not depend on items defined in `main.rs` itself).
pub mod cli {
    #[path = "../../../.build/repo/src/bin/copia/plan.rs"]
    pub mod plan;
    #[path = "../../../.build/repo/src/bin/copia/reconcile.rs"]
    pub mod reconcile;
    #[path = "../../../.build/repo/src/bin/copia/transfer.rs"]
    pub mod transfer;
    #[path = "../../../.build/repo/src/bin/copia/meta.rs"]
    pub mod meta;
    #[path = "../../../.build/repo/src/bin/copia/wire.rs"]
    pub mod wire;
    #[path = "../../../.build/repo/src/bin/copia/archive.rs"]
    pub mod archive;
}

mod util;
mod c01;
mod c17;
mod c18;
mod c19;
mod c20;

use std::path::PathBuf;

fn main() {
    let args: Vec<String> = std::env::args().collect();
    if args.len() >= 2 && args[1] == "hashhex" {
        // helper for the black-box runners: BLAKE3 (real crate) of each hex-encoded line of stdin
        use std::io::BufRead;
        for line in std::io::stdin().lock().lines() {
            let line = line.expect("stdin");
            let t = line.trim();
            let bytes: Vec<u8> = if t == "-" || t.is_empty() { Vec::new() } else {
                (0..t.len() / 2).map(|i| u8::from_str_radix(&t[2 * i..2 * i + 2], 16).expect("hex")).collect()
            };
            println!("{}", blake3::hash(&bytes).to_hex());
        }
        return;
    }
    if args.len() >= 3 && args[1] == "cbor" {
        // helper for the hub runners: decode hex-encoded CBOR frame bodies with the REAL ciborium + wire.rs types
        use std::io::BufRead;
        let unhex = |t: &str| -> Vec<u8> {
            if t == "-" || t.is_empty() { Vec::new() } else { (0..t.len() / 2).map(|i| u8::from_str_radix(&t[2 * i..2 * i + 2], 16).unwrap_or(0)).collect() }
        };
        let hx = |b: &[u8]| -> String { if b.is_empty() { "-".into() } else { b.iter().map(|x| format!("{x:02x}")).collect() } };
        for line in std::io::stdin().lock().lines() {
            let line = line.expect("stdin");
            let body = unhex(line.trim());
            if args[2] == "req" {
                let r: Result<cli::wire::Request, _> = ciborium::de::from_reader(&body[..]);
                match r {
                    Ok(cli::wire::Request::Hello { version }) => println!("hello:{version}"),
                    Ok(cli::wire::Request::List) => println!("list"),
                    Ok(cli::wire::Request::Get { path }) => println!("get:{}", hx(path.as_bytes())),
                    Ok(cli::wire::Request::Put { path, expected, len, hash }) => println!("put:{}:{}:{}:{}", hx(path.as_bytes()), expected.map_or("-".to_string(), |h| hx(&h)), len, hx(&hash)),
                    Ok(cli::wire::Request::Delete { path, expected }) => println!("delete:{}:{}", hx(path.as_bytes()), expected.map_or("-".to_string(), |h| hx(&h))),
                    Ok(cli::wire::Request::Bye) => println!("bye"),
                    Err(_) => println!("ERR"),
                }
            } else {
                let r: Result<cli::wire::Response, _> = ciborium::de::from_reader(&body[..]);
                match r {
                    Ok(cli::wire::Response::Hello { version }) => println!("hello:{version}"),
                    Ok(cli::wire::Response::Fingerprints(m)) => println!("fps:{}", if m.is_empty() { "-".to_string() } else { m.iter().map(|(k, v)| format!("{}={}", hx(k.as_bytes()), hx(&v.blake3))).collect::<Vec<_>>().join(";") }),
                    Ok(cli::wire::Response::Content { len, hash }) => println!("content:{len}:{}", hx(&hash)),
                    Ok(cli::wire::Response::PutResult { committed, current }) => println!("put:{}:{}", committed as u8, current.map_or("-".to_string(), |h| hx(&h))),
                    Ok(cli::wire::Response::DeleteResult { deleted, current }) => println!("del:{}:{}", deleted as u8, current.map_or("-".to_string(), |h| hx(&h))),
                    Ok(cli::wire::Response::Error(e)) => println!("error:{}", e.replace(' ', "_")),
                    Err(_) => println!("ERR"),
                }
            }
        }
        return;
    }
    if args.len() < 5 {
        eprintln!("usage: copia-corr <prop> <quick|thorough> <seed> <outdir>");
        std::process::exit(2);
    }
    let prop = args[1].as_str();
    let thorough = args[2] == "thorough";
    let seed: u64 = args[3].parse().unwrap_or(1);
    let out = PathBuf::from(&args[4]);
    std::fs::create_dir_all(&out).expect("outdir");
    // keep panics from the code under test quiet; they are caught per case and reported as results
    std::panic::set_hook(Box::new(|_| {}));
    let mut w = util::Out::new(&out);
    match prop {
        "C01" | "C16" => c01::run_c01(&mut w, thorough, seed, prop),
        "C05" => c01::run_c05(&mut w, thorough, seed),
        "C17" => c17::run(&mut w, thorough, seed),
        "C18" => c18::run(&mut w, thorough, seed),
        "C19" => c19::run(&mut w, thorough, seed, false),
        "C20" => c20::run(&mut w, thorough, seed),
        "C15" => c19::run(&mut w, thorough, seed, true),
        other => {
            eprintln!("unknown property {other}");
            std::process::exit(2);
        }
    }
    w.finish();
}
