//! Correspondence harness for the copia verification (see /verif/DESIGN.md §3.3).
//!
//! `copia-corr <prop> <tier> <seed> <outdir>` generates cases for one property, runs the REAL
//! code (the `copia` library as a path dependency and the binary crate's source files compiled in
//! unchanged through `#[path]`), and writes
//!   <outdir>/ops.txt    one model query per line (input of the Lean driver `copia_model`)
//!   <outdir>/impl.txt   the implementation's canonical answer for the same line
//!   <outdir>/oracle.txt `FAIL <line-no> <what>` for every case on which the implementation
//!                       violates the property's executable oracle (spec evaluated in Rust)
//!   <outdir>/meta.json  counts, input distribution, samples
#![allow(dead_code, unused_imports, clippy::all)]

/// The binary crate's modules, compiled in UNCHANGED from /repo (mirrors `main.rs`'s `mod` list
/// for the modules that do not depend on items defined in `main.rs` itself).
pub mod cli {
    #[path = "/verif/.build/repo/src/bin/copia/plan.rs"]
    pub mod plan;
    #[path = "/verif/.build/repo/src/bin/copia/reconcile.rs"]
    pub mod reconcile;
    #[path = "/verif/.build/repo/src/bin/copia/transfer.rs"]
    pub mod transfer;
    #[path = "/verif/.build/repo/src/bin/copia/meta.rs"]
    pub mod meta;
    #[path = "/verif/.build/repo/src/bin/copia/wire.rs"]
    pub mod wire;
    #[path = "/verif/.build/repo/src/bin/copia/archive.rs"]
    pub mod archive;
}

mod util;
mod c01;
mod c17;
mod c18;
mod c19;
mod c20;

use std::path::PathBuf;

fn main() {
    let args: Vec<String> = std::env::args().collect();
    if args.len() >= 2 && args[1] == "hashhex" {
        // helper for the black-box runners: BLAKE3 (real crate) of each hex-encoded line of stdin
        use std::io::BufRead;
        for line in std::io::stdin().lock().lines() {
            let line = line.expect("stdin");
            let t = line.trim();
            let bytes: Vec<u8> = if t == "-" || t.is_empty() { Vec::new() } else {
                (0..t.len() / 2).map(|i| u8::from_str_radix(&t[2 * i..2 * i + 2], 16).expect("hex")).collect()
            };
            println!("{}", blake3::hash(&bytes).to_hex());
        }
        return;
    }
    if args.len() < 5 {
        eprintln!("usage: copia-corr <prop> <quick|thorough> <seed> <outdir>");
        std::process::exit(2);
    }
    let prop = args[1].as_str();
    let thorough = args[2] == "thorough";
    let seed: u64 = args[3].parse().unwrap_or(1);
    let out = PathBuf::from(&args[4]);
    std::fs::create_dir_all(&out).expect("outdir");
    // keep panics from the code under test quiet; they are caught per case and reported as results
    std::panic::set_hook(Box::new(|_| {}));
    let mut w = util::Out::new(&out);
    match prop {
        "C01" | "C16" => c01::run_c01(&mut w, thorough, seed, prop),
        "C05" => c01::run_c05(&mut w, thorough, seed),
        "C17" => c17::run(&mut w, thorough, seed),
        "C18" => c18::run(&mut w, thorough, seed),
        "C19" => c19::run(&mut w, thorough, seed, false),
        "C20" => c20::run(&mut w, thorough, seed),
        "C15" => c19::run(&mut w, thorough, seed, true),
        other => {
            eprintln!("unknown property {other}");
            std::process::exit(2);
        }
    }
    w.finish();
}
