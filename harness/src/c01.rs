//! C01 / C16 / C05 — the delta engine (`signature.rs`, `delta.rs`, `sync.rs`, `async_sync.rs`) and the CLI
//! `signature|delta|patch|sync` commands.
use crate::util::{fxhash, guarded, hex, Out, Rng};
use copia::async_sync::AsyncCopiaSync;
use copia::{CopiaError, CopiaSync, Delta, DeltaOp, Signature, StrongHash, Sync};
use std::collections::HashMap;
use std::io::Cursor;
use std::path::PathBuf;

fn fnv(b: &[u8]) -> u64 {
    let mut h: u64 = 14695981039346656037;
    for x in b {
        h = (h ^ u64::from(*x)).wrapping_mul(1099511628211);
    }
    h
}

fn ops_tok(ops: &[DeltaOp]) -> String {
    if ops.is_empty() {
        return "-".into();
    }
    ops.iter()
        .map(|o| match o {
            DeltaOp::Copy { offset, len } => format!("C{offset}+{len}"),
            DeltaOp::Literal(d) => format!("L{}:{}", d.len(), fnv(d)),
        })
        .collect::<Vec<_>>()
        .join(",")
}

fn ops_full_tok(ops: &[DeltaOp]) -> String {
    if ops.is_empty() {
        return "-".into();
    }
    ops.iter()
        .map(|o| match o {
            DeltaOp::Copy { offset, len } => format!("C{offset}+{len}"),
            DeltaOp::Literal(d) => format!("L{}", hex(d)),
        })
        .collect::<Vec<_>>()
        .join(",")
}

fn delta_tok(d: &Delta) -> String {
    format!("{} {} {} {} {} {}", d.block_size, d.source_size, d.basis_size, d.bytes_literal(), d.bytes_matched(), ops_tok(&d.ops))
}

fn sig_tok(s: &Signature) -> (String, bool) {
    // strong hashes are checked here against the real blake3; the model sees block lengths
    let mut ok = true;
    let mut parts = Vec::new();
    let _ = &mut ok;
    for b in &s.blocks {
        parts.push(format!("{}:{}", b.index, b.weak_hash));
    }
    (format!("{} {} {}", s.block_size, s.file_size, s.blocks.len()), ok && parts.len() == s.blocks.len())
}

pub fn rt() -> tokio::runtime::Runtime {
    tokio::runtime::Builder::new_current_thread().enable_all().build().expect("rt")
}

fn legal(bs: usize) -> bool {
    bs.is_power_of_two() && (512..=65536).contains(&bs)
}

/// All signature paths for one (basis, bs): sequential/rayon `Signature::generate`, the sync trait,
/// the async engine. Returns the sync-trait one and whether all agree.
fn signatures(basis: &[u8], bs: usize, rtm: &tokio::runtime::Runtime) -> Result<(Signature, Vec<String>), ()> {
    let mut diffs = Vec::new();
    let s0 = guarded(|| Signature::generate(&mut Cursor::new(basis), bs))?.map_err(|_| ())?;
    if legal(bs) {
        let s1 = guarded(|| CopiaSync::with_block_size(bs).signature(Cursor::new(basis)))?.map_err(|_| ())?;
        if s1 != s0 {
            diffs.push("sync-trait signature differs from Signature::generate".to_string());
        }
        let s2 = guarded(|| rtm.block_on(AsyncCopiaSync::with_block_size(bs).signature(Cursor::new(basis))))?.map_err(|_| ())?;
        if s2 != s0 {
            diffs.push("async signature differs from Signature::generate".to_string());
        }
    }
    // the same bytes arriving in short reads (first read short then full ones; every read short; reads of block size ± 1)
    if legal(bs) && !basis.is_empty() {
        let pats: [&[usize]; 4] = [&[1000, usize::MAX], &[7, 300, 1], &[bs - 1, bs + 1, bs], &[bs / 2 + 1]];
        for pat in pats {
            let s3 = guarded(|| rtm.block_on(AsyncCopiaSync::with_block_size(bs).signature(ShortReader::new(basis, pat))))?.map_err(|_| ())?;
            if s3 != s0 {
                diffs.push(format!("async signature of a reader delivering short reads {pat:?} differs from Signature::generate"));
            }
            let s4 = guarded(|| CopiaSync::with_block_size(bs).signature(ShortReader::new(basis, pat)))?.map_err(|_| ())?;
            if s4 != s0 {
                diffs.push(format!("sync-trait signature of a reader delivering short reads {pat:?} differs from Signature::generate"));
            }
        }
    }
    // the parallel path (> 64 KiB) against a sequential recomputation block by block
    if basis.len() > 64 * 1024 {
        for (i, chunk) in basis.chunks(bs).enumerate() {
            let b = copia::BlockSignature::compute(i as u32, chunk);
            if s0.blocks.get(i) != Some(&b) {
                diffs.push(format!("parallel signature block {i} differs from BlockSignature::compute"));
                break;
            }
        }
    }
    Ok((s0, diffs))
}

fn model_sig_line(s: &Signature, basis: &[u8]) -> String {
    let bl: Vec<String> = s
        .blocks
        .iter()
        .enumerate()
        .map(|(i, b)| {
            let start = i * s.block_size;
            let end = (start + s.block_size).min(basis.len());
            let strong_ok = start <= end && end <= basis.len() && b.strong_hash.as_bytes() == StrongHash::compute(&basis[start..end]).as_bytes();
            format!("{}:{}:{}", b.index, b.weak_hash, if strong_ok { (end - start) as i64 } else { -1 })
        })
        .collect();
    format!("{} {} {} {}", s.block_size, s.file_size, s.blocks.len(), if bl.is_empty() { "-".to_string() } else { bl.join(",") })
}

/// Reference greedy scan (oracle for C16), independent of the implementation: full basis blocks in a
/// content map; slide; copy+jump on a hit, one literal byte otherwise. Returns the literal byte count.
pub fn textbook_literals(basis: &[u8], src: &[u8], bs: usize) -> u64 {
    let mut full: HashMap<&[u8], usize> = HashMap::new();
    for (i, c) in basis.chunks(bs).enumerate() {
        if c.len() == bs {
            full.entry(c).or_insert(i);
        }
    }
    let (mut pos, mut lit) = (0usize, 0u64);
    while pos + bs <= src.len() {
        if full.contains_key(&src[pos..pos + bs]) {
            pos += bs;
        } else {
            lit += 1;
            pos += 1;
        }
    }
    lit + (src.len() - pos) as u64
}

/// a sink that takes at most `max` bytes per `write` call (what a pipe, a socket or a buffered file may do)
/// a sink that takes part of a buffer and answers the NEXT call with `Interrupted` (EINTR between two partial writes)
struct EintrWriter { out: Vec<u8>, max: usize, pending: bool }
impl EintrWriter {
    fn step(&mut self, b: &[u8]) -> std::io::Result<usize> {
        if self.pending { self.pending = false; return Err(std::io::Error::from(std::io::ErrorKind::Interrupted)); }
        let n = b.len().min(self.max); self.out.extend_from_slice(&b[..n]); if n < b.len() { self.pending = true; } Ok(n)
    }
}
impl std::io::Write for EintrWriter {
    fn write(&mut self, b: &[u8]) -> std::io::Result<usize> { self.step(b) }
    fn flush(&mut self) -> std::io::Result<()> { Ok(()) }
}
impl tokio::io::AsyncWrite for EintrWriter {
    fn poll_write(mut self: std::pin::Pin<&mut Self>, _: &mut std::task::Context<'_>, b: &[u8]) -> std::task::Poll<std::io::Result<usize>> { std::task::Poll::Ready(self.step(b)) }
    fn poll_flush(self: std::pin::Pin<&mut Self>, _: &mut std::task::Context<'_>) -> std::task::Poll<std::io::Result<()>> { std::task::Poll::Ready(Ok(())) }
    fn poll_shutdown(self: std::pin::Pin<&mut Self>, _: &mut std::task::Context<'_>) -> std::task::Poll<std::io::Result<()>> { std::task::Poll::Ready(Ok(())) }
}

/// A reader that hands out its data in SHORT reads (a pipe, a socket, `ssh cat`): read k returns at most `pat[k % pat.len()]`
/// bytes. What a signature covers is decided by the block size, never by how the bytes happened to arrive.
struct ShortReader<'a> { data: &'a [u8], pos: usize, k: usize, pat: &'a [usize] }
impl<'a> ShortReader<'a> {
    fn new(data: &'a [u8], pat: &'a [usize]) -> Self { ShortReader { data, pos: 0, k: 0, pat } }
    fn take(&mut self, room: usize) -> &'a [u8] {
        let n = room.min(self.pat[self.k % self.pat.len()]).min(self.data.len() - self.pos);
        self.k += 1;
        let s = &self.data[self.pos..self.pos + n];
        self.pos += n;
        s
    }
}
impl std::io::Read for ShortReader<'_> {
    fn read(&mut self, b: &mut [u8]) -> std::io::Result<usize> { let s = self.take(b.len()); b[..s.len()].copy_from_slice(s); Ok(s.len()) }
}
impl tokio::io::AsyncRead for ShortReader<'_> {
    fn poll_read(mut self: std::pin::Pin<&mut Self>, _: &mut std::task::Context<'_>, b: &mut tokio::io::ReadBuf<'_>) -> std::task::Poll<std::io::Result<()>> {
        let s = self.take(b.remaining()); b.put_slice(s); std::task::Poll::Ready(Ok(()))
    }
}

/// A sink with limited room (a full disk, a quota): it takes bytes until `room` is used up, then every write fails. Whatever
/// buffering sits in front of it, success may only be reported for bytes the sink RECEIVED.
struct FullSink { out: Vec<u8>, room: usize }
impl FullSink {
    fn put(&mut self, b: &[u8]) -> std::io::Result<usize> {
        let n = b.len().min(self.room - self.out.len());
        if n == 0 && !b.is_empty() {
            return Err(std::io::Error::new(std::io::ErrorKind::Other, "no space left on device"));
        }
        self.out.extend_from_slice(&b[..n]);
        Ok(n)
    }
}
impl std::io::Write for FullSink {
    fn write(&mut self, b: &[u8]) -> std::io::Result<usize> { self.put(b) }
    fn flush(&mut self) -> std::io::Result<()> { Ok(()) }
}
impl tokio::io::AsyncWrite for FullSink {
    fn poll_write(mut self: std::pin::Pin<&mut Self>, _: &mut std::task::Context<'_>, b: &[u8]) -> std::task::Poll<std::io::Result<usize>> { std::task::Poll::Ready(self.put(b)) }
    fn poll_flush(self: std::pin::Pin<&mut Self>, _: &mut std::task::Context<'_>) -> std::task::Poll<std::io::Result<()>> { std::task::Poll::Ready(Ok(())) }
    fn poll_shutdown(self: std::pin::Pin<&mut Self>, _: &mut std::task::Context<'_>) -> std::task::Poll<std::io::Result<()>> { std::task::Poll::Ready(Ok(())) }
}

/// A reader that delivers `good` bytes in small reads, then answers ONE read with the given error, then (if the error was
/// EINTR) goes on. `delta` of an interrupted reader is `delta` of the data (std's `read_to_end` retries EINTR); a hard error
/// in the middle is an error of `delta`, never a delta of the prefix read so far.
struct FlakyReader<'a> { data: &'a [u8], pos: usize, good: usize, kind: std::io::ErrorKind, fired: bool }
impl std::io::Read for FlakyReader<'_> {
    fn read(&mut self, b: &mut [u8]) -> std::io::Result<usize> {
        if !self.fired && self.pos >= self.good {
            self.fired = true;
            return Err(std::io::Error::new(self.kind, "injected"));
        }
        if self.fired && self.kind != std::io::ErrorKind::Interrupted {
            return Err(std::io::Error::new(self.kind, "injected"));
        }
        let n = b.len().min(4096).min(self.data.len() - self.pos);
        b[..n].copy_from_slice(&self.data[self.pos..self.pos + n]);
        self.pos += n;
        Ok(n)
    }
}
impl tokio::io::AsyncRead for FlakyReader<'_> {
    fn poll_read(mut self: std::pin::Pin<&mut Self>, _: &mut std::task::Context<'_>, b: &mut tokio::io::ReadBuf<'_>) -> std::task::Poll<std::io::Result<()>> {
        let mut tmp = vec![0u8; b.remaining().min(4096)];
        match std::io::Read::read(&mut *self, &mut tmp) {
            Ok(n) => { b.put_slice(&tmp[..n]); std::task::Poll::Ready(Ok(())) }
            Err(e) => std::task::Poll::Ready(Err(e)),
        }
    }
}

struct ShortWriter { out: Vec<u8>, max: usize }
impl std::io::Write for ShortWriter {
    fn write(&mut self, b: &[u8]) -> std::io::Result<usize> { let n = b.len().min(self.max); self.out.extend_from_slice(&b[..n]); Ok(n) }
    fn flush(&mut self) -> std::io::Result<()> { Ok(()) }
}
impl tokio::io::AsyncWrite for ShortWriter {
    fn poll_write(mut self: std::pin::Pin<&mut Self>, _: &mut std::task::Context<'_>, b: &[u8]) -> std::task::Poll<std::io::Result<usize>> {
        let n = b.len().min(self.max); self.out.extend_from_slice(&b[..n]); std::task::Poll::Ready(Ok(n))
    }
    fn poll_flush(self: std::pin::Pin<&mut Self>, _: &mut std::task::Context<'_>) -> std::task::Poll<std::io::Result<()>> { std::task::Poll::Ready(Ok(())) }
    fn poll_shutdown(self: std::pin::Pin<&mut Self>, _: &mut std::task::Context<'_>) -> std::task::Poll<std::io::Result<()>> { std::task::Poll::Ready(Ok(())) }
}

fn apply_patch_sync(basis: &[u8], d: &Delta, verify: bool) -> (Result<(), CopiaError>, Vec<u8>) {
    let eng = copia::SyncBuilder::new().verify_checksum(verify).build();
    let mut out = Vec::new();
    let r = eng.patch(Cursor::new(basis), d, &mut out);
    (r, out)
}

fn res_kind(r: &Result<(), CopiaError>) -> &'static str {
    match r {
        Ok(()) => "ok",
        Err(CopiaError::InvalidCopyBounds { .. }) => "InvalidCopyBounds",
        Err(CopiaError::Io(_)) => "Io",
        Err(CopiaError::ChecksumMismatch { .. }) => "ChecksumMismatch",
        Err(_) => "OtherError",
    }
}

pub struct Pair {
    pub basis: Vec<u8>,
    pub src: Vec<u8>,
    pub bs: usize,
    pub label: String,
    /// (k, basis is whole distinct blocks) when src = basis with k bytes inserted/deleted/replaced
    pub edit: Option<u64>,
}

fn block_of(rng: &mut Rng, bs: usize, class: u64) -> Vec<u8> {
    match class {
        0 => vec![0xFF; bs],
        1 => (0..bs).map(|_| 200 + rng.below(56) as u8).collect(),
        2 => vec![0u8; bs],
        3 => (0..bs).map(|i| (i % 251) as u8).collect(),
        _ => rng.bytes(bs),
    }
}

/// two blocks with the same weak checksum but different content: +1, −2, +1 on three adjacent bytes
fn weak_collide(b: &[u8], at: usize) -> Vec<u8> {
    let mut c = b.to_vec();
    if c.len() >= at + 3 && c[at] < 255 && c[at + 1] >= 2 && c[at + 2] < 255 {
        c[at] += 1;
        c[at + 1] -= 2;
        c[at + 2] += 1;
    }
    c
}

pub fn gen_pair(rng: &mut Rng, idx: u64, thorough: bool, max_work: u64) -> Pair {
    let legal_sizes = [512usize, 1024, 2048, 4096, 8192, 16384, 32768, 65536];
    let odd_sizes = [1usize, 2, 3, 7, 100, 513, 1000];
    let bs = if rng.coin(1, 5) { *rng.pick(&odd_sizes) } else { *rng.pick(&legal_sizes) };
    // number of basis blocks bounded so that the list-based Lean model stays fast: blocks × |src| ≤ max_work
    let max_blocks = ((max_work as f64).sqrt() / (bs as f64).sqrt()).max(1.0) as u64;
    let nblocks = match rng.below(10) {
        0 => 0,
        1 => 1,
        _ => rng.range(1, max_blocks.min(if thorough { 64 } else { 24 }).max(1)),
    } as usize;
    let class = rng.below(6);
    let mut blocks: Vec<Vec<u8>> = Vec::new();
    for i in 0..nblocks {
        let b = match rng.below(8) {
            0 if i > 0 => blocks[rng.below(i as u64) as usize].clone(),              // repeated block
            1 if i > 0 => { let at = rng.below((bs.max(3) - 2) as u64) as usize; weak_collide(&blocks[i - 1], at) } // weak collision
            _ => { let c_ = if class == 5 { rng.below(5) } else { class }; block_of(rng, bs, c_) }
        };
        blocks.push(b);
    }
    let mut basis: Vec<u8> = blocks.concat();
    let whole = !rng.coin(1, 4);
    if !whole {
        let extra = rng.below(bs as u64) as usize;
        basis.extend(rng.bytes(extra));
    }
    let mode = rng.below(12);
    let mut edit = None;
    let src: Vec<u8> = match mode {
        0 => Vec::new(),
        1 => basis.clone(),
        2 => { let n_ = rng.below((bs * 3) as u64 + 1) as usize; rng.bytes(n_) },
        3 => { let mut s = { let n_ = rng.range(1, bs as u64 * 2) as usize; rng.bytes(n_) }; s.extend_from_slice(&basis); s } // unaligned shift
        4 => { // block shuffle / duplication
            let mut s = Vec::new();
            for _ in 0..rng.range(0, nblocks as u64 + 2) {
                if !blocks.is_empty() { { let j_ = rng.below(blocks.len() as u64) as usize; s.extend_from_slice(&blocks[j_]); } }
                if rng.coin(1, 3) { s.extend({ let n_ = rng.below(17) as usize; rng.bytes(n_) }); }
            }
            s
        }
        5 => { let n = rng.below(basis.len() as u64 + 1) as usize; basis[..n].to_vec() } // truncation
        _ => { // k-byte insert / delete / replace at a random alignment
            let k = match rng.below(4) { 0 => 1, 1 => rng.range(1, 16), 2 => rng.range(1, bs as u64), _ => rng.range(1, 3 * bs as u64) } as usize;
            let mut s = basis.clone();
            if s.is_empty() { s = rng.bytes(k); } else {
                let at = rng.below(s.len() as u64) as usize;
                match rng.below(3) {
                    0 => { let ins = rng.bytes(k); s.splice(at..at, ins); }
                    1 => { let end = (at + k).min(s.len()); s.drain(at..end); }
                    _ => { let end = (at + k).min(s.len()); for x in &mut s[at..end] { *x = x.wrapping_add(1 + (rng.below(254) as u8)); } }
                }
                edit = Some(k as u64);
            }
            s
        }
    };
    Pair { basis, src, bs, label: format!("i{idx}/bs{bs}/blocks{nblocks}/class{class}/mode{mode}"), edit }
}

fn distinct_whole_blocks(basis: &[u8], bs: usize) -> bool {
    if bs == 0 || basis.len() % bs != 0 {
        return false;
    }
    let mut seen = std::collections::HashSet::new();
    basis.chunks(bs).all(|c| seen.insert(c))
}

/// One (basis, src, bs) through every engine; emits the `sig` and `delta` model queries.
pub fn run_pair(w: &mut Out, p: &Pair, rtm: &tokio::runtime::Runtime, cli: Option<&CliCtx>, to_model: bool, c16: bool) {
    let key = format!("{}", p.label);
    w.count(&format!("bs/{}", if legal(p.bs) { p.bs.to_string() } else { "non-legal".into() }));
    w.count(&format!("basis/{}", match p.basis.len() { 0 => "0", 1..=65536 => "<=64KiB", _ => ">64KiB" }));
    let (sig, diffs) = match signatures(&p.basis, p.bs, rtm) {
        Ok(x) => x,
        Err(()) => {
            let l = w.case(&format!("sig {} {}", p.bs, hex(&p.basis)), "PANIC-OR-ERROR", true);
            w.fail(l, "signature-failed", &format!("signature generation failed/panicked [{key}]"));
            return;
        }
    };
    let lsig = if to_model { w.case(&format!("sig {} {}", p.bs, hex(&p.basis)), &model_sig_line(&sig, &p.basis), !p.basis.is_empty()) } else { 0 };
    for d in diffs {
        w.fail(lsig, "signature-paths-differ", &format!("{d} [{key}]"));
    }
    // deltas: sync trait + async engine
    let d_sync = guarded(|| CopiaSync::new().delta(Cursor::new(&p.src), &sig));
    let d_sync = match d_sync {
        Ok(Ok(d)) => d,
        _ => {
            let l = w.case(&format!("delta {} {} {}", p.bs, hex(&p.basis), hex(&p.src)), "PANIC-OR-ERROR", true);
            w.fail(l, "delta-failed", &format!("delta failed/panicked [{key}]"));
            return;
        }
    };
    let nontrivial = !p.basis.is_empty() && !p.src.is_empty();
    let l = if to_model { w.case(&format!("delta {} {} {}", p.bs, hex(&p.basis), hex(&p.src)), &delta_tok(&d_sync), nontrivial) } else { 0 };
    match guarded(|| rtm.block_on(AsyncCopiaSync::new().delta(Cursor::new(&p.src), &sig))) {
        Ok(Ok(d)) if d == d_sync => {}
        _ => w.fail(l, "engines-differ-delta", &format!("async delta differs from sync delta [{key}]")),
    }
    // the source read through a reader that fails once in the middle
    if p.src.len() > 8192 {
        let good = p.src.len() / 2;
        let r_int = guarded(|| CopiaSync::new().delta(FlakyReader { data: &p.src, pos: 0, good, kind: std::io::ErrorKind::Interrupted, fired: false }, &sig));
        if !matches!(&r_int, Ok(Ok(d)) if *d == d_sync) {
            w.fail(l, "delta-of-interrupted-reader", &format!("a source reader that answers one read with EINTR and goes on: delta is {} (declared source size {:?}), not the delta of the source [{key}]",
                match &r_int { Ok(Ok(_)) => "another delta", Ok(Err(_)) => "an error", Err(()) => "a panic" }, r_int.as_ref().ok().and_then(|x| x.as_ref().ok()).map(|d| d.source_size)));
        }
        let r_eio = guarded(|| CopiaSync::new().delta(FlakyReader { data: &p.src, pos: 0, good, kind: std::io::ErrorKind::Other, fired: false }, &sig));
        if let Ok(Ok(d)) = &r_eio {
            w.fail(l, "delta-of-failed-read-reported-as-success", &format!("a source reader that fails for good after {good} of {} bytes: delta returned Ok with declared source size {} [{key}]", p.src.len(), d.source_size));
        }
        let r_eio_a = guarded(|| rtm.block_on(AsyncCopiaSync::new().delta(FlakyReader { data: &p.src, pos: 0, good, kind: std::io::ErrorKind::Other, fired: false }, &sig)));
        if let Ok(Ok(d)) = &r_eio_a {
            w.fail(l, "delta-of-failed-read-reported-as-success", &format!("async engine, a source reader that fails for good after {good} of {} bytes: delta returned Ok with declared source size {} [{key}]", p.src.len(), d.source_size));
        }
        w.count("flaky-source-readers");
    }
    // well-formedness (C01)
    let sumlen: u64 = d_sync.ops.iter().map(DeltaOp::output_len).sum();
    if d_sync.source_size != p.src.len() as u64 || d_sync.checksum.as_bytes() != StrongHash::compute(&p.src).as_bytes() || sumlen != p.src.len() as u64 {
        w.fail(l, "delta-header", &format!("declared size/checksum/length sum are not those of the source [{key}]"));
    }
    for op in &d_sync.ops {
        if let DeltaOp::Copy { offset, len } = op {
            if offset + u64::from(*len) > p.basis.len() as u64 {
                w.fail(l, "copy-outside-basis", &format!("copy {offset}+{len} outside basis of {} [{key}]", p.basis.len()));
                break;
            }
        }
    }
    // round trip, sync + async
    let (r, out) = apply_patch_sync(&p.basis, &d_sync, true);
    if r.is_err() || out != p.src {
        w.fail(l, "roundtrip-sync", &format!("sync patch(delta) != source: {} [{key}]", res_kind(&r)));
    }
    let ra = guarded(|| {
        let mut out = Vec::new();
        let r = rtm.block_on(AsyncCopiaSync::new().patch(Cursor::new(&p.basis), &d_sync, &mut out));
        (r.is_ok(), out)
    });
    match ra {
        Ok((true, o)) if o == p.src => {}
        _ => w.fail(l, "roundtrip-async", &format!("async patch(delta) != source [{key}]")),
    }
    // the library's file-to-file front end (`AsyncCopiaSync::sync_files`, what `copia sync SRC DST` runs) on the same pair: the
    // destination ends up as the source, and what it REPORTS as literal data is never more than the engine's greedy delta for these very files (it may be less: identical files are recognised as such) —
    // a front end that skips a byte-wise common prefix first and scans from there pays up to a block more (seed C16-J)
    if legal(p.bs) && !p.basis.is_empty() && p.src.len() <= (4 << 20) {
        let dir = std::path::PathBuf::from(format!("/var/tmp/copia-corr-lib-{}", std::process::id()));
        let _ = std::fs::create_dir_all(&dir);
        let (sp, dp) = (dir.join("src"), dir.join("dst"));
        std::fs::write(&sp, &p.src).ok();
        std::fs::write(&dp, &p.basis).ok();
        // what a run killed between staging and rename leaves behind: the staging file, here longer than the new output
        // (seed C01-K: staged with create-without-truncate, the stale tail was renamed into place behind the new bytes)
        for stale in ["dst.copia.tmp", "dst.copia-tmp", ".dst.copia.tmp"] {
            std::fs::write(dir.join(stale), vec![0xA5u8; p.src.len() + 4096]).ok();
        }
        let (spc, dpc, bs_) = (sp.clone(), dp.clone(), p.bs);
        let r = crate::util::guarded_timeout(30, move || rt().block_on(AsyncCopiaSync::with_block_size(bs_).sync_files(&spc, &dpc)));
        w.count("sync-files");
        match r {
            Ok(Ok(res)) => {
                if std::fs::read(&dp).ok().as_deref() != Some(&p.src[..]) {
                    w.fail(l, "sync-files-wrong-bytes", &format!("sync_files left a destination that is not the source [{key}]"));
                }
                if res.bytes_literal > d_sync.bytes_literal() || res.bytes_matched + res.bytes_literal != p.src.len() as u64 {
                    w.fail(l, "sync-files-more-literals-than-engine", &format!("sync_files reports {} matched / {} literal bytes; the engine's delta for the same files has {} literal bytes of {} [{key}]",
                        res.bytes_matched, res.bytes_literal, d_sync.bytes_literal(), p.src.len()));
                }
            }
            Ok(Err(e)) => w.fail(l, "sync-files-failed", &format!("sync_files failed: {e} [{key}]")),
            Err(_) => w.fail(l, "sync-files-panic", &format!("sync_files panicked or hung [{key}]")),
        }
        let _ = std::fs::remove_dir_all(&dir);
    }
    // C16 oracle (reported by `./check C16` only; C01 is about reconstruction, not size)
    let lit = d_sync.bytes_literal();
    if !c16 {
        if lit < p.src.len() as u64 { w.count("has-match"); }
        if p.edit.is_some() { w.count("edits"); }
        if let Some(c) = cli { if legal(p.bs) { c.chain(w, l, p, &d_sync, &sig); } }
        return;
    }
    let tb = textbook_literals(&p.basis, &p.src, p.bs);
    if lit > tb {
        w.fail(l, "more-literals-than-textbook", &format!("delta carries {lit} literal bytes, textbook greedy {tb} [{key}]"));
    }
    if p.src == p.basis && lit >= p.bs as u64 && !p.src.is_empty() {
        w.fail(l, "identical-not-matched", &format!("identical file: {lit} literal bytes ≥ one block [{key}]"));
    }
    if let Some(k) = p.edit {
        if distinct_whole_blocks(&p.basis, p.bs) && lit > k + 2 * p.bs as u64 {
            w.fail(l, "edit-bound", &format!("{k}-byte edit of a file of distinct blocks costs {lit} > k + 2 blocks [{key}]"));
        }
        w.count("edits");
    }
    if lit < p.src.len() as u64 {
        w.count("has-match");
    }
    // CLI chain + single-file sync (legal block sizes only; subset of cases)
    if let Some(c) = cli {
        if legal(p.bs) {
            c.chain(w, l, p, &d_sync, &sig);
        }
    }
}

/// Black-box: `copia signature|delta|patch` through files and `copia sync SRC DST`.
pub struct CliCtx {
    pub bin: PathBuf,
    pub dir: PathBuf,
    /// number of runs that had to be killed after the timeout; after 2 of them further CLI runs are
    /// skipped (reported as exit -998) so that a hanging build does not stall the whole check
    pub hangs: std::cell::Cell<u32>,
}

impl CliCtx {
    pub fn new() -> Option<Self> {
        let bin = PathBuf::from(std::env::var("COPIA_BIN").ok()?);
        if !bin.exists() {
            return None;
        }
        let dir = PathBuf::from(format!("/var/tmp/copia-corr-{}", std::process::id()));
        std::fs::create_dir_all(&dir).ok()?;
        Some(CliCtx { bin, dir, hangs: std::cell::Cell::new(0) })
    }
    /// exit code (None = killed by a signal), stderr. A run that exceeds 30 s is killed and reported
    /// with the pseudo exit code -999 ("hang").
    pub fn run(&self, args: &[&str]) -> (Option<i32>, String) {
        use std::io::Read;
        if self.hangs.get() >= 2 {
            return (Some(-998), "SKIPPED: earlier runs of this binary hung".into());
        }
        let child = std::process::Command::new(&self.bin).args(args).env("RUST_LOG", "off").env("RUST_BACKTRACE", "0")
            .stdout(std::process::Stdio::null()).stderr(std::process::Stdio::piped()).spawn();
        let mut child = match child { Ok(c) => c, Err(e) => return (None, e.to_string()) };
        let t0 = std::time::Instant::now();
        loop {
            match child.try_wait() {
                Ok(Some(st)) => {
                    let mut e = String::new();
                    if let Some(mut s) = child.stderr.take() { let _ = s.read_to_string(&mut e); }
                    return (st.code(), e);
                }
                Ok(None) => {
                    if t0.elapsed().as_secs() > 20 {
                        let _ = child.kill();
                        let _ = child.wait();
                        self.hangs.set(self.hangs.get() + 1);
                        return (Some(-999), "TIMEOUT: still running after 20 s (killed)".into());
                    }
                    std::thread::sleep(std::time::Duration::from_millis(2));
                }
                Err(e) => return (None, e.to_string()),
            }
        }
    }
    fn chain(&self, w: &mut Out, l: u64, p: &Pair, d_sync: &Delta, sig: &Signature) {
        let f = |n: &str| self.dir.join(n).to_string_lossy().into_owned();
        std::fs::write(f("basis"), &p.basis).ok();
        std::fs::write(f("src"), &p.src).ok();
        let bs = p.bs.to_string();
        let (c1, _) = self.run(&["signature", &f("basis"), "-o", &f("sig"), "-b", &bs]);
        let (c2, _) = self.run(&["delta", &f("src"), &f("sig"), "-o", &f("delta")]);
        let (c3, e3) = self.run(&["patch", &f("basis"), &f("delta"), "-o", &f("out")]);
        w.count("cli-chain");
        if [c1, c2, c3].contains(&Some(-998)) {
            return;
        }
        if c1 != Some(0) || c2 != Some(0) || c3 != Some(0) {
            w.fail(l, "cli-chain-exit", &format!("signature/delta/patch exit {c1:?}/{c2:?}/{c3:?} {e3} [{}]", p.label));
            return;
        }
        if std::fs::read(f("out")).ok().as_deref() != Some(&p.src[..]) {
            w.fail(l, "cli-chain-roundtrip", &format!("CLI file chain does not reproduce the source [{}]", p.label));
        }
        let sig_file: Option<Signature> = std::fs::read(f("sig")).ok().and_then(|b| bincode::deserialize(&b).ok());
        let delta_file: Option<Delta> = std::fs::read(f("delta")).ok().and_then(|b| bincode::deserialize(&b).ok());
        if sig_file.as_ref() != Some(sig) || delta_file.as_ref() != Some(d_sync) {
            w.fail(l, "cli-files-differ", &format!("signature/delta files differ from the library's values [{}]", p.label));
        }
        // single-file sync: absent / identical / differing destination
        for mode in 0..3 {
            let dst = f("dst");
            let _ = std::fs::remove_file(&dst);
            match mode {
                1 => { std::fs::write(&dst, &p.src).ok(); }
                2 => { std::fs::write(&dst, &p.basis).ok(); }
                _ => {}
            }
            let (c, e) = self.run(&["sync", &f("src"), &dst, "-b", &bs]);
            if c == Some(-998) {
                return;
            }
            if c != Some(0) || std::fs::read(&dst).ok().as_deref() != Some(&p.src[..]) {
                w.fail(l, "cli-sync", &format!("copia sync (dest mode {mode}) exit {c:?} {e} or wrong bytes [{}]", p.label));
            }
            if mode == 2 && c == Some(0) {
                // what the front end REPORTS it sent ("… (N bytes matched, M bytes literal)") against the engine's greedy delta
                // for this very (basis, source, block size): a front end that sends more literal data than the engine would
                std::fs::write(&dst, &p.basis).ok();
                let out = std::process::Command::new(&self.bin).args(["sync", &f("src"), &dst, "-b", &bs]).env("RUST_LOG", "off")
                    .stderr(std::process::Stdio::null()).output().map(|o| String::from_utf8_lossy(&o.stdout).into_owned()).unwrap_or_default();
                let num = |tag: &str| -> Option<u64> {
                    let i = out.find(tag)?;
                    out[..i].trim_end().rsplit(|ch: char| !ch.is_ascii_digit()).next()?.parse().ok()
                };
                if let (Some(m), Some(li)) = (num(" bytes matched"), num(" bytes literal")) {
                    w.count("cli-sync-reported-sizes");
                    if li > d_sync.bytes_literal() || m + li != p.src.len() as u64 {
                        w.fail(l, "cli-sync-more-literals-than-engine", &format!("copia sync reports {m} matched / {li} literal bytes; the engine's delta for the same files has {} literal bytes of {} [{}]", d_sync.bytes_literal(), p.src.len(), p.label));
                    }
                }
            }
        }
        w.count("cli-sync");
    }
}

impl CliCtx {
    /// `copia sync SRC DST` (single file, local) while the destination's file system refuses bytes beyond a limit (`ulimit -f`,
    /// SIGXFSZ ignored: the refused write returns EFBIG — a quota, a full disk). Exit 0 means the destination IS the source; a
    /// failure leaves the old destination (seed C01-O: the patched output went through a `BufWriter` handed by value to the
    /// synchronous `patch`, which never flushes: the last buffer-full was written by `Drop`, whose error nobody sees).
    pub fn sync_under_write_limit(&self, w: &mut Out) {
        if self.hangs.get() >= 2 { return; }
        let f = |n: &str| self.dir.join(n).to_string_lossy().into_owned();
        for (basis_len, extra, limit_kib) in [(100 * 1024usize, 5000usize, 102u32), (40 * 1024, 0, 16), (300 * 1024, 7, 128), (9000, 300, 8)] {
            let basis: Vec<u8> = (0..basis_len).map(|i| ((i * 7) % 251) as u8).collect();
            let mut src = basis.clone();
            if extra > 0 { src.extend((0..extra).map(|i| (i % 13) as u8)); } else { for b in src.iter_mut().step_by(4096) { *b ^= 0x55; } }
            let (sp, dp) = (f("lim-src"), f("lim-dst"));
            if std::fs::write(&sp, &src).is_err() || std::fs::write(&dp, &basis).is_err() { return; }
            let script = format!("trap '' XFSZ; ulimit -f {limit_kib}; exec \"$0\" sync \"$1\" \"$2\"");
            let st = std::process::Command::new("bash").args(["-c", &script, &self.bin.to_string_lossy(), &sp, &dp]).env("RUST_LOG", "off")
                .stdout(std::process::Stdio::null()).stderr(std::process::Stdio::null()).status();
            let code = st.ok().and_then(|s| s.code());
            let after = std::fs::read(&dp).unwrap_or_default();
            w.count("cli-sync-under-write-limit");
            let fits = src.len() <= limit_kib as usize * 1024;
            let ok = (code == Some(0) && after == src) || (code != Some(0) && code.is_some() && after == basis && !fits) || (code != Some(0) && code.is_some() && after == basis);
            if !ok {
                let l = w.case("synclimit -", "LIMIT", true);
                w.fail(l, "cli-sync-write-limit", &format!("copia sync of a {}-byte source over a {}-byte destination with a {limit_kib} KiB file-size limit: exit {code:?}, destination holds {} bytes that are {}", src.len(), basis.len(), after.len(), if after == src { "the source" } else if after == basis { "the old file" } else { "neither the source nor the old file" }));
            }
            let _ = std::fs::remove_file(&sp); let _ = std::fs::remove_file(&dp);
            let _ = std::fs::remove_file(self.dir.join("lim-dst.copia.tmp"));
        }
    }
}

impl Drop for CliCtx {
    fn drop(&mut self) {
        let _ = std::fs::remove_dir_all(&self.dir);
    }
}

fn corpus() -> Vec<Pair> {
    let hi: Vec<u8> = (0..32768u32).map(|i| 200 + (i % 50) as u8).collect();
    let mut shifted = vec![7u8];
    shifted.extend_from_slice(&hi);
    vec![
        // D1 witness: identical high-byte file at block size 8192 (was 100 % literals)
        Pair { basis: hi.clone(), src: hi.clone(), bs: 8192, label: "corpus/identical-high-8192".into(), edit: None },
        Pair { basis: hi.clone(), src: shifted, bs: 8192, label: "corpus/shift1-high-8192".into(), edit: Some(1) },
        Pair { basis: vec![0xFF; 65536 * 2], src: vec![0xFF; 65536 * 2 + 5], bs: 65536, label: "corpus/ff-65536".into(), edit: None },
        // seed C01-P: a basis ending in a SHORT all-zero chunk (padding), a source in which that padding has grown past a whole block
        Pair { basis: { let mut b: Vec<u8> = (0..4096u32).map(|i| 1 + (i % 250) as u8).collect(); b.extend(vec![0u8; 1000]); b },
               src: { let mut b: Vec<u8> = (0..4096u32).map(|i| 1 + (i % 250) as u8).collect(); b.extend(vec![0u8; 5000]); b }, bs: 2048, label: "corpus/zero-tail-grows-2048".into(), edit: None },
        Pair { basis: { let mut b: Vec<u8> = (0..1024u32).map(|i| 3 + (i % 200) as u8).collect(); b.extend(vec![0u8; 100]); b },
               src: { let mut b = vec![0u8; 1500]; b.extend((0..1024u32).map(|i| 3 + (i % 200) as u8)); b }, bs: 512, label: "corpus/zero-tail-moves-512".into(), edit: None },
        // seed C16-P: the one legal block size that needs 17 bits, and a match that is only reached by SLIDING the window
        Pair { basis: (0..65536u32 * 2).map(|i| 1 + ((i * 7 + i / 251) % 253) as u8).collect(),
               src: { let mut s = vec![9u8]; s.extend((0..65536u32 * 2).map(|i| 1 + ((i * 7 + i / 251) % 253) as u8)); s }, bs: 65536, label: "corpus/shift1-65536".into(), edit: Some(1) },
    ]
}

pub fn run_c01(w: &mut Out, thorough: bool, seed: u64, prop: &str) {
    w.rule = "(basis, source, block size) triples: basis built from blocks of classes {0xFF, 200..255, 0x00, ramp, random, mixed} with \
repeated blocks and weak-checksum-colliding blocks (+1,−2,+1), optional partial tail; source ∈ {empty, identical, random, unaligned shift, \
block shuffle/duplication, truncation, k-byte insert/delete/replace at any alignment (k from 1 to 3 blocks)}; block sizes: the 8 legal ones \
and non-legal positive ones {1,2,3,7,100,513,1000} at library level. Each triple runs through Signature::generate (sequential and >64 KiB rayon path), \
the sync trait, the async engine, and (legal sizes) the CLI signature→delta→patch file chain and `copia sync` with absent/identical/differing destination. \
Model queries: `sig` and `delta` (exact op list, literal data compared by length+FNV hash). Non-trivial: non-empty basis and source; distinct = distinct query lines."
        .into();
    let rtm = rt();
    let cli = CliCtx::new();
    if cli.is_none() {
        w.notes.push("COPIA_BIN not set: CLI chain not exercised in this run".into());
    }
    if let (Some(c), true) = (cli.as_ref(), prop == "C01") {
        c.sync_under_write_limit(w);
    }
    let mut rng = Rng::new(seed ^ 0xC01);
    for p in corpus() {
        run_pair(w, &p, &rtm, cli.as_ref(), true, prop == "C16");
        w.count("corpus");
    }
    let n = if thorough { 4000 } else { 260 };
    let max_work: u64 = if thorough { 60_000_000 } else { 25_000_000 };
    for i in 0..n {
        let p = gen_pair(&mut rng, i, thorough, max_work);
        let use_cli = i % (if thorough { 10 } else { 6 }) == 0;
        run_pair(w, &p, &rtm, if use_cli { cli.as_ref() } else { None }, true, prop == "C16");
    }
    // SAME-SIZE REARRANGEMENTS: the source is built only from the basis's own blocks, same total length (blocks swapped, a block
    // overwritten by a copy of another, a rotation): no literal byte, sizes equal — and yet not the basis. Always through the CLI
    // file chain too (a front end that takes "no literals, same size" for "unchanged" copies the basis).
    for bs in [512usize, 2048] {
        for v in 0..(if thorough { 12 } else { 4 }) {
            let nb = rng.range(3, 9) as usize;
            let blocks: Vec<Vec<u8>> = (0..nb).map(|_| block_of(&mut rng, bs, 4)).collect();
            let basis = blocks.concat();
            let mut sb = blocks.clone();
            match v % 4 {
                0 => { sb.swap(0, nb - 1); }
                1 => { let j = rng.below(nb as u64 - 1) as usize; sb[j] = sb[j + 1].clone(); }
                2 => { sb.rotate_left(1); }
                _ => { let z = sb[0].clone(); for b_ in sb.iter_mut().skip(1).step_by(2) { *b_ = z.clone(); } }
            }
            let p = Pair { basis, src: sb.concat(), bs, label: format!("same-size-rearrangement/bs{bs}/{v}"), edit: None };
            run_pair(w, &p, &rtm, cli.as_ref(), true, prop == "C16");
            w.count("same-size-rearrangement");
        }
    }
    // BOUNDARY DELETIONS: the tail K[j..B) of a basis block K is deleted, and the next block W starts with the byte the deleted
    // range started with (W[0] == K[j]). Source and basis then share j + 1 bytes more than a whole number of blocks: the greedy
    // scan pays j literal bytes and matches W where it stands; a front end that first skips "the common prefix" byte-wise and
    // scans from there starts one byte INSIDE W and pays almost a block (seed C16-J). Always through `copia sync` too.
    for bs in [512usize, 2048] {
        for (v, j) in [1usize, 7, 100, 300].into_iter().enumerate() {
            let nb = rng.range(3, 7) as usize;
            let mut blocks: Vec<Vec<u8>> = (0..nb).map(|_| block_of(&mut rng, bs, 4)).collect();
            let at = rng.below(nb as u64 - 1) as usize;
            let first = blocks[at][j];
            blocks[at + 1][0] = first;
            let basis = blocks.concat();
            let mut src = blocks[..at].concat();
            src.extend_from_slice(&blocks[at][..j]);
            src.extend_from_slice(&blocks[at + 1..].concat());
            let p = Pair { basis, src, bs, label: format!("boundary-deletion/bs{bs}/{v}"), edit: Some((bs - j) as u64) };
            run_pair(w, &p, &rtm, cli.as_ref(), true, prop == "C16");
            w.count("boundary-deletion");
        }
    }
    // COPY OFFSETS beyond 4 GiB: a signature (as read from a .sig file) whose blocks carry large indices — the copy offset
    // is index x block size in 64 bits, whatever the size of the basis that produced it
    for (bs, idx) in [(65536usize, 65536u32), (65536, 70_001), (2048, 2_097_152), (512, u32::MAX), (8192, 524_288 + 3)] {
        let block = rng.bytes(bs);
        let mut sig = Signature::generate(&mut Cursor::new(&block), bs).expect("sig");
        sig.blocks[0].index = idx;
        sig.file_size = (u64::from(idx) + 1) * bs as u64;
        let mut src = rng.bytes(7);
        src.extend_from_slice(&block);
        let want = u64::from(idx) * bs as u64;
        for engine in 0..2 {
            let (s_, sg) = (src.clone(), sig.clone());
            let got = guarded(move || if engine == 0 { CopiaSync::with_block_size(bs).delta(Cursor::new(&s_), &sg).ok() } else { rt().block_on(AsyncCopiaSync::with_block_size(bs).delta(Cursor::new(&s_), &sg)).ok() });
            w.count("high-index-signature");
            match got {
                Ok(Some(d)) => {
                    let offs: Vec<u64> = d.ops.iter().filter_map(|o| if let DeltaOp::Copy { offset, .. } = o { Some(*offset) } else { None }).collect();
                    if offs != vec![want] {
                        w.fail(0, "copy-offset-beyond-4gib", &format!("block index {idx} x block size {bs}: engine {engine} emitted copy offsets {offs:?}, expected [{want}]"));
                    }
                }
                Ok(None) => w.fail(0, "copy-offset-beyond-4gib", &format!("block index {idx} x block size {bs}: engine {engine} refused a valid signature")),
                Err(()) => w.fail(0, "copy-offset-beyond-4gib", &format!("block index {idx} x block size {bs}: engine {engine} panicked")),
            }
        }
    }
    // SLIDE COLLISIONS: a basis block B whose bytes sum to n·(its last byte), preceded in the source by that byte: the window one
    // position before B is a rotation of B with the SAME weak sum and different bytes (a false weak hit right before a true match);
    // and its (+1,−2,+1) neighbours. Whatever the scan remembers about the rejected window must not cost the match that follows.
    for (j, bs) in [3usize, 4, 7, 100, 512, 2048, 8192].into_iter().enumerate() {
        for rep in 0..(if thorough { 12 } else { 3 }) {
            let last = rng.range(60, 190) as u8;
            let mut b: Vec<u8> = (0..bs).map(|_| (last as i64 + rng.range(0, 80) as i64 - 40) as u8).collect();
            b[bs - 1] = last;
            let mut diff: i64 = (bs as i64) * (last as i64) - b.iter().map(|x| *x as i64).sum::<i64>();
            let mut q = 0usize;
            while diff != 0 && q < 4 * bs {
                let k = q % (bs - 1);
                let cur = b[k] as i64;
                let nv = (cur + diff).clamp(0, 255);
                diff -= nv - cur;
                b[k] = nv as u8;
                q += 1;
            }
            let pre = rng.range(0, 3) as usize;
            let mut basis: Vec<u8> = (0..pre).flat_map(|_| block_of(&mut rng, bs, 4)).collect();
            basis.extend_from_slice(&b);
            basis.extend(block_of(&mut rng, bs, 4));
            let mut src = { let n_ = rng.range(0, 2 * bs as u64) as usize; rng.bytes(n_) };
            src.push(last);
            src.extend_from_slice(&b);
            if rep % 2 == 0 { src.push(last); src.extend_from_slice(&b); }
            src.extend({ let n_ = rng.range(0, bs as u64) as usize; rng.bytes(n_) });
            let p = Pair { basis, src, bs, label: format!("slide-collision/bs{bs}/{rep}"), edit: None };
            run_pair(w, &p, &rtm, if j >= 4 && rep == 0 { cli.as_ref() } else { None }, true, prop == "C16");
            w.count("slide-collision");
        }
    }
    // tiny block sizes, EXHAUSTIVELY over short strings of a 3-letter alphabet (library level: every positive block size):
    // ends of input, sources shorter than a block, last bytes that occur nowhere in the basis, matches ending exactly at EOF
    {
        let alpha = [b'a', b'b', b'c'];      // consecutive values: blocks like "cab" (sum = 3·last) slide into a window of equal weak sum
        let mut strs: Vec<Vec<u8>> = vec![vec![]];
        let mut frontier: Vec<Vec<u8>> = vec![vec![]];
        for _ in 0..4 {
            let mut next = Vec::new();
            for s_ in &frontier { for c in alpha { let mut t = s_.clone(); t.push(c); next.push(t); } }
            strs.extend(next.iter().cloned());
            frontier = next;
        }
        let bases: [&[u8]; 6] = [b"abab", b"aab", b"a", b"abaab", b"cab", b"bcabca"];
        let mut k = 0u64;
        for bs in [1usize, 2, 3] {
            for basis in bases {
                for src in &strs {
                    k += 1;
                    let p = Pair { basis: basis.to_vec(), src: src.clone(), bs, label: format!("tiny/bs{bs}/{}/{}", String::from_utf8_lossy(basis), String::from_utf8_lossy(src)), edit: None };
                    run_pair(w, &p, &rtm, None, k % 29 == 0, prop == "C16");
                }
            }
        }
        w.count("tiny-exhaustive");
    }
    // large inputs (rayon path, multi-MiB): implementation vs oracle only, no model line
    let big = if thorough { 40 } else { 6 };
    for i in 0..big {
        // legal sizes, and (library level) sizes that do not divide 64 KiB: the parallel signature path (> 64 KiB) must number
        // and hash its blocks exactly like the sequential one whatever the block size
        let bs = if i % 3 == 2 { *rng.pick(&[1000usize, 3000, 700, 100_000]) } else { *rng.pick(&[2048usize, 8192, 65536]) };
        let nb = if bs == 100_000 { rng.range(2, 5) as usize } else { rng.range(40, if thorough { 600 } else { 120 }).max((70_000 / bs as u64) + 2) as usize };
        let class = rng.below(5);
        let basis: Vec<u8> = (0..nb).flat_map(|_| block_of(&mut rng, bs, class.max(1))).collect();
        let mut src = basis.clone();
        let at = rng.below(src.len() as u64) as usize;
        let ins = { let n_ = rng.range(1, 5000) as usize; rng.bytes(n_) };
        let k = ins.len() as u64;
        src.splice(at..at, ins);
        let p = Pair { basis, src, bs, label: format!("big{i}/bs{bs}/blocks{nb}/class{class}"), edit: Some(k) };
        run_pair(w, &p, &rtm, None, false, prop == "C16");
        w.count("big-oracle-only");
    }
}

// ------------------------------------------------------------------------------------------------
// C05: corrupted (basis, delta) pairs

fn delta_query(verify: bool, basis: &[u8], d: &Delta, cs_tok: &str) -> String {
    format!("patch {} {} {} {} {} {} {}", verify as u8, hex(basis), d.block_size, d.source_size, d.basis_size, cs_tok, ops_full_tok(&d.ops))
}

pub fn run_c05(w: &mut Out, thorough: bool, seed: u64) {
    w.rule = "a valid (basis, delta) from the real engine, then ONE OR MORE corruptions drawn from: other basis, truncated/extended/bit-flipped basis, \
copy offset/len edits (incl. past the end, u32::MAX, u64::MAX-ish), op drop/duplicate/reorder/insert, literal byte edits, source_size/basis_size/block_size edits, \
checksum edits (bit flip; checksum of another string in play). Each (basis', delta') is applied by the sync engine, the async engine and (subset) `copia patch`; \
query = `patch` with full ops; answer = verdict + length and FNV hash of the bytes written. Non-trivial: ≥ 1 corruption applied; distinct = distinct query lines."
        .into();
    let rtm = rt();
    let cli = CliCtx::new();
    let mut rng = Rng::new(seed ^ 0xC05);
    let n = if thorough { 30_000 } else { 2_500 };
    let mut async_hangs = 0u32;   // after two hangs the async engine is no longer called (each costs a 20 s wait and a spinning thread)
    for i in 0..n {
        let bs = *rng.pick(&[512usize, 1024, 2048]);
        let nb = rng.range(1, 6) as usize;
        let blocks: Vec<Vec<u8>> = (0..nb).map(|_| { let c = rng.below(5); block_of(&mut rng, bs, c) }).collect();
        let mut basis = blocks.concat();
        if rng.coin(1, 3) { basis.extend({ let n_ = rng.below(bs as u64) as usize; rng.bytes(n_) }); }
        let mut src = basis.clone();
        let at = rng.below(src.len() as u64) as usize;
        let ins = { let n_ = rng.range(0, 40) as usize; rng.bytes(n_) };
        src.splice(at..at, ins);
        if rng.coin(1, 4) { src.truncate(rng.below(src.len() as u64 + 1) as usize); }
        let sig = Signature::generate(&mut Cursor::new(&basis), bs).expect("sig");
        let mut d = CopiaSync::new().delta(Cursor::new(&src), &sig).expect("delta");
        // strings whose blake3 may appear as a checksum
        let mut known: Vec<Vec<u8>> = vec![src.clone(), basis.clone(), Vec::new()];
        let mut basis2 = basis.clone();
        let ncorr = match rng.below(8) { 0 => 0, 1..=5 => 1, _ => rng.range(2, 4) };
        let mut kinds = Vec::new();
        for _ in 0..ncorr {
            let kind = rng.below(16);
            kinds.push(kind);
            match kind {
                0 => { basis2 = rng.bytes(basis.len()); }
                1 => { let n = rng.below(basis2.len() as u64 + 1) as usize; basis2.truncate(n); }
                2 => { basis2.extend({ let n_ = rng.range(1, 600) as usize; rng.bytes(n_) }); }
                3 => { if !basis2.is_empty() { let j = rng.below(basis2.len() as u64) as usize; basis2[j] ^= 1 << rng.below(8); } }
                4 | 5 | 6 => {
                    let idxs: Vec<usize> = d.ops.iter().enumerate().filter(|(_, o)| o.is_copy()).map(|(i, _)| i).collect();
                    if let Some(&j) = idxs.get(rng.below(idxs.len().max(1) as u64) as usize) {
                        if let DeltaOp::Copy { offset, len } = &mut d.ops[j] {
                            match rng.below(7) {
                                0 => *offset += 1,
                                1 => *offset = offset.wrapping_sub(1),
                                2 => *offset = basis.len() as u64,
                                3 => *offset = u64::MAX - rng.below(3),
                                4 => *len += 1,
                                5 => *len = rng.below(70000) as u32,
                                _ => *len = len.saturating_sub(1),
                            }
                        }
                    }
                }
                7 => { if !d.ops.is_empty() { let j = rng.below(d.ops.len() as u64) as usize; d.ops.remove(j); } }
                8 => { if !d.ops.is_empty() { let j = rng.below(d.ops.len() as u64) as usize; let o = d.ops[j].clone(); d.ops.insert(j, o); } }
                9 => { if d.ops.len() >= 2 { let j = rng.below(d.ops.len() as u64 - 1) as usize; d.ops.swap(j, j + 1); } }
                10 => {
                    let idxs: Vec<usize> = d.ops.iter().enumerate().filter(|(_, o)| o.is_literal()).map(|(i, _)| i).collect();
                    if let Some(&j) = idxs.get(rng.below(idxs.len().max(1) as u64) as usize) {
                        if let DeltaOp::Literal(data) = &mut d.ops[j] {
                            if !data.is_empty() { let q = rng.below(data.len() as u64) as usize; data[q] ^= 0x40; }
                        }
                    } else {
                        d.ops.push(DeltaOp::Literal(rng.bytes(3)));
                    }
                }
                11 => { d.source_size = match rng.below(3) { 0 => 0, 1 => d.source_size + 1, _ => rng.next() }; }
                12 => { d.basis_size = match rng.below(4) { 0 => 0, 1 => d.basis_size.saturating_sub(1), 2 => u64::MAX, _ => d.basis_size + 1000 }; }
                13 => { d.block_size = *rng.pick(&[0u32, 1, 1000, 4096, u32::MAX]); }
                14 => {
                    // (seed C05-P: a delta whose checksum field is all zero was taken to "carry no checksum" and went unverified)
                    if rng.coin(1, 3) { d.checksum = StrongHash::from_bytes([0u8; 32]); }
                    else { let mut c = *d.checksum.as_bytes(); c[rng.below(32) as usize] ^= 1 << rng.below(8); d.checksum = StrongHash::from_bytes(c); }
                }
                _ => { d.ops.insert(0, DeltaOp::Copy { offset: rng.below(basis.len() as u64 + 10), len: rng.below(bs as u64 * 2) as u32 }); }
            }
        }
        // "checksum of another string in play": sometimes set it to what the corrupted patch would produce
        // (guarded: seed C05-N made `patch` panic on a delta whose header says block size 0 — the panic has to be a finding, not the end of the harness)
        let (r0, out0) = match guarded(|| apply_patch_sync(&basis2, &d, false)) {
            Ok(x) => x,
            Err(()) => {
                let l = w.case(&delta_query(false, &basis2, &d, "-"), "PANIC", true);
                w.fail(l, "patch-panic", &format!("sync patch (no verification) panicked (case {i}, corruptions {kinds:?}, block_size {})", d.block_size));
                continue;
            }
        };
        if ncorr > 0 && r0.is_ok() && rng.coin(1, 6) {
            d.checksum = StrongHash::compute(&out0);
        }
        known.push(out0.clone());
        let cs_tok = known.iter().find(|k| StrongHash::compute(k).as_bytes() == d.checksum.as_bytes()).map_or("!".to_string(), |k| hex(k));
        for k in &kinds { w.count(&format!("corruption/{k}")); }
        let verify = !rng.coin(1, 10);
        w.pre(&delta_query(verify, &basis2, &d, &cs_tok));
        let got = guarded(|| apply_patch_sync(&basis2, &d, verify));
        let imp = match &got {
            Ok((r, out)) => format!("{} {} {}", res_kind(r), out.len(), fnv(out)),
            Err(()) => "PANIC".into(),
        };
        let l = w.case(&delta_query(verify, &basis2, &d, &cs_tok), &imp, ncorr > 0);
        w.count(&format!("verdict/{}", imp.split(' ').next().unwrap_or("")));
        match &got {
            Err(()) => w.fail(l, "patch-panic", &format!("sync patch panicked (case {i}, corruptions {kinds:?})")),
            Ok((r, out)) => {
                if r.is_ok() && verify && StrongHash::compute(out).as_bytes() != d.checksum.as_bytes() {   // bytes, not the type's own `==`: the oracle must not trust the code under test
                    w.fail(l, "success-on-wrong-bytes", &format!("sync patch reported success but blake3(output) != delta.checksum (case {i}, corruptions {kinds:?})"));
                }
            }
        }
        // async engine must agree on verdict kind and bytes written
        if verify && async_hangs < 2 {
            let (b2c, dc) = (basis2.clone(), d.clone());
            let ga = crate::util::guarded_timeout(20, move || {
                let mut out = Vec::new();
                let r = rt().block_on(AsyncCopiaSync::new().patch(Cursor::new(&b2c), &dc, &mut out));
                (r, out)
            });
            if let Err(true) = ga {
                async_hangs += 1;
                w.fail(l, "patch-hang", &format!("async patch did not return within 20 s (case {i}, corruptions {kinds:?})"));
            }
            let ga = ga.map_err(|_| ());
            match (&ga, &got) {
                (Ok((ra, oa)), Ok((rs, os))) => {
                    if ra.is_ok() && StrongHash::compute(oa).as_bytes() != d.checksum.as_bytes() {
                        w.fail(l, "success-on-wrong-bytes", &format!("async patch reported success on wrong bytes (case {i}, corruptions {kinds:?})"));
                    }
                    if res_kind(ra) != res_kind(rs) || oa != os {
                        w.fail(l, "engines-differ-patch", &format!("async patch verdict {} vs sync {} (case {i})", res_kind(ra), res_kind(rs)));
                    }
                }
                (Err(()), _) => w.fail(l, "patch-panic", &format!("async patch panicked (case {i}, corruptions {kinds:?})")),
                _ => {}
            }
        }
        // the same patch into sinks that accept only a few bytes per write call: success still means the sink RECEIVED bytes
        // hashing to the checksum (a `write` where a `write_all` is due hashes what it never delivered)
        if verify && i % 3 == 0 {
            let max = *rng.pick(&[1usize, 7, 300]);
            let (b2c, dc) = (basis2.clone(), d.clone());
            let gs = guarded(move || {
                let mut sw = ShortWriter { out: Vec::new(), max };
                let r = copia::SyncBuilder::new().verify_checksum(true).build().patch(Cursor::new(&b2c), &dc, &mut sw);
                (r, sw.out)
            });
            if let Ok((r, o)) = &gs {
                if r.is_ok() && StrongHash::compute(o).as_bytes() != d.checksum.as_bytes() {
                    w.fail(l, "success-on-wrong-bytes", &format!("sync patch into a sink taking {max} bytes per write reported success but the sink holds {} bytes that do not hash to the checksum (case {i})", o.len()));
                }
            }
            if async_hangs < 2 {
                let (b2c, dc) = (basis2.clone(), d.clone());
                let ga = crate::util::guarded_timeout(20, move || {
                    let mut sw = ShortWriter { out: Vec::new(), max };
                    let r = rt().block_on(AsyncCopiaSync::new().patch(Cursor::new(&b2c), &dc, &mut sw));
                    (r, sw.out)
                });
                if let Ok((r, o)) = &ga {
                    if r.is_ok() && StrongHash::compute(o).as_bytes() != d.checksum.as_bytes() {
                        w.fail(l, "success-on-wrong-bytes", &format!("async patch into a sink taking {max} bytes per write reported success but the sink holds {} bytes that do not hash to the checksum (case {i})", o.len()));
                    }
                }
            }
            // … and sinks that interleave partial writes with EINTR
            {
                let (b2c, dc) = (basis2.clone(), d.clone());
                let gs = guarded(move || {
                    let mut sw = EintrWriter { out: Vec::new(), max, pending: false };
                    let r = copia::SyncBuilder::new().verify_checksum(true).build().patch(Cursor::new(&b2c), &dc, &mut sw);
                    (r, sw.out)
                });
                if let Ok((r, o)) = &gs {
                    if r.is_ok() && StrongHash::compute(o).as_bytes() != d.checksum.as_bytes() {
                        w.fail(l, "success-on-wrong-bytes", &format!("sync patch into a sink that answers partial writes with EINTR reported success but the sink holds {} bytes that do not hash to the checksum (case {i})", o.len()));
                    }
                }
                if async_hangs < 2 {
                    let (b2c, dc) = (basis2.clone(), d.clone());
                    let ga = crate::util::guarded_timeout(20, move || {
                        let mut sw = EintrWriter { out: Vec::new(), max, pending: false };
                        let r = rt().block_on(AsyncCopiaSync::new().patch(Cursor::new(&b2c), &dc, &mut sw));
                        (r, sw.out)
                    });
                    if let Ok((r, o)) = &ga {
                        if r.is_ok() && StrongHash::compute(o).as_bytes() != d.checksum.as_bytes() {
                            w.fail(l, "success-on-wrong-bytes", &format!("async patch into a sink that answers partial writes with EINTR reported success but the sink holds {} bytes that do not hash to the checksum (case {i})", o.len()));
                        }
                    }
                }
            }
            // … and sinks that run out of room: at once, after a few bytes, within the last 64 KiB of a larger output
            for room in [0usize, 10, 90_000] {
                let (b2c, dc) = (basis2.clone(), d.clone());
                let gs = guarded(move || {
                    let mut sw = FullSink { out: Vec::new(), room };
                    let r = copia::SyncBuilder::new().verify_checksum(true).build().patch(Cursor::new(&b2c), &dc, &mut sw);
                    (r, sw.out)
                });
                if let Ok((r, o)) = &gs {
                    if r.is_ok() && StrongHash::compute(o).as_bytes() != d.checksum.as_bytes() {
                        w.fail(l, "success-on-wrong-bytes", &format!("sync patch into a sink with room for {room} bytes reported success but the sink holds {} bytes that do not hash to the checksum (case {i})", o.len()));
                    }
                }
                if async_hangs < 2 {
                    let (b2c, dc) = (basis2.clone(), d.clone());
                    let ga = crate::util::guarded_timeout(20, move || {
                        let mut sw = FullSink { out: Vec::new(), room };
                        let r = rt().block_on(AsyncCopiaSync::new().patch(Cursor::new(&b2c), &dc, &mut sw));
                        (r, sw.out)
                    });
                    if let Ok((r, o)) = &ga {
                        if r.is_ok() && StrongHash::compute(o).as_bytes() != d.checksum.as_bytes() {
                            w.fail(l, "success-on-wrong-bytes", &format!("async patch into a sink with room for {room} bytes reported success but the sink holds {} bytes that do not hash to the checksum (case {i})", o.len()));
                        }
                    }
                }
            }
            w.count("short-write-sinks");
        }
        // CLI: `copia patch` must exit 0 only on a verified result, never by signal
        if let Some(c) = cli.as_ref() {
            if i % (if thorough { 6 } else { 5 }) == 0 {
                let f = |n: &str| c.dir.join(n).to_string_lossy().into_owned();
                std::fs::write(f("b"), &basis2).ok();
                std::fs::write(f("d"), bincode::serialize(&d).expect("ser")).ok();
                // the output path may already exist and be LONGER than what this patch writes (a re-run into the same name, a scratch file):
                // success still means the file IS the patched bytes (seed C05-O: `File::create` became `OpenOptions` without `truncate`)
                if i % 2 == 0 { let _ = std::fs::remove_file(f("o")); } else { std::fs::write(f("o"), vec![0xEEu8; 600_000]).ok(); }
                let (code, err) = c.run(&["patch", &f("b"), &f("d"), "-o", &f("o")]);
                w.count("cli-patch");
                match code {
                    Some(-999) => w.fail(l, "cli-patch-hang", &format!("copia patch did not terminate within 30 s (case {i}, corruptions {kinds:?})")),
                    None => w.fail(l, "cli-patch-signal", &format!("copia patch died by signal: {err} (case {i}, corruptions {kinds:?})")),
                    Some(0) => {
                        let o = std::fs::read(f("o")).unwrap_or_default();
                        if StrongHash::compute(&o).as_bytes() != d.checksum.as_bytes() {
                            w.fail(l, "cli-success-on-wrong-bytes", &format!("copia patch exit 0 but output does not hash to the delta checksum (case {i}, corruptions {kinds:?})"));
                        }
                    }
                    Some(_) => {}
                }
            }
        }
    }
    // `copia patch` on MiB-sized single ops (one merged copy, one literal): a file sink takes a bounded amount per write call
    if let Some(c) = cli.as_ref() {
        for k in 0..(if thorough { 6 } else { 3 }) {
            let n_ = (3 << 20) + rng.below(100_000) as usize;
            let basis = if k % 3 == 1 { Vec::new() } else { rng.bytes(n_) };
            let mut src = if k % 3 == 1 { rng.bytes(n_) } else { basis.clone() };
            src.extend(rng.bytes(21));
            let sig = Signature::generate(&mut Cursor::new(&basis), 4096).expect("sig");
            let d = CopiaSync::new().delta(Cursor::new(&src), &sig).expect("delta");
            let mut basis2 = basis.clone();
            if k % 3 == 2 && !basis2.is_empty() { let j = rng.below(basis2.len() as u64) as usize; basis2[j] ^= 1; }
            let f = |n: &str| c.dir.join(n).to_string_lossy().into_owned();
            std::fs::write(f("b"), &basis2).ok();
            std::fs::write(f("d"), bincode::serialize(&d).expect("ser")).ok();
            let _ = std::fs::remove_file(f("o"));
            let (code, err) = c.run(&["patch", &f("b"), &f("d"), "-o", &f("o")]);
            w.count("cli-patch-big");
            let l = 0;      // implementation vs oracle only, no model line
            match code {
                Some(-999) => w.fail(l, "cli-patch-hang", "copia patch did not terminate within 30 s (MiB-sized op)"),
                None => w.fail(l, "cli-patch-signal", &format!("copia patch died by signal: {err} (MiB-sized op)")),
                Some(0) => {
                    let o = std::fs::read(f("o")).unwrap_or_default();
                    if StrongHash::compute(&o).as_bytes() != d.checksum.as_bytes() {
                        w.fail(l, "cli-success-on-wrong-bytes", &format!("copia patch exit 0 but the {} output bytes do not hash to the delta checksum (source {} bytes, {} ops)", o.len(), src.len(), d.ops.len()));
                    }
                }
                Some(_) => { if k % 3 != 2 { w.fail(l, "cli-valid-patch-refused", &format!("copia patch refused a valid (basis, delta): {err}")); } }
            }
            // the same patch into a PIPE whose reader takes 1000 bytes and leaves: the output was not delivered, so the exit
            // status cannot be 0 (seed C05-L: a closed pipe mapped to a quiet success, "like a Unix filter")
            if k % 3 == 0 {
                std::fs::write(f("b"), &basis).ok();
                let fifo = f("fifo");
                let _ = std::fs::remove_file(&fifo);
                let script = format!("mkfifo '{fifo}' && (head -c 1000 '{fifo}' >/dev/null &) ; '{}' patch '{}' '{}' -o '{fifo}' 2>/dev/null; echo rc=$?",
                    c.bin.display(), f("b"), f("d"));
                let out = std::process::Command::new("timeout").args(["30", "bash", "-c", &script]).env("RUST_LOG", "off").output();
                w.count("cli-patch-into-closing-pipe");
                if let Ok(o) = out {
                    let txt = String::from_utf8_lossy(&o.stdout).into_owned();
                    if txt.contains("rc=0") {
                        w.fail(l, "cli-success-on-failed-output", &format!("copia patch -o <fifo> exited 0 although the reader left after 1000 of {} bytes", src.len()));
                    }
                }
                let _ = std::fs::remove_file(&fifo);
            }
        }
    }
    // two `copia patch` processes at the same time, same directory, outputs `report.txt` / `report.bin` (same stem): each must
    // exit 0 only with ITS bytes at ITS output (whatever staging the front end does must not be shared between the two)
    if let Some(c) = cli.as_ref() {
        for k in 0..(if thorough { 6 } else { 2 }) {
            let mk = |rng: &mut Rng, n: usize| { let basis = rng.bytes(n); let mut src = basis.clone(); src.extend(rng.bytes(33)); (basis, src) };
            let (b1, s1) = mk(&mut rng, (6 << 20) + k * 7); let (b2, s2) = mk(&mut rng, 16 * 1024);
            let f = |n: &str| c.dir.join(n).to_string_lossy().into_owned();
            let mut deltas = Vec::new();
            for (tag, b, s_) in [("1", &b1, &s1), ("2", &b2, &s2)] {
                let sig = Signature::generate(&mut Cursor::new(b), 4096).expect("sig");
                let d = CopiaSync::new().delta(Cursor::new(s_), &sig).expect("delta");
                std::fs::write(f(&format!("cb{tag}")), b).ok();
                std::fs::write(f(&format!("cd{tag}")), bincode::serialize(&d).expect("ser")).ok();
                deltas.push(d);
            }
            let _ = std::fs::remove_file(f("report.txt")); let _ = std::fs::remove_file(f("report.bin"));
            let bin = c.bin.clone();
            let spawn = |b: String, d: String, o: String| std::process::Command::new(&bin).args(["patch", &b, &d, "-o", &o]).stdout(std::process::Stdio::null()).stderr(std::process::Stdio::null()).spawn();
            let (c1, c2) = (spawn(f("cb1"), f("cd1"), f("report.txt")), spawn(f("cb2"), f("cd2"), f("report.bin")));
            let r1 = c1.ok().and_then(|mut ch| ch.wait().ok()).and_then(|st| st.code());
            let r2 = c2.ok().and_then(|mut ch| ch.wait().ok()).and_then(|st| st.code());
            w.count("cli-patch-concurrent-same-stem");
            for (rc, out, want, d) in [(r1, "report.txt", &s1, &deltas[0]), (r2, "report.bin", &s2, &deltas[1])] {
                if rc == Some(0) {
                    let o = std::fs::read(f(out)).unwrap_or_default();
                    if StrongHash::compute(&o).as_bytes() != d.checksum.as_bytes() {
                        w.fail(0, "cli-success-on-wrong-bytes", &format!("two concurrent `copia patch` runs with outputs report.txt / report.bin: the run for {out} exited 0 but {out} holds {} bytes that do not hash to its delta's checksum (its source has {} bytes)", o.len(), want.len()));
                    }
                }
            }
            for n in ["cb1", "cb2", "cd1", "cd2", "report.txt", "report.bin"] { let _ = std::fs::remove_file(f(n)); }
        }
    }
    // an output that takes NO bytes (`/dev/full`: every write fails with ENOSPC): `copia patch` must not report success, whatever the
    // number of ops (D19: with a single op the failed write was never noticed — the file sink writes in the background and
    // reports the failure on the next operation, and there was none)
    if let Some(c) = cli.as_ref() {
        if std::path::Path::new("/dev/full").exists() {
            for k in 0..4 {
                let basis = if k == 1 { Vec::new() } else { rng.bytes(4096) };
                let src = match k { 0 => basis.clone(), 1 => rng.bytes(100), 2 => { let mut s_ = basis.clone(); s_.extend(rng.bytes(9)); s_ }, _ => rng.bytes(3000) };
                let sig = Signature::generate(&mut Cursor::new(&basis), 1024).expect("sig");
                let d = CopiaSync::new().delta(Cursor::new(&src), &sig).expect("delta");
                let f = |n: &str| c.dir.join(n).to_string_lossy().into_owned();
                std::fs::write(f("b"), &basis).ok();
                std::fs::write(f("d"), bincode::serialize(&d).expect("ser")).ok();
                let (code, _err) = c.run(&["patch", &f("b"), &f("d"), "-o", "/dev/full"]);
                w.count("cli-patch-full-disk");
                if code == Some(0) {
                    w.fail(0, "cli-success-on-failed-output", &format!("copia patch exit 0 although every write to its output failed (ENOSPC); delta with {} op(s)", d.ops.len()));
                }
            }
        }
    }
    let _ = fxhash;
}
