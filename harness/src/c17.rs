//! C17 — `RollingChecksum` / `FastRollingChecksum` (src/checksum.rs) on operation sequences.
use crate::util::{guarded, hex, Out, Rng};
use copia::{FastRollingChecksum, RollingChecksum};
use std::collections::VecDeque;

const MODULUS: u128 = 65521;
const MAXW: usize = 65536;

#[derive(Clone, Copy)]
enum Op {
    Push(u8),
    Roll(u8, u8),
}

fn spec_from_scratch(w: &VecDeque<u8>) -> (u128, u128) {
    let n = w.len() as u128;
    let (mut a, mut b) = (0u128, 0u128);
    for (i, x) in w.iter().enumerate() {
        a += u128::from(*x);
        b += (n - i as u128) * u128::from(*x);
    }
    (a, b)
}

fn spec_digest(a: u128, b: u128) -> u32 {
    (((b % MODULUS) as u32) << 16) | ((a % MODULUS) as u32)
}

fn mix(acc: u64, d: u32) -> u64 {
    acc.wrapping_mul(1_099_511_628_211).wrapping_add(u64::from(d)).wrapping_add(1)
}

fn byte_of(rng: &mut Rng, class: u64) -> u8 {
    match class {
        0 => 0,
        1 => 0xFF,
        2 => 200 + rng.below(56) as u8,
        3 => rng.below(4) as u8,
        _ => rng.next() as u8,
    }
}

struct Case {
    init: Vec<u8>,
    ops: Vec<Op>,
    label: String,
}

fn gen_case(rng: &mut Rng, thorough: bool, idx: u64) -> Case {
    let lens: [usize; 14] = [1, 2, 3, 7, 64, 512, 1024, 2048, 4096, 8192, 16384, 32768, 65535, 65536];
    let wl = match rng.below(10) {
        0 => 0,
        1..=6 => *rng.pick(&lens),
        _ => { let hi = if rng.coin(1, 3) { MAXW as u64 } else { 700 }; rng.range(1, hi) as usize }
    };
    let class = rng.below(5);
    let mut init: Vec<u8> = (0..wl).map(|_| byte_of(rng, class)).collect();
    if rng.coin(1, 8) {
        // two constant runs of high bytes meeting at a boundary where deferred-modulo accumulators (zlib's NMAX = 5552 and
        // nearby multiples of 16/32, powers of two) carry their largest sums: high carry-in, then a run of 0xFF
        let l1 = *rng.pick(&[4096usize, 5536, 5552, 5568, 5600, 8192, 11104, 11136]);
        let v1 = 0xF0 + rng.below(15) as u8;
        let l2 = *rng.pick(&[l1, 5552, 5568, 8192, 16384]);
        init = vec![v1; l1];
        init.extend(std::iter::repeat(0xFFu8).take(l2.min(MAXW - l1)));
    }
    let wl = init.len();
    // number of operations: cross the 5000-normalisation boundary several times in a fraction of cases
    let nops = match rng.below(10) {
        0 => 0,
        1..=4 => rng.range(1, 300),
        5..=6 => rng.range(300, 5200),
        7..=8 => rng.range(5200, 12000),
        _ => rng.range(12000, if thorough { 60000 } else { 21000 }),
    } as usize;
    let mode = rng.below(4); // 0 roll-only, 1 push-only, 2 mixed, 3 roll with class switch
    let mut len = wl;
    let mut w: VecDeque<u8> = init.iter().copied().collect();
    let mut ops = Vec::with_capacity(nops);
    let mut cls = class;
    for k in 0..nops {
        if mode == 3 && k % 3000 == 2999 {
            cls = rng.below(5);
        }
        let want_push = match mode {
            1 => true,
            2 => rng.coin(1, 3),
            _ => false,
        };
        let nb = byte_of(rng, cls);
        if (want_push && len < MAXW) || len == 0 {
            ops.push(Op::Push(nb));
            w.push_back(nb);
            len += 1;
        } else {
            let old = w.pop_front().unwrap_or(0);
            w.push_back(nb);
            ops.push(Op::Roll(old, nb));
        }
    }
    Case { init, ops, label: format!("i{idx}/wl{wl}/class{class}/mode{mode}/ops{nops}") }
}

fn ops_tok(ops: &[Op]) -> String {
    if ops.is_empty() {
        return "-".into();
    }
    let mut s = String::with_capacity(ops.len() * 6);
    for (k, op) in ops.iter().enumerate() {
        if k > 0 {
            s.push(',');
        }
        match op {
            Op::Push(x) => s.push_str(&format!("p{x:02x}")),
            Op::Roll(o, n) => s.push_str(&format!("r{o:02x}{n:02x}")),
        }
    }
    s
}

fn bucket(n: usize) -> &'static str {
    match n {
        0 => "0",
        1..=511 => "1-511",
        512..=8191 => "512-8191",
        8192..=65535 => "8192-65535",
        _ => "65536",
    }
}

fn run_case(w: &mut Out, c: &Case) {
    // --- implementation, RollingChecksum
    let r = guarded(|| {
        let mut s = RollingChecksum::new(&c.init);
        let mut acc = mix(0, s.digest());
        let mut trace = vec![s.digest()];
        for op in &c.ops {
            match op {
                Op::Push(x) => s.push(*x),
                Op::Roll(o, n) => s.roll(*o, *n),
            }
            acc = mix(acc, s.digest());
            trace.push(s.digest());
        }
        (s, acc, trace)
    });
    let f = guarded(|| {
        let mut s = FastRollingChecksum::new(&c.init);
        let mut acc = mix(0, s.digest());
        let mut trace = vec![s.digest()];
        for op in &c.ops {
            match op {
                Op::Push(x) => s.push(*x),
                Op::Roll(o, n) => s.roll(*o, *n),
            }
            acc = mix(acc, s.digest());
            trace.push(s.digest());
        }
        (s, acc, trace)
    });
    let optok = ops_tok(&c.ops);
    let nontrivial = c.init.len() >= 2 && !c.ops.is_empty();
    let rimp = match &r {
        Ok((s, acc, _)) => format!("{} {} {} {} {}", s.digest(), s.sum_a(), s.sum_b(), s.len(), acc),
        Err(()) => "PANIC".into(),
    };
    let fimp = match &f {
        Ok((s, acc, _)) => format!("{} {} {}", s.digest(), s.len(), acc),
        Err(()) => "PANIC".into(),
    };
    let l1 = w.case(&format!("ck R {} {}", hex(&c.init), optok), &rimp, nontrivial);
    let l2 = w.case(&format!("ck F {} {}", hex(&c.init), optok), &fimp, nontrivial);
    w.count(&format!("window/{}", bucket(c.init.len())));
    w.count(&format!("ops/{}", match c.ops.len() { 0 => "0", 1..=4999 => "1-4999", 5000..=9999 => "5000-9999", _ => ">=10000" }));
    // --- oracle: the definition, maintained exactly (u128) and re-derived from scratch at sampled points
    let mut win: VecDeque<u8> = c.init.iter().copied().collect();
    let (mut a, mut b) = spec_from_scratch(&win);
    let mut maxb = b;
    let mut first_fail: Option<String> = None;
    let rt = r.as_ref().ok();
    let ft = f.as_ref().ok();
    let check = |k: usize, a: u128, b: u128, n: usize, ff: &mut Option<String>| {
        let want = spec_digest(a, b);
        if let Some((_, _, tr)) = rt {
            if tr[k] != want && ff.is_none() {
                *ff = Some(format!("rolling-digest-ne-spec after op #{k} (window len {n}): RollingChecksum digest {:#010x}, definition {:#010x}", tr[k], want));
            }
        }
        if let Some((_, _, tr)) = ft {
            if tr[k] != want && ff.is_none() {
                *ff = Some(format!("fast-digest-ne-spec after op #{k} (window len {n}): FastRollingChecksum digest {:#010x}, definition {:#010x}", tr[k], want));
            }
        }
    };
    check(0, a, b, win.len(), &mut first_fail);
    for (k, op) in c.ops.iter().enumerate() {
        match op {
            Op::Push(x) => {
                win.push_back(*x);
                a += u128::from(*x);
                b += a;
            }
            Op::Roll(o, n) => {
                let cnt = win.len() as u128;
                win.pop_front();
                win.push_back(*n);
                a = a + u128::from(*n) - u128::from(*o);
                b = b + a - cnt * u128::from(*o);
            }
        }
        maxb = maxb.max(b);
        check(k + 1, a, b, win.len(), &mut first_fail);
        if k % 4099 == 0 || k + 1 == c.ops.len() {
            let (a2, b2) = spec_from_scratch(&win);
            assert!(a2 == a && b2 == b, "harness oracle inconsistent");
            // digest reached == digest of constructing directly from the bytes currently in the window
            if let Some((_, _, tr)) = rt {
                let v: Vec<u8> = win.iter().copied().collect();
                if let Ok(d) = guarded(|| RollingChecksum::new(&v).digest()) {
                    if d != tr[k + 1] && first_fail.is_none() {
                        first_fail = Some(format!("rolling-run-ne-fresh after op #{}: run {:#010x}, fresh new() {:#010x}", k + 1, tr[k + 1], d));
                    }
                }
            }
        }
    }
    if maxb >= 1u128 << 32 {
        w.count("weighted-sum>=2^32");
    }
    if r.is_err() {
        w.fail(l1, "rolling-panic", &format!("RollingChecksum panicked on {}", c.label));
    }
    if f.is_err() {
        w.fail(l2, "fast-panic", &format!("FastRollingChecksum panicked on {}", c.label));
    }
    if let Some(msg) = first_fail {
        let key = msg.split(' ').next().unwrap_or("digest").to_string();
        w.fail(if key.starts_with("fast") { l2 } else { l1 }, &key, &format!("{msg} [{}]", c.label));
    }
    if let (Ok((rs, _, _)), Ok((fs, _, _))) = (&r, &f) {
        if rs.len() != win.len() || fs.len() != win.len() {
            w.fail(l1, "len", &format!("reported length {} / {} but window has {}", rs.len(), fs.len(), win.len()));
        }
        if rs.sum_a() >= 65521 || rs.sum_b() >= 65521 {
            w.fail(l1, "component-bound", "a component is not below 65521");
        }
    }
}

pub fn run(w: &mut Out, thorough: bool, seed: u64) {
    w.rule = "operation sequences new(w0); (push x | roll old new)* on both public types; window lengths from \
{0,1,2,3,7,64,512…65536} and random, byte classes {0x00,0xFF,200..255,0..3,random}, 0…21000 ops (60000 thorough) in \
modes roll-only/push-only/mixed/class-switching; the old byte of a roll is always the real first byte. \
Query = one (type, w0, ops) line answered with final digest/components/len and a running hash of ALL intermediate digests. \
Non-trivial: initial window ≥ 2 bytes and ≥ 1 op; distinct = distinct query lines."
        .into();
    let mut rng = Rng::new(seed ^ 0xC17);
    // corpus first: the D1 witnesses (0xFF windows whose weighted sum exceeds 2^32; slides of a small window)
    let corpus: Vec<Case> = vec![
        Case { init: vec![0xFF; 5804], ops: vec![], label: "corpus/ff5804".into() },
        Case { init: vec![0xFF; 65536], ops: (0..6000).map(|_| Op::Roll(0xFF, 0xFF)).collect(), label: "corpus/ff65536-roll6000".into() },
        Case { init: vec![200; 8192], ops: (0..100).map(|_| Op::Roll(200, 200)).collect(), label: "corpus/c8-8192".into() },
        Case {
            init: (0..512).map(|i| (i % 7) as u8).collect(),
            ops: {
                let mut w: VecDeque<u8> = (0..512).map(|i| (i % 7) as u8).collect();
                (0..80).map(|k| { let o = w.pop_front().unwrap_or(0); let n = 250 - (k % 3) as u8; w.push_back(n); Op::Roll(o, n) }).collect()
            },
            label: "corpus/small-bytes-then-high".into(),
        },
    ];
    for c in &corpus {
        run_case(w, c);
        w.count("corpus");
    }
    let n = if thorough { 6000 } else { 500 };
    for i in 0..n {
        let c = gen_case(&mut rng, thorough, i);
        run_case(w, &c);
    }
    long_slides(w, thorough);
    sparse_windows(w);
}

/// LONG slides (tens of millions of one-byte rolls without a rebuild), oracle only: the lazily reduced sums of the fast type
/// must never leave the range in which its digest is the definition's — for a window built by `new` AND for one filled by
/// `push` from empty (the operation counter is shared between `push` and `roll`: seed C17-K let a push swallow the tick that
/// triggers the reduction, after which no roll ever reduces again and the sums wrap near 2.4e7 slides).
/// Windows that are all zeros except for their LAST few bytes, at lengths from 512 up that are not a multiple of 8 (a hole with a
/// short trailer): `new` of both types gives the definition's value, and so does every slide on from there (seed C17-O: a
/// "zero block" fast path in `new` that looks at whole 8-byte words only).
fn sparse_windows(w: &mut Out) {
    for wlen in [513usize, 517, 519, 1021, 2047, 4099, 8191, 65535, 65533, 512, 520] {
        for tail in [1usize, 2, 3, 7] {
            if tail > wlen { continue; }
            let mut win: VecDeque<u8> = (0..wlen).map(|_| 0u8).collect();
            for k in 0..tail { win[wlen - 1 - k] = 7 + k as u8; }
            let init: Vec<u8> = win.iter().copied().collect();
            let res = guarded(|| {
                let (mut f, mut r) = (FastRollingChecksum::new(&init), RollingChecksum::new(&init));
                let (a, b) = spec_from_scratch(&win);
                let want = spec_digest(a, b);
                if f.digest() != want || r.digest() != want {
                    return Some(format!("`new` of a {wlen}-byte window of zeros ending in {tail} data byte(s): fast digest {} / plain digest {} / definition {want}", f.digest(), r.digest()));
                }
                let mut win2 = win.clone();
                for k in 0..40u32 {
                    let o = win2.pop_front().unwrap_or(0);
                    let nb = (k * 37 % 256) as u8;
                    win2.push_back(nb);
                    f.roll(o, nb); r.roll(o, nb);
                }
                let (a, b) = spec_from_scratch(&win2);
                let want = spec_digest(a, b);
                if f.digest() != want || r.digest() != want {
                    return Some(format!("40 slides on from a sparse {wlen}-byte window: fast {} / plain {} / definition {want}", f.digest(), r.digest()));
                }
                None
            });
            w.count("sparse-windows");
            match res {
                Ok(None) => {}
                Ok(Some(m)) => w.fail(0, "digest-differs-from-definition", &m),
                Err(()) => w.fail(0, "checksum-panic", &format!("panic on a sparse {wlen}-byte window")),
            }
        }
    }
}

fn long_slides(w: &mut Out, thorough: bool) {
    let slides: u64 = if thorough { 60_000_000 } else { 27_000_000 };
    for (built, wlen) in [("new", 8192usize), ("push", 8192), ("push", 5000), ("push", 65536)] {
        let res = guarded(move || {
            let mut win: VecDeque<u8> = (0..wlen).map(|_| 0xFFu8).collect();
            let init: Vec<u8> = win.iter().copied().collect();
            let (mut f, mut r) = if built == "new" {
                (FastRollingChecksum::new(&init), RollingChecksum::new(&init))
            } else {
                let (mut f, mut r) = (FastRollingChecksum::new(&[]), RollingChecksum::new(&[]));
                for x in &init { f.push(*x); r.push(*x); }
                (f, r)
            };
            let mut bad: Option<String> = None;
            for k in 0..slides {
                let o = win.pop_front().unwrap_or(0);
                let nb = 0xFFu8 - ((k % 3) as u8);
                win.push_back(nb);
                f.roll(o, nb);
                r.roll(o, nb);
                if k % 1_000_000 == 999_999 || k + 1 == slides {
                    let (a, b) = spec_from_scratch(&win);
                    let want = spec_digest(a, b);
                    if f.digest() != want || r.digest() != want {
                        bad = Some(format!("after {} slides of a {wlen}-byte window built by `{built}`: fast digest {} / plain digest {} / definition {want}", k + 1, f.digest(), r.digest()));
                        break;
                    }
                }
            }
            bad
        });
        w.count("long-slides");
        let l = 0;
        match res {
            Ok(None) => {}
            Ok(Some(m)) => w.fail(l, "digest-differs-from-definition", &m),
            Err(()) => w.fail(l, "checksum-panic", &format!("panic during a long slide of a {wlen}-byte window built by `{built}`")),
        }
    }
}
