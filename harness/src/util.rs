use std::collections::BTreeMap;
use std::io::Write;
use std::path::Path;

/// SplitMix64 — every random choice of a run derives from one seed.
pub struct Rng(pub u64);
impl Rng {
    pub fn new(seed: u64) -> Self {
        Rng(seed.wrapping_mul(0x9E37_79B9_7F4A_7C15) ^ 0xD1B5_4A32_D192_ED03)
    }
    pub fn next(&mut self) -> u64 {
        self.0 = self.0.wrapping_add(0x9E37_79B9_7F4A_7C15);
        let mut z = self.0;
        z = (z ^ (z >> 30)).wrapping_mul(0xBF58_476D_1CE4_E5B9);
        z = (z ^ (z >> 27)).wrapping_mul(0x94D0_49BB_1331_11EB);
        z ^ (z >> 31)
    }
    pub fn below(&mut self, n: u64) -> u64 {
        if n == 0 { 0 } else { self.next() % n }
    }
    pub fn range(&mut self, lo: u64, hi: u64) -> u64 {
        lo + self.below(hi - lo + 1)
    }
    pub fn coin(&mut self, num: u64, den: u64) -> bool {
        self.below(den) < num
    }
    pub fn pick<'a, T>(&mut self, xs: &'a [T]) -> &'a T {
        &xs[self.below(xs.len() as u64) as usize]
    }
    pub fn bytes(&mut self, n: usize) -> Vec<u8> {
        (0..n).map(|_| self.next() as u8).collect()
    }
}

pub fn hex(b: &[u8]) -> String {
    let mut s = String::with_capacity(b.len() * 2 + 1);
    if b.is_empty() {
        return "-".into();
    }
    for x in b {
        s.push_str(&format!("{x:02x}"));
    }
    s
}

/// Output files + bookkeeping shared by all property modules.
pub struct Out {
    ops: std::io::BufWriter<std::fs::File>,
    imp: std::io::BufWriter<std::fs::File>,
    oracle: std::io::BufWriter<std::fs::File>,
    meta_path: std::path::PathBuf,
    pub lines: u64,
    pub oracle_fail: u64,
    pub dist: BTreeMap<String, u64>,
    pub samples: Vec<String>,
    pub distinct: std::collections::HashSet<u64>,
    pub nontrivial: u64,
    pub notes: Vec<String>,
    pub rule: String,
    pub exhaustive: bool,
}

impl Out {
    pub fn new(dir: &Path) -> Self {
        let f = |n: &str| std::io::BufWriter::new(std::fs::File::create(dir.join(n)).expect("create"));
        Out {
            ops: f("ops.txt"),
            imp: f("impl.txt"),
            oracle: f("oracle.txt"),
            meta_path: dir.join("meta.json"),
            lines: 0,
            oracle_fail: 0,
            dist: BTreeMap::new(),
            samples: Vec::new(),
            distinct: std::collections::HashSet::new(),
            nontrivial: 0,
            notes: Vec::new(),
            rule: String::new(),
            exhaustive: false,
        }
    }
    /// One model query and the implementation's canonical answer to it.
    /// `nontrivial`: the case is non-trivial by the module's stated rule. Distinctness is measured
    /// on a hash of the query line.
    pub fn case(&mut self, op: &str, imp: &str, nontrivial: bool) -> u64 {
        debug_assert!(!op.contains('\n') && !imp.contains('\n'));
        writeln!(self.ops, "{op}").expect("w");
        writeln!(self.imp, "{imp}").expect("w");
        self.lines += 1;
        if nontrivial {
            let h = fxhash(op.as_bytes());
            if self.distinct.insert(h) {
                self.nontrivial += 1;
            }
        }
        if self.samples.len() < 6 || (self.lines % 997 == 0 && self.samples.len() < 12) {
            let mut o = op.to_string();
            if o.len() > 300 {
                o.truncate(300);
                o.push_str("…");
            }
            let mut i = imp.to_string();
            if i.len() > 200 {
                i.truncate(200);
                i.push_str("…");
            }
            self.samples.push(format!("{o}  =>  {i}"));
        }
        self.lines
    }
    /// Record the input about to be given to the code under test, so that if the process is killed
    /// (allocation failure aborts, stack overflow, a `panic = abort` dependency) the runner can still
    /// name the failing input.
    pub fn pre(&mut self, op: &str) {
        let _ = std::fs::write(self.meta_path.with_file_name("current.txt"), op);
    }
    pub fn fail(&mut self, line: u64, key: &str, what: &str) {
        writeln!(self.oracle, "FAIL {line} {key} {}", what.replace('\n', " ")).expect("w");
        self.oracle_fail += 1;
    }
    pub fn count(&mut self, k: &str) {
        *self.dist.entry(k.to_string()).or_insert(0) += 1;
    }
    pub fn count_n(&mut self, k: &str, n: u64) {
        *self.dist.entry(k.to_string()).or_insert(0) += n;
    }
    pub fn finish(mut self) {
        self.ops.flush().ok();
        self.imp.flush().ok();
        self.oracle.flush().ok();
        let meta = serde_json::json!({
            "lines": self.lines,
            "oracle_failures": self.oracle_fail,
            "distinct_nontrivial": self.nontrivial,
            "distribution": self.dist,
            "samples": self.samples,
            "notes": self.notes,
            "rule": self.rule,
            "exhaustive": self.exhaustive,
        });
        std::fs::write(&self.meta_path, serde_json::to_vec_pretty(&meta).expect("json")).expect("meta");
    }
}

pub fn fxhash(b: &[u8]) -> u64 {
    let mut h: u64 = 0xcbf2_9ce4_8422_2325;
    for x in b {
        h ^= u64::from(*x);
        h = h.wrapping_mul(0x0000_0100_0000_01B3);
    }
    h
}

/// Run `f`, mapping a panic of the code under test to `Err(())`.
pub fn guarded<T>(f: impl FnOnce() -> T) -> Result<T, ()> {
    std::panic::catch_unwind(std::panic::AssertUnwindSafe(f)).map_err(|_| ())
}

/// Run `f` on its own thread and wait at most `secs`; `Err(true)` = still running (a hang: the thread
/// is left behind, spinning), `Err(false)` = it panicked.
pub fn guarded_timeout<T: Send + 'static>(secs: u64, f: impl FnOnce() -> T + Send + 'static) -> Result<T, bool> {
    let (tx, rx) = std::sync::mpsc::channel();
    std::thread::spawn(move || {
        let r = std::panic::catch_unwind(std::panic::AssertUnwindSafe(f));
        let _ = tx.send(r);
    });
    match rx.recv_timeout(std::time::Duration::from_secs(secs)) {
        Ok(Ok(v)) => Ok(v),
        Ok(Err(_)) => Err(false),
        Err(_) => Err(true),
    }
}
