//! C18 — `reconcile_path` / `reconcile` (src/bin/copia/reconcile.rs, compiled in unchanged).
use crate::cli::reconcile::{reconcile, reconcile_path, Action, ConflictKind, FileType, Fingerprint, FpMap};
use crate::util::{hex, Out, Rng};
use std::path::PathBuf;

fn fp_tok(f: Option<Fingerprint>) -> String {
    match f {
        None => "-".into(),
        Some(f) => format!("{}:{}", hex(&f.blake3), if f.ftype == FileType::File { "f" } else { "s" }),
    }
}

/// The documented table, written independently from the documentation (oracle; see Spec/ReconcileTable.lean).
fn table(a: Option<Fingerprint>, b: Option<Fingerprint>, z: Option<Fingerprint>) -> Action {
    let eq = |x: &Fingerprint, y: &Fingerprint| x.blake3 == y.blake3 && x.ftype == y.ftype;
    match (a, b) {
        (None, None) => Action::Noop,
        (Some(a), Some(b)) => {
            if eq(&a, &b) {
                match z {
                    Some(z) if eq(&a, &z) => Action::Noop,
                    _ => Action::ConvergeIdentical,
                }
            } else {
                match z {
                    None => Action::Conflict(ConflictKind::BothChanged),
                    Some(z) => {
                        let (az, bz) = (eq(&a, &z), eq(&b, &z));
                        if az && !bz {
                            Action::PropagateBtoA
                        } else if bz && !az {
                            Action::PropagateAtoB
                        } else {
                            Action::Conflict(ConflictKind::BothChanged)
                        }
                    }
                }
            }
        }
        (Some(a), None) => match z {
            None => Action::PropagateAtoB,
            Some(z) if eq(&a, &z) => Action::DeleteA,
            Some(_) => Action::Conflict(ConflictKind::DeleteVsModify),
        },
        (None, Some(b)) => match z {
            None => Action::PropagateBtoA,
            Some(z) if eq(&b, &z) => Action::DeleteB,
            Some(_) => Action::Conflict(ConflictKind::DeleteVsModify),
        },
    }
}

fn mk(d: u8, t: u8) -> Fingerprint {
    Fingerprint { blake3: [d; 32], ftype: if t == 0 { FileType::File } else { FileType::Symlink } }
}

fn one(w: &mut Out, a: Option<Fingerprint>, b: Option<Fingerprint>, z: Option<Fingerprint>, kind: &str) {
    let got = crate::util::guarded(|| reconcile_path(a, b, z));
    let imp = match &got {
        Ok(x) => format!("{x:?}"),
        Err(()) => "PANIC".into(),
    };
    let present = a.is_some() as u8 + b.is_some() as u8 + z.is_some() as u8;
    let line = w.case(&format!("rp {} {} {}", fp_tok(a), fp_tok(b), fp_tok(z)), &imp, present >= 2);
    w.count(&format!("rp/{kind}"));
    w.count(&format!("rp/action/{}", imp.split('(').next().unwrap_or("")));
    let want = table(a, b, z);
    if got != Ok(want) {
        w.fail(line, "rp-table", &format!("reconcile_path gives {imp}, documented table gives {want:?}"));
    }
    // mirror symmetry (oracle on the implementation itself)
    if let (Ok(x), Ok(y)) = (got, crate::util::guarded(|| reconcile_path(b, a, z))) {
        let sw = match x {
            Action::PropagateAtoB => Action::PropagateBtoA,
            Action::PropagateBtoA => Action::PropagateAtoB,
            Action::DeleteA => Action::DeleteB,
            Action::DeleteB => Action::DeleteA,
            o => o,
        };
        if y != sw {
            w.fail(line, "rp-mirror", &format!("reconcile_path(b,a,z)={y:?} is not the mirror of {x:?}"));
        }
    }
}

fn map_tok(m: &FpMap) -> String {
    if m.is_empty() {
        return "-".into();
    }
    m.iter()
        .map(|(p, f)| format!("{}={}", hex(p.to_string_lossy().as_bytes()), fp_tok(Some(*f))))
        .collect::<Vec<_>>()
        .join(";")
}

fn tree_case(w: &mut Out, a: &FpMap, b: &FpMap, z: &FpMap, trust: bool, kind: &str) {
    let got = crate::util::guarded(|| reconcile(a, b, z, trust));
    let imp = match &got {
        Ok(v) => {
            if v.is_empty() {
                "-".to_string()
            } else {
                v.iter()
                    .map(|(p, act)| format!("{}:{act:?}", hex(p.to_string_lossy().as_bytes())))
                    .collect::<Vec<_>>()
                    .join(";")
            }
        }
        Err(()) => "PANIC".into(),
    };
    let line = w.case(
        &format!("rec {} {} {} {}", trust as u8, map_tok(a), map_tok(b), map_tok(z)),
        &imp,
        a.len() + b.len() >= 2,
    );
    w.count(&format!("rec/{kind}/trust={}", trust as u8));
    // oracle: sorted union of both sides' paths, table per path, base ignored when untrusted, Noop dropped
    let mut keys: Vec<&PathBuf> = a.keys().chain(b.keys()).collect();
    keys.sort();
    keys.dedup();
    let mut want = Vec::new();
    for k in keys {
        let zz = if trust { z.get(k).copied() } else { None };
        let act = table(a.get(k).copied(), b.get(k).copied(), zz);
        if act != Action::Noop {
            want.push((k.clone(), act));
        }
    }
    match got {
        Ok(v) if v == want => {}
        _ => w.fail(line, "rec-set", &format!("reconcile gives {imp}, set definition gives {want:?}")),
    }
    if let Ok(v) = crate::util::guarded(|| reconcile(a, b, z, false)) {
        if v.iter().any(|(_, x)| matches!(x, Action::DeleteA | Action::DeleteB)) {
            w.fail(line, "rec-untrusted-delete", "a delete was planned with an untrusted base");
        }
    }
}

pub fn run(w: &mut Out, thorough: bool, seed: u64) {
    w.rule = "rp: all (a,b,base) over {absent} ∪ {3 digests}×{File,Symlink} — the complete quotient by \
presence/equality pattern/entry type — plus random 32-byte digests with forced coincidences; rec: all \
assignments of {absent,d0,d1}³ to a 3-path universe whose component order differs from byte order, both \
trust settings, plus random maps. Non-trivial: ≥2 fingerprints present (rp) / ≥2 entries across the two sides (rec); \
distinct = distinct query lines."
        .into();
    w.exhaustive = true;
    // 1. complete quotient
    let mut opts: Vec<Option<Fingerprint>> = vec![None];
    for d in 0..3u8 {
        for t in 0..2u8 {
            opts.push(Some(mk(d, t)));
        }
    }
    for a in &opts {
        for b in &opts {
            for z in &opts {
                one(w, *a, *b, *z, "quotient");
            }
        }
    }
    // 2. random 32-byte digests (coincidences forced with probability 1/2 per slot)
    let mut rng = Rng::new(seed);
    let n = if thorough { 200_000 } else { 20_000 };
    for _ in 0..n {
        let mut pool: Vec<Fingerprint> = Vec::new();
        let mut pickfp = |rng: &mut Rng, pool: &mut Vec<Fingerprint>| -> Option<Fingerprint> {
            if rng.coin(1, 5) {
                return None;
            }
            if !pool.is_empty() && rng.coin(1, 2) {
                let mut f = *rng.pick(pool);
                if rng.coin(1, 6) {
                    f.ftype = if f.ftype == FileType::File { FileType::Symlink } else { FileType::File };
                }
                if rng.coin(1, 8) {
                    let i = rng.below(32) as usize;
                    f.blake3[i] ^= 1 << rng.below(8);
                }
                pool.push(f);
                return Some(f);
            }
            let mut d = [0u8; 32];
            d.copy_from_slice(&rng.bytes(32));
            let f = Fingerprint { blake3: d, ftype: if rng.coin(1, 4) { FileType::Symlink } else { FileType::File } };
            pool.push(f);
            Some(f)
        };
        let a = pickfp(&mut rng, &mut pool);
        let b = pickfp(&mut rng, &mut pool);
        let z = pickfp(&mut rng, &mut pool);
        one(w, a, b, z, "random32");
    }
    // 3. trees: exhaustive over a 3-path universe
    let paths = ["a", "a/b", "a.b"];
    let small: Vec<Option<Fingerprint>> = vec![None, Some(mk(0, 0)), Some(mk(1, 0))];
    let per_path: Vec<(Option<Fingerprint>, Option<Fingerprint>, Option<Fingerprint>)> = {
        let mut v = Vec::new();
        for a in &small {
            for b in &small {
                for z in &small {
                    v.push((*a, *b, *z));
                }
            }
        }
        v
    };
    for c0 in &per_path {
        for c1 in &per_path {
            for c2 in &per_path {
                let (mut a, mut b, mut z) = (FpMap::new(), FpMap::new(), FpMap::new());
                for (p, c) in paths.iter().zip([c0, c1, c2]) {
                    if let Some(f) = c.0 {
                        a.insert(PathBuf::from(p), f);
                    }
                    if let Some(f) = c.1 {
                        b.insert(PathBuf::from(p), f);
                    }
                    if let Some(f) = c.2 {
                        z.insert(PathBuf::from(p), f);
                    }
                }
                for trust in [true, false] {
                    tree_case(w, &a, &b, &z, trust, "universe3");
                }
            }
        }
    }
    // 4. random larger maps with nested names
    let names = ["x", "x/y", "x.y", "x/y/z", "x y", "b", "b/c", "B", "é", "x/é", "0", "x-", "x/"];
    let m = if thorough { 20_000 } else { 2_000 };
    for _ in 0..m {
        let (mut a, mut b, mut z) = (FpMap::new(), FpMap::new(), FpMap::new());
        for nme in names.iter() {
            let nme = nme.trim_end_matches('/');
            if rng.coin(1, 2) {
                continue;
            }
            let base = mk(rng.below(3) as u8, 0);
            for (mm, pr) in [(&mut a, 3u64), (&mut b, 3), (&mut z, 3)] {
                if rng.coin(pr, 4) {
                    let f = if rng.coin(3, 4) { base } else { mk(rng.below(4) as u8, rng.below(2) as u8) };
                    mm.insert(PathBuf::from(nme), f);
                }
            }
        }
        tree_case(w, &a, &b, &z, rng.coin(3, 4), "random");
    }
    // 4b. names DERIVED from another path's name (conflict copies `f.conflict-<host>-<hash>`, backups, lookalikes): the decision for a
    // path is the table's, whatever is decided for the path it is named after (seed C18-O: a post-pass dropped the planned delete
    // of `f.conflict-…` whenever `f` itself was a both-changed conflict)
    let dnames = ["f", "f.conflict-h-1", "f.conflict-h-2", "f.conflictx", "f.conf", "g", "g.conflict-h-1", "d/f", "d/f.conflict-h-9", "f.conflict-"];
    for _ in 0..(if thorough { 20_000 } else { 3_000 }) {
        let (mut a, mut b, mut z) = (FpMap::new(), FpMap::new(), FpMap::new());
        for nme in dnames.iter() {
            if rng.coin(1, 3) { continue; }
            let base = mk(rng.below(3) as u8, 0);
            for (mm, pr) in [(&mut a, 3u64), (&mut b, 3), (&mut z, 3)] {
                if rng.coin(pr, 4) {
                    let f = if rng.coin(2, 3) { base } else { mk(rng.below(4) as u8, 0) };
                    mm.insert(PathBuf::from(nme), f);
                }
            }
        }
        tree_case(w, &a, &b, &z, rng.coin(4, 5), "derived-names");
    }
    // 5. WIDE maps (tens to hundreds of paths, most on both sides): whatever the whole-tree function does with the union of keys
    // (sorting, de-duplication, merging) behaves differently above the small-input fast paths of the library routines it uses
    let wide = if thorough { 400 } else { 60 };
    for i in 0..wide {
        let n_ = if i < 70 { i + 1 } else { rng.range(70, 1200) as usize };
        let (mut a, mut b, mut z) = (FpMap::new(), FpMap::new(), FpMap::new());
        for k in 0..n_ {
            let nme = format!("d{}/f{:04}{}", k % 7, k, if k % 11 == 0 { ".x" } else { "" });
            let base = mk(rng.below(3) as u8, 0);
            let both = rng.coin(5, 6);
            let fa = if rng.coin(3, 4) { base } else { mk(rng.below(4) as u8, rng.below(2) as u8) };
            let fb = if rng.coin(3, 4) { base } else { mk(rng.below(4) as u8, rng.below(2) as u8) };
            if both || rng.coin(1, 2) { a.insert(PathBuf::from(&nme), fa); }
            if both || !a.contains_key(&PathBuf::from(&nme)) { b.insert(PathBuf::from(&nme), fb); }
            if rng.coin(3, 4) { z.insert(PathBuf::from(&nme), base); }
        }
        tree_case(w, &a, &b, &z, i % 4 != 3, "wide");
    }
    // 5b. ANCESTOR KEYS: `d` on one replica, `d/x`, `d/y/z` on the other (a file replaced by a directory or the reverse), with and
    // without a base that knows either shape. The decision for a path is the table's, whatever OTHER paths exist (seed C18-K: a key
    // that is a component-wise ancestor of the next key turned both into conflicts without consulting the table).
    for v in 0..(if thorough { 64 } else { 24 }) {
        let (mut a, mut b, mut z) = (FpMap::new(), FpMap::new(), FpMap::new());
        let top = ["d", "notes", "a b", "k.x"][v % 4];
        let below = [format!("{top}/x"), format!("{top}/y/z"), format!("{top}/.h")];
        let file_side_a = v % 2 == 0;
        {
            let (fs_, ds_) = if file_side_a { (&mut a, &mut b) } else { (&mut b, &mut a) };
            fs_.insert(PathBuf::from(top), mk(1, 0));
            for (k, p_) in below.iter().enumerate() { if (v >> 2) % 4 != k { ds_.insert(PathBuf::from(p_), mk(2 + k as u8, 0)); } }
        }
        match (v >> 4) % 4 {
            0 => {}
            1 => { z.insert(PathBuf::from(top), mk(1, 0)); }
            2 => { for (k, p_) in below.iter().enumerate() { z.insert(PathBuf::from(p_), mk(2 + k as u8, 0)); } }
            _ => { z.insert(PathBuf::from(top), mk(9, 0)); z.insert(PathBuf::from(&below[0]), mk(2, 0)); }
        }
        a.insert(PathBuf::from("zz-other"), mk(5, 0));
        b.insert(PathBuf::from("zz-other"), mk(6, 0));
        tree_case(w, &a, &b, &z, (v >> 4) % 4 != 0, "ancestor-keys");
    }
    // 6. RUN BOUNDARIES: the chained key list keys(A) ++ keys(B), sorted, holds a path present on both sides twice, side by side.
    // c - 1 (± 1) one-sided paths that sort first push the two copies of the first common path onto positions c - 1 and c for
    // c a power of two — where an implementation that cuts the sorted list into runs (parallel chunks, merge passes) and removes
    // duplicates only INSIDE a run decides the path twice (seed C18-J: rayon `par_chunks(1024)`).
    let cs: &[usize] = if thorough { &[16, 32, 64, 128, 256, 512, 1024, 2048, 4096, 8192] } else { &[64, 256, 1024, 4096] };
    for &c in cs {
        for off in [0usize, 1, 2] {
            let (mut a, mut b, mut z) = (FpMap::new(), FpMap::new(), FpMap::new());
            for k in 0..(c + off).saturating_sub(2) {
                a.insert(PathBuf::from(format!("0-first/{k:05}")), mk(1, 0));
            }
            for k in 0..6 {
                let nme = PathBuf::from(format!("m/common{k}"));
                a.insert(nme.clone(), mk(1 + (k % 3) as u8, 0));
                b.insert(nme.clone(), mk(2, 0));
                if k % 2 == 0 { z.insert(nme, mk(0, 0)); }
            }
            tree_case(w, &a, &b, &z, off != 2, "run-boundary");
        }
    }
}
