import Copia.Model.Reconcile
