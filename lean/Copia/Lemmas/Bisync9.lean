import Copia.Lemmas.Bisync8
namespace Copia.Bisync
open Copia.Reconcile

variable {P C : Type} [DecidableEq P] [DecidableEq C]

/-- the shapes `reconcile_path` can return for scanned (regular-file) values -/
inductive Shape (x y : Option C) : Action → Prop
  | noop : Shape x y .noop
  | conv (v : C) : x = some v → y = some v → Shape x y .convergeIdentical
  | ab (v : C) : x = some v → Shape x y .propagateAtoB
  | ba (v : C) : y = some v → Shape x y .propagateBtoA
  | delA : y = none → Shape x y .deleteA
  | delB : x = none → Shape x y .deleteB
  | dvmA (v : C) : x = some v → y = none → Shape x y (.conflict .deleteVsModify)
  | dvmB (v : C) : x = none → y = some v → Shape x y (.conflict .deleteVsModify)
  | both (xa yb : C) : x = some xa → y = some yb → Shape x y (.conflict .bothChanged)

theorem shape_of_reconcile (x y : Option C) (z : Option (Fp C)) :
    Shape x y (reconcilePath (x.map mkFp) (y.map mkFp) z) := by
  cases x with
  | none =>
    cases y with
    | none => cases z <;> simp [reconcilePath] <;> exact .noop
    | some yb =>
      cases z with
      | none => simp [reconcilePath]; exact .ba yb rfl
      | some zv =>
        simp only [reconcilePath, Option.map_some, Option.map_none]
        split
        · exact .delB rfl
        · exact .dvmB yb rfl rfl
  | some xa =>
    cases y with
    | none =>
      cases z with
      | none => simp [reconcilePath]; exact .ab xa rfl
      | some zv =>
        simp only [reconcilePath, Option.map_some, Option.map_none]
        split
        · exact .delA rfl
        · exact .dvmA xa rfl rfl
    | some yb =>
      simp only [reconcilePath, Option.map_some, same_mkFp]
      by_cases hxy : xa = yb
      · subst hxy
        simp only [decide_true, if_true]
        split
        · split
          · exact .noop
          · exact .conv xa rfl rfl
        · exact .conv xa rfl rfl
      · simp only [hxy, decide_false, Bool.false_eq_true, if_false]
        cases z with
        | none => exact .both xa yb rfl rfl
        | some zv =>
          simp only []
          cases h1 : !Fp.same (mkFp xa) zv <;> cases h2 : !Fp.same (mkFp yb) zv <;> simp <;>
            first | exact .noop | exact .ba yb rfl | exact .ab xa rfl | exact .both xa yb rfl rfl

theorem commonStep_lookup (ge : C → C → Bool) (cname : P → C → P) (a b m : List (P × Fp C)) (p : P)
    (act : Action) (x y : Option C)
    (ha : lookup a p = x.map mkFp) (hb : lookup b p = y.map mkFp) (hs : Shape x y act)
    (hcc : ∀ ln, ccName ge cname p act x y = some ln → ln ≠ p) :
    (∀ q, q ≠ p → ccName ge cname p act x y ≠ some q →
      lookup (commonStep ge cname a b m p act) q = lookup m q) ∧
    (act ≠ .noop → lookup (commonStep ge cname a b m p act) p = (resolve ge act x y).1.map mkFp) ∧
    (∀ ln xa yb, x = some xa → y = some yb → act = .conflict .bothChanged → ln = cname p (loser ge xa yb) →
      lookup (commonStep ge cname a b m p act) ln = some (mkFp (loser ge xa yb))) := by
  cases hs with
  | noop => simp [commonStep]
  | conv v h1 h2 =>
    subst h1 h2
    simp only [commonStep, ha, Option.map_some, cInsOpt, lookup_cIns, resolve]
    refine ⟨fun q hq _ => by simp [hq], fun _ => by simp, by intros; simp_all⟩
  | ab v h1 =>
    subst h1
    simp only [commonStep, ha, Option.map_some, cInsOpt, lookup_cIns, resolve]
    refine ⟨fun q hq _ => by simp [hq], fun _ => by simp, by intros; simp_all⟩
  | ba v h1 =>
    subst h1
    simp only [commonStep, hb, Option.map_some, cInsOpt, lookup_cIns, resolve]
    refine ⟨fun q hq _ => by simp [hq], fun _ => by simp, by intros; simp_all⟩
  | delA h1 =>
    subst h1
    simp only [commonStep, lookup_cDel, resolve]
    refine ⟨fun q hq _ => by simp [hq], fun _ => by simp, by intros; simp_all⟩
  | delB h1 =>
    subst h1
    simp only [commonStep, lookup_cDel, resolve]
    refine ⟨fun q hq _ => by simp [hq], fun _ => by simp, by intros; simp_all⟩
  | dvmA v h1 h2 =>
    subst h1 h2
    simp only [commonStep, ha, Option.map_some, Option.isSome_some, if_true, cInsOpt, lookup_cIns, resolve]
    refine ⟨fun q hq _ => by simp [hq], fun _ => by simp, by intros; simp_all⟩
  | dvmB v h1 h2 =>
    subst h1 h2
    simp only [Option.map_none, Option.map_some] at ha hb
    simp only [commonStep, ha, hb, Option.map_some, Option.map_none, Option.isSome_some, Option.isSome_none,
      if_true, cInsOpt, resolve]
    refine ⟨fun q hq _ => by simp [hq, lookup_cIns], fun _ => by simp [lookup_cIns], by intros; simp_all⟩
  | both xa yb h1 h2 =>
    subst h1 h2
    have hne : cname p (loser ge xa yb) ≠ p := hcc _ (by simp [ccName])
    simp only [commonStep, ha, hb, Option.map_some, resolve, mkFp]
    by_cases hg : ge xa yb
    · simp only [hg, if_true, lookup_cIns]
      simp only [loser, hg, if_true] at hne
      refine ⟨?_, ?_, ?_⟩
      · intro q hq hc
        have : q ≠ cname p yb := fun e => hc (by simp [ccName, loser, hg, e])
        simp [hq, this]
      · intro _
        have : ¬ p = cname p yb := fun e => hne e.symm
        simp [this, winner, hg]
      · intro ln xa' yb' e1 e2 _ e4
        cases e1; cases e2
        simp [e4, loser, hg]
    · simp only [hg, Bool.false_eq_true, if_false, ↓reduceIte, lookup_cIns]
      simp only [loser, hg, Bool.false_eq_true, if_false, ↓reduceIte] at hne
      refine ⟨?_, ?_, ?_⟩
      · intro q hq hc
        have : q ≠ cname p xa := fun e => hc (by simp [ccName, loser, hg, e])
        simp [hq, this]
      · intro _
        have : ¬ p = cname p xa := fun e => hne e.symm
        simp [this, winner, hg]
      · intro ln xa' yb' e1 e2 _ e4
        cases e1; cases e2
        simp [e4, loser, hg]
end Copia.Bisync
