import Copia.Lemmas.Checksum1
namespace Copia.Checksum
open Copia

/-- The state that `RollingChecksum::new` builds for window `w` when nothing wraps. -/
def Rolling.ofWindow (w : List Nat) : Rolling :=
  { a := specA w % Gen.rollingMod, b := specB w % Gen.rollingMod, count := w.length }

theorem sums_fit (w : List Nat) (h : Bytes w) (hl : w.length ≤ 65536) :
    w.length < W64 ∧ 0 + specA w < W64 ∧ 0 + specB w < W64 := by
  have h1 := specA_le w h
  have h2 := specB_le_max w h hl
  simp only [W64]
  omega

theorem Rolling.new_eq (w : List Nat) (h : Bytes w) (hl : w.length ≤ MAXW) :
    Rolling.new w = Rolling.ofWindow w := by
  have hl' : w.length ≤ 65536 := hl
  obtain ⟨f1, f2, f3⟩ := sums_fit w h hl'
  unfold Rolling.new Rolling.ofWindow
  rw [sumLoop_eq w w.length 0 0 rfl f1 f2 f3]
  simp only [Gen.rollingMod, W32, Nat.zero_add]
  have e1 : specA w % 65521 % 4294967296 = specA w % 65521 := Nat.mod_eq_of_lt (by omega)
  have e2 : specB w % 65521 % 4294967296 = specB w % 65521 := Nat.mod_eq_of_lt (by omega)
  rw [e1, e2]

theorem push_arith (A B x : Nat) (hx : x < 256) :
    (A % 65521 + x) % 4294967296 % 65521 = (A + x) % 65521 ∧
    (B % 65521 + (A + x) % 65521) % 4294967296 % 65521 = (B + A + x) % 65521 := by
  constructor <;> omega

theorem Rolling.push_ofWindow (w : List Nat) (x : Nat) (hx : x < 256) :
    (Rolling.ofWindow w).push x = Rolling.ofWindow (w ++ [x]) := by
  unfold Rolling.push Rolling.ofWindow
  simp only [add32, Gen.rollingMod, W32, specA_snoc, specB_snoc, List.length_append, List.length_singleton]
  obtain ⟨e1, e2⟩ := push_arith (specA w) (specB w) x hx
  rw [e1, e2]

/-- arithmetic of the repaired `roll`, over plain variables. -/
theorem roll_arith_a (A x y : Nat) (hx : x < 256) (hy : y < 256) :
    (A % 65521 + 65521) % 4294967296 = A % 65521 + 65521 ∧
    (A % 65521 + 65521 + y) % 4294967296 = A % 65521 + 65521 + y ∧
    x % 4294967296 = x ∧
    (A % 65521 + 65521 + y + 4294967296 - x) % 4294967296 = A % 65521 + 65521 + y - x ∧
    x ≤ A % 65521 + 65521 + y ∧ A % 65521 + 65521 + y < 4294967296 := by
  refine ⟨by omega, by omega, by omega, by omega, by omega, by omega⟩

theorem mod_a (sa A x y : Nat) (h : sa % 65521 = (x + A) % 65521) (hx : x ≤ sa + 65521 + y) :
    (sa + 65521 + y - x) % 65521 = (A + y) % 65521 := by omega

theorem mod_b (sb n a N Bold Bnew A' : Nat)
    (hb : sb % 65521 = Bold % 65521) (ha : a % 65521 = A' % 65521)
    (hs : Bnew + N = Bold + A') (hN : N ≤ 65521 * n) :
    (sb + 65521 * n + a - N) % 65521 = Bnew % 65521 := by omega

theorem roll_arith_b (sb n N a' : Nat) (hsb : sb < 65521) (hn : n ≤ 65536) (hN : N ≤ 255 * n)
    (ha' : a' < 65521) :
    65521 * n % 18446744073709551616 = 65521 * n ∧
    N % 18446744073709551616 = N ∧
    (sb + 65521 * n) % 18446744073709551616 = sb + 65521 * n ∧
    (sb + 65521 * n + a') % 18446744073709551616 = sb + 65521 * n + a' ∧
    (sb + 65521 * n + a' + 18446744073709551616 - N) % 18446744073709551616 = sb + 65521 * n + a' - N ∧
    (sb + 65521 * n + a' - N) % 65521 % 4294967296 = (sb + 65521 * n + a' - N) % 65521 ∧
    N ≤ sb + 65521 * n + a' ∧ 65521 * n < 18446744073709551616 ∧
    sb + 65521 * n + a' < 18446744073709551616 ∧ N < 18446744073709551616 := by
  refine ⟨by omega, by omega, by omega, by omega, by omega, by omega, by omega, by omega, by omega, by omega⟩

theorem Rolling.roll_ofWindow (x y : Nat) (xs : List Nat) (hb : Bytes (x :: xs)) (hy : y < 256)
    (hl : (x :: xs).length ≤ MAXW) :
    (Rolling.ofWindow (x :: xs)).rollOK x y ∧
    (Rolling.ofWindow (x :: xs)).roll x y = Rolling.ofWindow (xs ++ [y]) := by
  have hx := hb.head
  have hn : xs.length + 1 ≤ 65536 := hl
  have hN : (xs.length + 1) * x ≤ 255 * (xs.length + 1) := by
    rw [Nat.mul_comm]; exact Nat.mul_le_mul_right _ (by omega)
  have hslide := specB_slide x xs y
  obtain ⟨a1, a2, a3, a4, a5, a6⟩ := roll_arith_a (specA (x :: xs)) x y hx hy
  have ea := mod_a (specA (x :: xs) % 65521) (specA xs) x y (by simp [specA]) a5
  have hsb : specB (x :: xs) % 65521 < 65521 := Nat.mod_lt _ (by omega)
  have ha' : (specA (x :: xs) % 65521 + 65521 + y - x) % 65521 < 65521 := Nat.mod_lt _ (by omega)
  have eb := mod_b (specB (x :: xs) % 65521) (xs.length + 1)
    ((specA (x :: xs) % 65521 + 65521 + y - x) % 65521) ((xs.length + 1) * x) (specB (x :: xs))
    (specB (xs ++ [y])) (specA xs + y) (by omega) (by omega) hslide (by omega)
  obtain ⟨m1, m2, m3, m4, m5, m6, k1, k2, k3, k4⟩ := roll_arith_b (specB (x :: xs) % 65521) (xs.length + 1)
    ((xs.length + 1) * x) ((specA (x :: xs) % 65521 + 65521 + y - x) % 65521) hsb hn hN ha'
  constructor
  · unfold Rolling.rollOK Rolling.ofWindow
    simp only [Gen.rollingMod, W32, W64, List.length_cons]
    exact ⟨a6, a5, k2, k3, k4, k1⟩
  · unfold Rolling.roll Rolling.ofWindow
    simp only [Gen.rollingMod, add32, sub32, add64, sub64, mul64, W32, W64, List.length_cons,
      a1, a2, a3, a4, m1, m2, m3, m4, m5, m6, specA_snoc, List.length_append, List.length_cons, List.length_nil]
    rw [← eb, ← ea]
