import Copia.Lemmas.Bisync16
/-!
# The archive being built, under a BENIGN name clash (`ArchInvB`, `run_archB`, `arch_eq_treeB`)

Companion of `Bisync10` (`ArchInv` under `NoNameClash`): after the whole apply loop the `common` map —
what `run_bisync` saves as the next archive — records exactly the tree, also when a conflict-copy name
was already live with the losing content (the state a killed run leaves behind).
-/
namespace Copia.Bisync
open Copia.Reconcile

variable {P C : Type} [DecidableEq P] [DecidableEq C]

/-- what the stale entry of `apply_stale` does to `common`: nothing, or it records the content that is there -/
theorem apply_stale_common (ge : C → C → Bool) (cname : P → C → P) (a b : List (P × Fp C)) (l l' : Live P C) (p : P)
    (act : Action) (x y : Option C) (L : C) (hx : x = none ∨ x = some L) (hy : y = none ∨ y = some L)
    (ha : lookup a p = x.map mkFp) (hb : lookup b p = y.map mkFp) (hs : Shape x y act)
    (hnb : act ≠ .conflict .bothChanged) (hlA : get l.A p = some L) (hlB : get l.B p = some L) (c : Bool)
    (happ : apply ge cname a b l p act = some (l', c)) :
    (∀ q, q ≠ p → lookup l'.common q = lookup l.common q) ∧
    (lookup l'.common p = lookup l.common p ∨ lookup l'.common p = some (mkFp L)) := by
  cases hs with
  | noop => simp [apply] at happ; rw [← happ.1]; exact ⟨fun _ _ => rfl, Or.inl rfl⟩
  | conv v h1 h2 =>
    subst h1
    have hv : v = L := by rcases hx with e | e <;> simp at e; exact e
    subst hv
    simp only [apply, Option.some.injEq, Prod.mk.injEq] at happ
    rw [← happ.1]
    simp only [ha, Option.map_some, cInsOpt]
    exact ⟨fun q hq => by simp [lookup_cIns, hq], Or.inr (by simp [lookup_cIns])⟩
  | ab v h1 =>
    subst h1
    have hv : v = L := by rcases hx with e | e <;> simp at e; exact e
    subst hv
    simp only [apply, copyLive_some _ _ _ _ _ hlA, Option.map_some, Option.some.injEq, Prod.mk.injEq] at happ
    rw [← happ.1]
    simp only [ha, Option.map_some, cInsOpt]
    exact ⟨fun q hq => by simp [lookup_cIns, hq], Or.inr (by simp [lookup_cIns])⟩
  | ba v h1 =>
    subst h1
    have hv : v = L := by rcases hy with e | e <;> simp at e; exact e
    subst hv
    simp only [apply, copyLive_some _ _ _ _ _ hlB, Option.map_some, Option.some.injEq, Prod.mk.injEq] at happ
    rw [← happ.1]
    simp only [hb, Option.map_some, cInsOpt]
    exact ⟨fun q hq => by simp [lookup_cIns, hq], Or.inr (by simp [lookup_cIns])⟩
  | delA h1 =>
    simp [apply, hlB] at happ; rw [← happ.1]; exact ⟨fun _ _ => rfl, Or.inl rfl⟩
  | delB h1 =>
    simp [apply, hlA] at happ; rw [← happ.1]; exact ⟨fun _ _ => rfl, Or.inl rfl⟩
  | dvmA v h1 h2 =>
    subst h1
    have hv : v = L := by rcases hx with e | e <;> simp at e; exact e
    subst hv
    simp only [apply, ha, Option.map_some, Option.isSome_some, if_true, copyLive_some _ _ _ _ _ hlA,
      Option.some.injEq, Prod.mk.injEq] at happ
    rw [← happ.1]
    simp only [cInsOpt]
    exact ⟨fun q hq => by simp [lookup_cIns, hq], Or.inr (by simp [lookup_cIns])⟩
  | dvmB v h1 h2 =>
    subst h1 h2
    have hv : v = L := by rcases hy with e | e <;> simp at e; exact e
    subst hv
    simp only [Option.map_none, Option.map_some] at ha hb
    simp only [apply, ha, hb, Option.isSome_none, Option.isSome_some, if_true, Bool.false_eq_true, if_false,
      copyLive_some _ _ _ _ _ hlB, Option.map_some, Option.some.injEq, Prod.mk.injEq] at happ
    rw [← happ.1]
    simp only [cInsOpt]
    exact ⟨fun q hq => by simp [lookup_cIns, hq], Or.inr (by simp [lookup_cIns])⟩
  | both xa yb h1 h2 => exact absurd rfl hnb

/-- the archive being built after the prefix `done`, when conflict-copy names may be plan paths -/
structure ArchInvB (ge : C → C → Bool) (cname : P → C → P) (A0 B0 : Tree P C) (m0 : List (P × Fp C))
    (plan done : List (P × Action)) (m : List (P × Fp C)) : Prop where
  untouched : ∀ q, ¬ touched ge cname A0 B0 done q → lookup m q = lookup m0 q
  atPath : ∀ p act, (p, act) ∈ done →
    (∀ p' act', (p', act') ∈ plan → ccName ge cname p' act' (get A0 p') (get B0 p') ≠ some p) →
    lookup m p = (resolve ge act (get A0 p) (get B0 p)).1.map mkFp
  atCopy : ∀ p act ln, (p, act) ∈ done → ccName ge cname p act (get A0 p) (get B0 p) = some ln →
    ∃ xa yb, get A0 p = some xa ∧ get B0 p = some yb ∧ lookup m ln = some (mkFp (loser ge xa yb))

theorem run_archB (ge : C → C → Bool) (cname : P → C → P) (A0 B0 : Tree P C) (z : P → Option (Fp C))
    (m0 : List (P × Fp C)) (plan : List (P × Action))
    (hact : ∀ p act, (p, act) ∈ plan → act = reconcilePath ((get A0 p).map mkFp) ((get B0 p).map mkFp) (z p))
    (hnn : ∀ p act, (p, act) ∈ plan → act ≠ .noop)
    (hnd : (plan.map (·.1)).Nodup) (bc : BenignClash ge cname A0 B0 plan) :
    ∀ (todo done : List (P × Action)) (l l' : Live P C) (n n' : Nat), plan = done ++ todo →
      ArchInvB ge cname A0 B0 m0 plan done l.common → RunInvB ge cname A0 B0 plan done l →
      applyAllPartial ge cname (scan A0) (scan B0) todo l n = (l', n', true) →
      ArchInvB ge cname A0 B0 m0 plan plan l'.common := by
  intro todo
  induction todo with
  | nil =>
    intro done l l' n n' hp inv _ hrun
    simp only [List.append_nil] at hp
    subst hp
    simp only [applyAllPartial, Prod.mk.injEq] at hrun
    rw [← hrun.1]; exact inv
  | cons e rest ih =>
    intro done l l' n n' hp inv rinv hrun
    obtain ⟨p, act⟩ := e
    have hmem : (p, act) ∈ plan := by rw [hp]; simp
    have hdone_mem : ∀ x, x ∈ done → x ∈ plan := fun x hx => by rw [hp]; exact List.mem_append_left _ hx
    have hnotdone : ∀ act', (p, act') ∉ done := by
      intro act' h'
      have hnd' := hnd
      rw [hp, List.map_append, List.nodup_append] at hnd'
      exact hnd'.2.2 p (List.mem_map_of_mem (f := (·.1)) h') p (by simp) rfl
    have uniq := act_unique plan hnd
    have hs : Shape (get A0 p) (get B0 p) act := by rw [hact p act hmem]; exact shape_of_reconcile _ _ _
    obtain ⟨l1, c, happ, rinv'⟩ := run_stepB ge cname A0 B0 z plan hact hnd bc done rest p act l hp rinv
    simp only [applyAllPartial, happ] at hrun
    apply ih (done ++ [(p, act)]) l1 l' _ n' (by rw [hp]; simp) ?_ rinv' hrun
    -- the archive after this entry
    by_cases hcase : ∃ p0 act0, (p0, act0) ∈ plan ∧ ccName ge cname p0 act0 (get A0 p0) (get B0 p0) = some p
    · obtain ⟨p0, act0, hm0, hc0⟩ := hcase
      obtain ⟨xa0, yb0, eA0, eB0, eact0, _⟩ := ccName_some ge cname p0 act0 _ _ p hc0
      obtain ⟨hx0, hy0⟩ := bc.benign p0 act0 p xa0 yb0 hm0 hc0 eA0 eB0
      have hnb : act ≠ .conflict .bothChanged := by
        rw [hact p act hmem]; exact benign_not_both _ _ _ hx0 hy0 _
      have hccnone : ccName ge cname p act (get A0 p) (get B0 p) = none := ccName_none_of_ne ge cname p act _ _ hnb
      -- facts about `common` after the step: everything but p as before; p itself is irrelevant until its conflict runs,
      -- and keeps the loser's record once the conflict has run
      have key : (∀ q, q ≠ p → lookup l1.common q = lookup l.common q) ∧
          ((p0, act0) ∈ done → lookup l1.common p = some (mkFp (loser ge xa0 yb0))) := by
        by_cases hd0 : (p0, act0) ∈ done
        · obtain ⟨xa, yb, e1, e2, hlA, hlB⟩ := rinv.atCopy p0 act0 p hd0 hc0
          rw [eA0] at e1; rw [eB0] at e2; cases e1; cases e2
          obtain ⟨f1, f2⟩ := apply_stale_common ge cname (scan A0) (scan B0) l l1 p act (get A0 p) (get B0 p)
            (loser ge xa0 yb0) hx0 hy0 (lookup_scan A0 p) (lookup_scan B0 p) hs hnb hlA hlB c happ
          refine ⟨f1, fun _ => ?_⟩
          obtain ⟨xa', yb', e1', e2', hC⟩ := inv.atCopy p0 act0 p hd0 hc0
          rw [eA0] at e1'; rw [eB0] at e2'; cases e1'; cases e2'
          rcases f2 with f2 | f2
          · rw [f2]; exact hC
          · exact f2
        · have hpfresh : ¬ touched ge cname A0 B0 done p := by
            rintro (⟨act', h'⟩ | ⟨p', act', h', hc⟩)
            · exact hnotdone act' h'
            · have := bc.distinct p' act' p0 act0 p (hdone_mem _ h') hm0 hc hc0
              subst this
              have : act' = act0 := uniq p' act' act0 (hdone_mem _ h') hm0
              subst this
              exact hd0 h'
          obtain ⟨hxA, hyB⟩ := rinv.untouched p hpfresh
          have hdel : (act = .deleteA → get l.B p = none) ∧ (act = .deleteB → get l.A p = none) := by
            constructor
            · intro e; rw [e] at hs; cases hs with | delA h => rw [hyB]; exact h
            · intro e; rw [e] at hs; cases hs with | delB h => rw [hxA]; exact h
          have hcm := apply_common ge cname _ _ l l1 p act c happ hdel
          obtain ⟨hloc, _, _⟩ := commonStep_lookup ge cname (scan A0) (scan B0) l.common p act
            (get A0 p) (get B0 p) (lookup_scan A0 p) (lookup_scan B0 p) hs (by intro ln h; rw [hccnone] at h; cases h)
          rw [← hcm] at hloc
          exact ⟨fun q hq => hloc q hq (by rw [hccnone]; simp), fun h => absurd h hd0⟩
      obtain ⟨hloc, hkeep⟩ := key
      refine ⟨?_, ?_, ?_⟩
      · intro q hq
        have hq2 : q ≠ p := fun e => hq (Or.inl ⟨act, by simp [e]⟩)
        exact (hloc q hq2).trans (inv.untouched q (touched_append_left ge cname A0 B0 done _ q hq))
      · intro p' act' hm' hnc
        rcases List.mem_append.mp hm' with hm | hm
        · have hne : p' ≠ p := fun e => hnc p0 act0 hm0 (by rw [e]; exact hc0)
          exact (hloc p' hne).trans (inv.atPath p' act' hm hnc)
        · simp only [List.mem_singleton, Prod.mk.injEq] at hm
          exact absurd (by rw [hm.1]; exact hc0) (hnc p0 act0 hm0)
      · intro p' act' ln hm' hc
        rcases List.mem_append.mp hm' with hm | hm
        · obtain ⟨xa, yb, e1, e2, h3⟩ := inv.atCopy p' act' ln hm hc
          by_cases hln : ln = p
          · subst hln
            have := bc.distinct p' act' p0 act0 ln (hdone_mem _ hm) hm0 hc hc0
            subst this
            have : act' = act0 := uniq p' act' act0 (hdone_mem _ hm) hm0
            subst this
            rw [eA0] at e1; rw [eB0] at e2; cases e1; cases e2
            exact ⟨xa0, yb0, eA0, eB0, hkeep hm⟩
          · exact ⟨xa, yb, e1, e2, (hloc ln hln).trans h3⟩
        · simp only [List.mem_singleton, Prod.mk.injEq] at hm
          rw [hm.1, hm.2, hccnone] at hc; cases hc
    · -- an ordinary path: exactly the NoNameClash argument
      have hnocc : ∀ p' act', (p', act') ∈ plan → ccName ge cname p' act' (get A0 p') (get B0 p') ≠ some p :=
        fun p' act' hm hc => hcase ⟨p', act', hm, hc⟩
      have hpfresh : ¬ touched ge cname A0 B0 done p := by
        rintro (⟨act', h'⟩ | ⟨p', act', h', hc⟩)
        · exact hnotdone act' h'
        · exact hnocc p' act' (hdone_mem _ h') hc
      obtain ⟨hxA, hyB⟩ := rinv.untouched p hpfresh
      have hcc : ∀ ln, ccName ge cname p act (get A0 p) (get B0 p) = some ln → ln ≠ p :=
        fun ln hln e => hnocc p act hmem (by rw [e] at hln; exact hln)
      have hdel : (act = .deleteA → get l.B p = none) ∧ (act = .deleteB → get l.A p = none) := by
        constructor
        · intro e; rw [e] at hs; cases hs with | delA h => rw [hyB]; exact h
        · intro e; rw [e] at hs; cases hs with | delB h => rw [hxA]; exact h
      have hcm := apply_common ge cname _ _ l l1 p act c happ hdel
      obtain ⟨hloc, hpath, hcopy⟩ := commonStep_lookup ge cname (scan A0) (scan B0) l.common p act
        (get A0 p) (get B0 p) (lookup_scan A0 p) (lookup_scan B0 p) hs hcc
      rw [← hcm] at hloc hpath hcopy
      refine ⟨?_, ?_, ?_⟩
      · intro q hq
        have hq2 : q ≠ p := fun e => hq (Or.inl ⟨act, by simp [e]⟩)
        have hq3 : ccName ge cname p act (get A0 p) (get B0 p) ≠ some q :=
          fun e => hq (Or.inr ⟨p, act, by simp, e⟩)
        exact (hloc q hq2 hq3).trans (inv.untouched q (touched_append_left ge cname A0 B0 done _ q hq))
      · intro p' act' hm' hnc
        rcases List.mem_append.mp hm' with hm | hm
        · have hne : p' ≠ p := fun e => hnotdone act' (by rw [← e]; exact hm)
          exact (hloc p' hne (hnc p act hmem)).trans (inv.atPath p' act' hm hnc)
        · simp only [List.mem_singleton, Prod.mk.injEq] at hm
          obtain ⟨rfl, rfl⟩ := hm
          exact hpath (hnn _ _ hmem)
      · intro p' act' ln hm' hc
        rcases List.mem_append.mp hm' with hm | hm
        · obtain ⟨xa, yb, e1, e2, h3⟩ := inv.atCopy p' act' ln hm hc
          have hne : ln ≠ p := fun e => hnocc p' act' (hdone_mem _ hm) (by rw [← e]; exact hc)
          have hnc : ccName ge cname p act (get A0 p) (get B0 p) ≠ some ln := by
            intro e
            have := bc.distinct p act p' act' ln hmem (hdone_mem _ hm) e hc
            subst this
            exact hnotdone act' hm
          exact ⟨xa, yb, e1, e2, (hloc ln hne hnc).trans h3⟩
        · simp only [List.mem_singleton, Prod.mk.injEq] at hm
          obtain ⟨rfl, rfl⟩ := hm
          obtain ⟨xa, yb, e1, e2, e3, e4⟩ := ccName_some ge cname p' act' _ _ ln hc
          exact ⟨xa, yb, e1, e2, hcopy ln xa yb e1 e2 e3 e4⟩

end Copia.Bisync
