import Copia.Model.Plan
import Copia.Spec.Glob
/-! Soundness of the `glob_match` loop w.r.t. `Matches` (no fuel bound needed). -/
namespace Copia.Plan

theorem star_drop {q : List Char} : ∀ (k : Nat) (u : List Char), k ≤ u.length →
    Matches q (u.drop k) → Matches ('*' :: q) u
  | 0, u, _, h => by simpa using Matches.star0 h
  | k+1, [], hk, _ => by simp at hk
  | k+1, c :: u, hk, h => by
    have : Matches ('*' :: q) u := star_drop k u (by simpa using hk) (by simpa using h)
    exact Matches.starS this

theorem star_inv {q u : List Char} (h : Matches ('*' :: q) u) :
    ∃ k, k ≤ u.length ∧ Matches q (u.drop k) := by
  generalize hp : ('*' :: q) = p at h
  induction h with
  | nil => cases hp
  | star0 h _ => cases hp; exact ⟨0, by simp, by simpa using h⟩
  | starS h ih =>
    obtain ⟨k, hk, hm⟩ := ih hp
    exact ⟨k+1, by simpa using hk, by simpa using hm⟩
  | any _ _ => cases hp
  | lit hx _ _ _ => cases hp; exact absurd rfl hx

theorem nil_text : ∀ (ps : List Char), (ps.dropWhile (· == '*')).isEmpty = true → Matches ps []
  | [], _ => Matches.nil
  | x :: ps, h => by
    by_cases hx : x = '*'
    · subst hx
      have : (ps.dropWhile (· == '*')).isEmpty = true := by simpa [List.dropWhile] using h
      exact Matches.star0 (nil_text ps this)
    · have : (x == '*') = false := by simpa using hx
      simp [List.dropWhile, this] at h

theorem text_nil {ps : List Char} (h : Matches ps []) : (ps.dropWhile (· == '*')).isEmpty = true := by
  generalize ht : ([] : List Char) = t at h
  induction h with
  | nil => rfl
  | star0 _ ih => simpa [List.dropWhile] using ih ht
  | starS _ _ => cases ht
  | any _ _ => cases ht
  | lit _ _ _ _ => cases ht

def Alt : Back → Prop
  | none => False
  | some (bp, bt) => ∃ k, 1 ≤ k ∧ k ≤ bt.length ∧ Matches bp (bt.drop k)

theorem alt_of_btk {back : Back} {bp bt' : List Char} (hb : btk back = some (bp, bt'))
    (h : Matches bp bt' ∨ Alt (some (bp, bt'))) : Alt back := by
  match back, hb with
  | some (bp0, d :: bt0), hb =>
    simp [btk] at hb
    obtain ⟨rfl, rfl⟩ := hb
    rcases h with hm | ⟨k, hk1, hk2, hm⟩
    · exact ⟨1, by omega, by simp, by simpa using hm⟩
    · exact ⟨k+1, by omega, by simpa using hk2, by simpa using hm⟩

theorem sound : ∀ (fuel : Nat) (ps ts : List Char) (back : Back),
    loop fuel ps ts back = true → Matches ps ts ∨ Alt back
  | 0, _, _, _, h => by simp [loop] at h
  | fuel+1, ps, [], _, h => by
    left; exact nil_text ps (by simpa [loop] using h)
  | fuel+1, [], c :: ts, back, h => by
    right
    unfold loop at h
    split at h
    · next bp bt' hb => exact alt_of_btk hb (sound fuel _ _ _ h)
    · cases h
  | fuel+1, x :: ps', c :: ts, back, h => by
    unfold loop at h
    split at h
    · next hx =>
      subst hx; left
      rcases sound fuel _ _ _ h with hm | ⟨k, _, hk2, hm⟩
      · exact Matches.star0 hm
      · exact star_drop k _ hk2 hm
    · next hx =>
      split at h
      · next hq =>
        rcases sound fuel _ _ _ h with hm | ha
        · left
          rcases hq with hq | hq
          · subst hq; exact Matches.any hm
          · subst hq
            by_cases hq2 : x = '?'
            · subst hq2; exact Matches.any hm
            · exact Matches.lit hx hq2 hm
        · right; exact ha
      · right
        split at h
        · next bp bt' hb => exact alt_of_btk hb (sound fuel _ _ _ h)
        · cases h

end Copia.Plan
