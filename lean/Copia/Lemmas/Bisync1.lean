import Copia.Lemmas.ReconcileTable
import Copia.Model.Bisync
namespace Copia.Bisync
open Copia.Reconcile

variable {P C : Type} [DecidableEq P]

theorem lookup_ins (t : Tree P C) (p q : P) (c : C) :
    lookup (ins t p c) q = if q = p then some c else lookup t q := by
  induction t with
  | nil =>
    by_cases h : q = p
    · subst h; simp [ins, lookup]
    · simp [ins, lookup, h]; exact fun e => absurd e.symm h
  | cons e r ih =>
    obtain ⟨k, d⟩ := e
    unfold ins
    by_cases hk : k = p
    · subst hk
      by_cases h : q = k
      · subst h; simp [lookup]
      · have h' : ¬ k = q := fun e => h e.symm
        simp [lookup, h, h']
    · simp only [hk, if_false]
      by_cases hq : k = q
      · subst hq
        have : ¬ k = p := hk
        simp [lookup, this]
      · simp [lookup, hq, ih]

theorem get_ins (t : Tree P C) (p q : P) (c : C) :
    get (ins t p c) q = if q = p then some c else get t q := lookup_ins t p q c

/-- a path that exists keeps existing through `copy_atomic` into the same tree -/
theorem copyLive_keeps (src dst dst' : Tree P C) (sp dp q : P) (h : copyLive src sp dst dp = some dst')
    (hq : (get dst q).isSome) : (get dst' q).isSome := by
  unfold copyLive at h
  cases hs : get src sp with
  | none => simp [hs] at h
  | some c =>
    simp [hs] at h
    subst h
    rw [get_ins]
    split
    · rfl
    · exact hq

end Copia.Bisync

