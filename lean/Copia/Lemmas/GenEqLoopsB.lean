import Copia.Gen.LoopsBidir
import Copia.Lemmas.GenEqLoopsR
/-!
# `bidir.rs::apply` as translated from the source on this run = the model's `apply`

`Copia.Gen.Loops.apply` is the source function statement by statement (`tools/rs2lean_do.py`): which copy
comes first, what is recorded in `common` and when (after the copy), the re-validation of a planned
delete against the live other side, the three copies of a both-changed conflict in their order, the
early `return Ok(())` when a scanned fingerprint is missing. The model's `apply` is what every bisync
theorem (C02, C06, C07, C08) is about.
-/
namespace Copia.GenEqLoops
open Copia.Reconcile Copia.Bisync Copia.BidirSupport

variable {P C : Type} [DecidableEq P] [DecidableEq C]

theorem fsPut_a (fs : FS P C) (q : P) (c : C) : fsPut fs (Side.a, q) c = (ins fs.1 q c, fs.2) := rfl
theorem fsPut_b (fs : FS P C) (q : P) (c : C) : fsPut fs (Side.b, q) c = (fs.1, ins fs.2 q c) := rfl

theorem apply_eq (ge : C → C → Bool) (cname : P → C → P) (a b : List (P × Fp C)) (l : Live P C) (p : P) (act : Action) :
    Copia.Gen.Loops.apply ge cname a b l p act = Copia.Bisync.apply ge cname a b l p act := by
  obtain ⟨A, B, common⟩ := l
  cases act with
  | noop => rfl
  | convergeIdentical =>
    simp only [Copia.Gen.Loops.apply, Copia.Bisync.apply, cInsOpt]
    cases lookup a p <;> rfl
  | propagateAtoB =>
    simp only [Copia.Gen.Loops.apply, Copia.Bisync.apply, cInsOpt, fsCopy, fsGet, copyLive]
    cases get A p <;> cases lookup a p <;> rfl
  | propagateBtoA =>
    simp only [Copia.Gen.Loops.apply, Copia.Bisync.apply, cInsOpt, fsCopy, fsGet, copyLive]
    cases get B p <;> cases lookup b p <;> rfl
  | deleteA =>
    cases h : get B p <;> simp [Copia.Gen.Loops.apply, Copia.Bisync.apply, fsGet, fsDel, h] <;> rfl
  | deleteB =>
    cases h : get A p <;> simp [Copia.Gen.Loops.apply, Copia.Bisync.apply, fsGet, fsDel, h] <;> rfl
  | conflict k =>
    cases k with
    | deleteVsModify =>
      simp only [Copia.Gen.Loops.apply, Copia.Bisync.apply, cInsOpt, fsCopy, fsGet, copyLive]
      cases lookup a p <;> cases lookup b p <;> cases get A p <;> cases get B p <;> rfl
    | bothChanged =>
      simp only [Copia.Gen.Loops.apply, Copia.Bisync.apply, fsCopy, fsGet, fsPut, copyLive]
      cases ha : lookup a p with
      | none => cases lookup b p <;> rfl
      | some fa =>
        cases hb : lookup b p with
        | none => rfl
        | some fb =>
          cases hg : ge fa.digest fb.digest
          · simp only [hg, Bool.false_eq_true, if_false, fsPut_a, fsPut_b]
            cases h1 : get A p with
            | none => rfl
            | some c1 =>
              simp only [Option.map_some, Option.bind_eq_bind, Option.bind_some, bind, fsPut_a, fsPut_b]
              cases h2 : get (ins A (cname p fa.digest) c1) p with
              | none => rfl
              | some c2 =>
                simp only [Option.map_some, Option.bind_some, fsPut_a, fsPut_b]
                cases h3 : get (ins B (cname p fa.digest) c2) p <;> rfl
          · simp only [hg, if_true, fsPut_a, fsPut_b]
            cases h1 : get B p with
            | none => rfl
            | some c1 =>
              simp only [Option.map_some, Option.bind_eq_bind, Option.bind_some, bind, fsPut_a, fsPut_b]
              cases h2 : get (ins B (cname p fb.digest) c1) p with
              | none => rfl
              | some c2 =>
                simp only [Option.map_some, Option.bind_some, fsPut_a, fsPut_b]
                cases h3 : get (ins A (cname p fb.digest) c2) p <;> rfl

/-- the loop `for (path, act) in &plan { apply(…)?; }` over the world (fs, common, count) = the model's `applyAll` -/
theorem loop_gen (ge : C → C → Bool) (cname : P → C → P) (a b : List (P × Fp C))
    (f : (P × Action) → (FS P C × List (P × Fp C) × Nat) → Option (ForInStep (FS P C × List (P × Fp C) × Nat)))
    (hf : ∀ x s, f x s =
      (Copia.Bisync.apply ge cname a b { A := s.1.1, B := s.1.2, common := s.2.1 } x.1 x.2).bind fun r =>
        if r.2 = true then some (ForInStep.yield ((r.1.A, r.1.B), r.1.common, s.2.2 + 1))
        else some (ForInStep.yield ((r.1.A, r.1.B), r.1.common, s.2.2))) :
    ∀ (plan : List (P × Action)) (A B : Tree P C) (common : List (P × Fp C)) (n : Nat),
    forIn (m := Option) plan ((A, B), common, n) f =
      (applyAll ge cname a b plan { A := A, B := B, common := common } n).map fun r => ((r.1.A, r.1.B), r.1.common, r.2)
  | [], A, B, common, n => rfl
  | (p, act) :: rest, A, B, common, n => by
    rw [List.forIn_cons, hf]
    simp only [applyAll]
    cases h : Copia.Bisync.apply ge cname a b { A := A, B := B, common := common } p act with
    | none => rfl
    | some r =>
      obtain ⟨l', c⟩ := r
      cases c
      · simp only [Option.bind_some, Bool.false_eq_true, if_false, bind]
        exact loop_gen ge cname a b f hf rest l'.A l'.B l'.common n
      · simp only [Option.bind_some, if_true, bind]
        exact loop_gen ge cname a b f hf rest l'.A l'.B l'.common (n + 1)

/-- the section of `run_bisync` from `let plan = reconcile(…)` to `arc.save(&apath)?;`, translated, NOT a dry run:
compute the plan, retain the base entries of paths still present, apply the plan in order — stopping at the first failing
action, BEFORE anything is recorded — and only then record the `common` map built along the way = the model's `applyAll`
of the model's plan from the retained base -/
theorem applyAndRecord_eq (le : P → P → Bool) (ge : C → C → Bool) (cname : P → C → P) (a b base : List (P × Fp C))
    (trust : Bool) (A B : Tree P C) :
    Copia.Gen.Loops.applyAndRecord le ge cname a b base trust false (A, B) =
      (applyAll ge cname a b (Copia.Reconcile.reconcile le a b base trust)
        { A := A, B := B, common := base.filter fun e => (lookup a e.1).isSome || (lookup b e.1).isSome } 0).map
        fun r => ((r.1.A, r.1.B), some r.1.common, r.2) := by
  unfold Copia.Gen.Loops.applyAndRecord
  simp only [apply_eq, bind, pure, Copia.GenEqLoops.reconcile_eq, Bool.false_eq_true, if_false]
  rw [loop_gen ge cname a b _ (fun _ _ => rfl)]
  cases applyAll ge cname a b _ _ 0 <;> rfl

theorem forIn_unit_option {α : Type} (l : List α) (f : α → PUnit → Option (ForInStep PUnit))
    (hf : ∀ x u, f x u = some (ForInStep.yield PUnit.unit)) :
    forIn l PUnit.unit f = some PUnit.unit := by
  induction l with
  | nil => rfl
  | cons x xs ih => simp only [List.forIn_cons, hf, bind, Option.bind_some, ih]

/-- the same section under `--dry-run`: the gate `if opts.dry_run { … return Ok(()); }` stands BEFORE the first action
is applied and before `arc.save` — the trees are the ones it started from and nothing is recorded -/
theorem applyAndRecord_dry (le : P → P → Bool) (ge : C → C → Bool) (cname : P → C → P) (a b base : List (P × Fp C))
    (trust : Bool) (fs : FS P C) :
    Copia.Gen.Loops.applyAndRecord le ge cname a b base trust true fs = some (fs, none, 0) := by
  unfold Copia.Gen.Loops.applyAndRecord
  simp only [bind, pure, if_true]
  rw [forIn_unit_option _ _ (by intro x u; rfl)]
  rfl

end Copia.GenEqLoops
