import Copia.Gen.LoopsDelta
import Copia.Lemmas.GenEqLoops2
/-!
# `AsyncCopiaSync::signature`'s read loops, as translated from the source = the model's `sigLoop`, for EVERY way the bytes arrive

The source fills a block-sized buffer with as many `read`s as it takes (`while bytes_read < block_size`), computes the
block signature of the filled prefix, and goes on until a round reads nothing. The reader of the translation hands out
its bytes in reads of its own choosing (`DeltaSupport.Reader`): the block list does not depend on that choice.
-/
namespace Copia.GenEqLoops
open Copia.Delta Copia.DeltaSupport

variable {D : Type}

/-- the state of the inner loop: reader, buffer, `bytes_read`, "the loop ended by itself" -/
abbrev FillSt := Reader × List Nat × Nat × Bool

def fillStep (bs : Nat) (st : FillSt) : ForInStep FillSt :=
  if (!decide (st.2.2.1 < bs)) = true then ForInStep.done (st.1, st.2.1, st.2.2.1, true)
  else
    match (readInto st.1 (bs - st.2.2.1)).1.length with
    | 0 => ForInStep.done ((readInto st.1 (bs - st.2.2.1)).2, List.take st.2.2.1 st.2.1 ++ (readInto st.1 (bs - st.2.2.1)).1, st.2.2.1, true)
    | n => ForInStep.yield ((readInto st.1 (bs - st.2.2.1)).2, List.take st.2.2.1 st.2.1 ++ (readInto st.1 (bs - st.2.2.1)).1, st.2.2.1 + n, st.2.2.2)

theorem readInto_len (rest caps : List Nat) (room : Nat) (hr : 0 < room) :
    ∃ g, g = (readInto (rest, caps) room).1.length ∧ g ≤ room ∧ g ≤ rest.length ∧ (rest ≠ [] → 0 < g) ∧
      (readInto (rest, caps) room).1 = rest.take g ∧ (readInto (rest, caps) room).2.1 = rest.drop g := by
  unfold readInto
  refine ⟨_, rfl, ?_, ?_, ?_, ?_, ?_⟩
  · simp only [List.length_take]; omega
  · simp only [List.length_take]; omega
  · intro hne
    have : 0 < rest.length := List.length_pos_iff.mpr hne
    simp only [List.length_take]
    cases caps <;> simp <;> omega
  · simp only [List.length_take, Nat.min_assoc, Nat.min_self]
  · simp only [List.length_take, Nat.min_assoc, Nat.min_self]

theorem fillStep_full (bs : Nat) (r : Reader) (buf : List Nat) (br : Nat) (f : Bool) (h : ¬ br < bs) :
    fillStep bs (r, buf, br, f) = ForInStep.done (r, buf, br, true) := by
  simp [fillStep, h]

theorem fillStep_zero (bs : Nat) (r : Reader) (buf : List Nat) (br : Nat) (f : Bool) (h : br < bs)
    (hz : (readInto r (bs - br)).1.length = 0) :
    fillStep bs (r, buf, br, f) = ForInStep.done ((readInto r (bs - br)).2, buf.take br ++ (readInto r (bs - br)).1, br, true) := by
  simp only [fillStep, h, decide_true, Bool.not_true, Bool.false_eq_true, if_false, hz]

theorem fillStep_succ (bs : Nat) (r : Reader) (buf : List Nat) (br : Nat) (f : Bool) (h : br < bs) (m : Nat)
    (hz : (readInto r (bs - br)).1.length = m + 1) :
    fillStep bs (r, buf, br, f) =
      ForInStep.yield ((readInto r (bs - br)).2, buf.take br ++ (readInto r (bs - br)).1, br + (m + 1), f) := by
  simp only [fillStep, h, decide_true, Bool.not_true, Bool.false_eq_true, if_false, hz]

/-- the inner loop fills the buffer's prefix with the next `min (bs - br) |rest|` bytes, whatever the reads deliver -/
theorem fill_spec (bs : Nat) :
    ∀ (fuel : Nat) (rest caps buffer : List Nat) (br : Nat), br ≤ bs → bs - br + 1 ≤ fuel →
      ∃ caps' buf', iter (fillStep bs) fuel ((rest, caps), buffer, br, false) =
          ((rest.drop (min (bs - br) rest.length), caps'), buf', br + min (bs - br) rest.length, true) ∧
        buf'.take (br + min (bs - br) rest.length) = buffer.take br ++ rest.take (min (bs - br) rest.length) := by
  intro fuel
  induction fuel with
  | zero => intro rest caps buffer br h1 h2; omega
  | succ k ih =>
    intro rest caps buffer br h1 h2
    rw [iter]
    by_cases hlt : br < bs
    · obtain ⟨g, hg, hgroom, hglen, hgpos, htake, hdrop⟩ := readInto_len rest caps (bs - br) (by omega)
      cases hz : (readInto (rest, caps) (bs - br)).1.length with
      | zero =>
        have hg0 : g = 0 := by omega
        have hrest : rest = [] := by
          cases rest with
          | nil => rfl
          | cons x xs => have := hgpos (by simp); omega
        subst hrest
        rw [fillStep_zero bs _ _ _ _ hlt hz]
        refine ⟨(readInto ([], caps) (bs - br)).2.2, List.take br buffer ++ (readInto ([], caps) (bs - br)).1, ?_, ?_⟩
        · have : (readInto ([], caps) (bs - br)).2 = ([], (readInto ([], caps) (bs - br)).2.2) := by
            simp [readInto]
          simp only [List.length_nil, Nat.min_zero, List.drop_nil, Nat.add_zero]
          rw [this]
        · rw [htake, hg0]
          simp [List.take_take]
      | succ m =>
        have hgm : g = m + 1 := by omega
        obtain ⟨caps2, hrd⟩ : ∃ c2, (readInto (rest, caps) (bs - br)).2 = (rest.drop g, c2) := ⟨_, by rw [← hdrop]⟩
        rw [fillStep_succ bs _ _ _ _ hlt m hz]
        rw [hrd, htake]
        obtain ⟨caps', buf', hi, hb⟩ := ih (rest.drop g) caps2
          (List.take br buffer ++ List.take g rest) (br + (m + 1)) (by omega) (by omega)
        refine ⟨caps', buf', ?_, ?_⟩
        · dsimp only
          rw [hi]
          simp only [List.length_drop, List.drop_drop]
          have e1 : g + min (bs - (br + (m + 1))) (rest.length - g) = min (bs - br) rest.length := by omega
          have e2 : br + (m + 1) + min (bs - (br + (m + 1))) (rest.length - g) = br + min (bs - br) rest.length := by omega
          rw [e2, ← e1]
        · have e2 : br + (m + 1) + min (bs - (br + (m + 1))) (rest.drop g).length = br + min (bs - br) rest.length := by
            simp only [List.length_drop]; omega
          rw [e2] at hb
          rw [hb]
          have e3 : min (bs - br) rest.length = g + min (bs - (br + (m + 1))) (rest.drop g).length := by
            simp only [List.length_drop]; omega
          have hl : (List.take br buffer ++ List.take g rest).length ≤ br + (m + 1) := by
            simp only [List.length_append, List.length_take]; omega
          rw [List.take_of_length_le hl, e3, List.take_add, List.append_assoc]
    · have hb : br = bs := by omega
      subst hb
      rw [fillStep_full br _ _ _ _ hlt]
      simp only [Nat.sub_self, Nat.zero_min, List.drop_zero, Nat.add_zero, List.take_zero, List.append_nil]
      exact ⟨caps, buffer, rfl, rfl⟩

/-! ## the outer loop -/

/-- state of the outer loop: early return, reader, blocks, buffer, index, file_size, "the loop ended by itself" -/
abbrev OutSt (D : Type) := Option (Option (Nat × List (BlockSig D))) × Reader × List (BlockSig D) × List Nat × Nat × Nat × Bool

/-- one round of the outer loop, given what the inner loop left -/
def outerOf (H : List Nat → D) (s : OutSt D) (r : FillSt) : ForInStep (OutSt D) :=
  if (!r.2.2.2) = true then
    ForInStep.done (some none, r.1, s.2.2.1, r.2.1, s.2.2.2.2.1, s.2.2.2.2.2.1, s.2.2.2.2.2.2)
  else if (r.2.2.1 == 0) = true then
    ForInStep.done (none, r.1, s.2.2.1, r.2.1, s.2.2.2.2.1, s.2.2.2.2.2.1, true)
  else
    ForInStep.yield (none, r.1, s.2.2.1 ++ [Copia.Gen.Loops.blockCompute H s.2.2.2.2.1 (r.2.1.take r.2.2.1)],
      r.2.1, min (s.2.2.2.2.1 + 1) 4294967295, s.2.2.2.2.2.1 + r.2.2.1, s.2.2.2.2.2.2)

def outerStep (H : List Nat → D) (bs fuel : Nat) (s : OutSt D) : ForInStep (OutSt D) :=
  outerOf H s (iter (fillStep bs) fuel (s.2.1, s.2.2.2.1, 0, false))

theorem outerStep_def (H : List Nat → D) (bs fuel : Nat) (s : OutSt D) :
    outerStep H bs fuel s = outerOf H s (iter (fillStep bs) fuel (s.2.1, s.2.2.2.1, 0, false)) := rfl

theorem sigLoop_nil (H : List Nat → D) (bs n i : Nat) : sigLoop H bs n i [] = [] := by
  cases n <;> rfl

theorem sigLoop_fuel2 (H : List Nat → D) (bs : Nat) (hbs : 0 < bs) :
    ∀ (n m i : Nat) (l : List Nat), l.length ≤ n → l.length ≤ m → sigLoop H bs n i l = sigLoop H bs m i l := by
  intro n
  induction n with
  | zero =>
    intro m i l h1 h2
    have : l = [] := List.eq_nil_of_length_eq_zero (by omega)
    subst this
    rw [sigLoop_nil, sigLoop_nil]
  | succ k ih =>
    intro m i l h1 h2
    cases l with
    | nil => rw [sigLoop_nil, sigLoop_nil]
    | cons x xs =>
      cases m with
      | zero => simp at h2
      | succ m' =>
        simp only [sigLoop, List.isEmpty_cons, Bool.false_eq_true, if_false]
        have hd : ((x :: xs).drop bs).length ≤ xs.length := by
          simp only [List.length_drop, List.length_cons]; omega
        simp only [List.length_cons] at h1 h2
        rw [ih m' (i + 1) _ (by omega) (by omega)]

theorem sigLoop_fuel (H : List Nat → D) (bs : Nat) (hbs : 0 < bs) (n i : Nat) (l : List Nat) (h : l.length ≤ n) :
    sigLoop H bs n i l = sigLoop H bs l.length i l :=
  sigLoop_fuel2 H bs hbs n l.length i l h (Nat.le_refl _)

theorem take_min_len (l : List Nat) (n : Nat) : l.take (min n l.length) = l.take n := by
  by_cases h : n ≤ l.length
  · rw [Nat.min_eq_left h]
  · rw [Nat.min_eq_right (by omega), List.take_of_length_le (Nat.le_refl _), List.take_of_length_le (by omega)]

theorem drop_min_len (l : List Nat) (n : Nat) : l.drop (min n l.length) = l.drop n := by
  by_cases h : n ≤ l.length
  · rw [Nat.min_eq_left h]
  · rw [Nat.min_eq_right (by omega), List.drop_of_length_le (Nat.le_refl _), List.drop_of_length_le (by omega)]

/-- the outer loop appends the model's `sigLoop` of what the reader still holds, whatever the reads deliver -/
theorem outer_spec (H : List Nat → D) (bs F : Nat) (hbs : 0 < bs) (hF : bs + 1 ≤ F) :
    ∀ (n : Nat) (rest caps : List Nat) (blocks : List (BlockSig D)) (buffer : List Nat) (index fs : Nat),
      rest.length + 1 ≤ n → index + rest.length ≤ 4294967295 →
      ∃ rd buf idx, iter (outerStep H bs F) n (none, (rest, caps), blocks, buffer, index, fs, false) =
        (none, rd, blocks ++ sigLoop H bs rest.length index rest, buf, idx, fs + rest.length, true) := by
  intro n
  induction n with
  | zero => intro rest caps blocks buffer index fs h; omega
  | succ k ih =>
    intro rest caps blocks buffer index fs h1 h2
    obtain ⟨caps', buf', hi, hb⟩ := fill_spec bs F rest caps buffer 0 (Nat.zero_le _) (by omega)
    simp only [Nat.sub_zero, Nat.zero_add, List.take_zero, List.nil_append] at hi hb
    rw [iter, outerStep_def]
    dsimp only
    rw [hi]
    unfold outerOf
    dsimp only
    cases rest with
    | nil =>
      simp only [List.length_nil, Nat.min_zero, Bool.not_true, Bool.false_eq_true, if_false, BEq.rfl, if_true, sigLoop,
        List.append_nil, Nat.add_zero]
      exact ⟨_, _, _, rfl⟩
    | cons x xs =>
      have hk : 0 < min bs (x :: xs).length := by simp only [List.length_cons]; omega
      have hne : (min bs (x :: xs).length == 0) = false := by
        cases hm : min bs (x :: xs).length with
        | zero => omega
        | succ m => rfl
      simp only [Bool.not_true, Bool.false_eq_true, if_false, hne]
      have hidx : min (index + 1) 4294967295 = index + 1 := by
        simp only [List.length_cons] at h2; omega
      rw [hidx, hb, take_min_len, drop_min_len]
      obtain ⟨rd, buf, idx, hi2⟩ := ih ((x :: xs).drop bs) caps' (blocks ++ [Copia.Gen.Loops.blockCompute H index ((x :: xs).take bs)])
        buf' (index + 1) (fs + min bs (x :: xs).length)
        (by simp only [List.length_drop, List.length_cons] at h1 ⊢; omega)
        (by simp only [List.length_drop, List.length_cons] at h2 ⊢; omega)
      refine ⟨rd, buf, idx, ?_⟩
      rw [hi2]
      have hs : sigLoop H bs (x :: xs).length index (x :: xs) =
          Copia.Gen.Loops.blockCompute H index ((x :: xs).take bs) ::
            sigLoop H bs ((x :: xs).drop bs).length (index + 1) ((x :: xs).drop bs) := by
        simp only [List.length_cons, sigLoop, List.isEmpty_cons, Bool.false_eq_true, if_false]
        rw [sigLoop_fuel H bs hbs xs.length (index + 1) _ (by simp only [List.length_drop, List.length_cons]; omega)]
        rfl
      rw [hs]
      simp only [List.append_assoc, List.singleton_append, List.length_drop, List.length_cons]
      congr 6
      omega

/-- **`AsyncCopiaSync::signature`, translated, computes the model's block list and the input's length — for every way the
reader hands out its bytes** (`caps`), once the fuel covers a block and the input -/
theorem signatureAsync_eq (H : List Nat → D) (bs fuel : Nat) (data caps : List Nat) (hbs : 0 < bs)
    (hf1 : bs + 1 ≤ fuel) (hf2 : data.length + 1 ≤ fuel) (hn : data.length ≤ 4294967295) :
    Copia.Gen.Loops.signatureAsync H fuel bs (data, caps) = some (data.length, sigLoop H bs data.length 0 data) := by
  unfold Copia.Gen.Loops.signatureAsync
  have e := forIn_replicate (outerStep H bs fuel)
  simp only [Id.run, bind, pure] at e ⊢
  rw [e]
  rotate_left
  · intro u s
    have e2 := forIn_replicate (fillStep bs)
    simp only [Id.run, bind, pure] at e2
    rw [e2 _ (by intro u st; rfl)]
    rfl
  obtain ⟨rd, buf, idx, h⟩ := outer_spec H bs fuel hbs hf1 fuel data caps [] [] 0 0 hf2 (by omega)
  rw [h]
  simp

end Copia.GenEqLoops
