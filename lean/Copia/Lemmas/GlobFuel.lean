import Copia.Lemmas.GlobComplete
/-!
# The matcher's loop with its fuel made visible

`loopO` is `Plan.loop` with the three ways a run of the source's first `while` can end kept apart:
`none` = out of fuel, `some none` = the `return false` inside the loop, `some (some ps)` = the loop
condition failed (text used up) with `ps` of the pattern left. `loopO_terminates`: with the fuel
`globMatch` supplies it never runs out — the `while` of the source ends within that many rounds.
-/
namespace Copia.Plan

def loopO : Nat → List Char → List Char → Back → Option (Option (List Char))
  | 0, _, _, _ => none
  | _+1, ps, [], _ => some (some ps)
  | fuel+1, [], _ :: _, back =>
    match btk back with
    | some (bp, bt') => loopO fuel bp bt' (some (bp, bt'))
    | none => some none
  | fuel+1, x :: ps', c :: ts, back =>
    if x = '*' then loopO fuel ps' (c :: ts) (some (ps', c :: ts))
    else if x = '?' ∨ x = c then loopO fuel ps' ts back
    else
      match btk back with
      | some (bp, bt') => loopO fuel bp bt' (some (bp, bt'))
      | none => some none

/-- what `loop` answers, given how `loopO` ended -/
def outcome : Option (List Char) → Bool
  | none => false
  | some ps => (ps.dropWhile (· == '*')).isEmpty

theorem loop_of_loopO : ∀ (fuel : Nat) (ps ts : List Char) (back : Back) (r : Option (List Char)),
    loopO fuel ps ts back = some r → loop fuel ps ts back = outcome r
  | 0, _, _, _, _, h => by simp [loopO] at h
  | fuel+1, ps, [], _, r, h => by
    simp only [loopO, Option.some.injEq] at h; subst h; simp [loop, outcome]
  | fuel+1, [], c :: ts, back, r, h => by
    unfold loopO at h; unfold loop
    cases hb : btk back with
    | none => rw [hb] at h; simp only [Option.some.injEq] at h; subst h; simp [outcome]
    | some v => obtain ⟨bp, bt'⟩ := v; rw [hb] at h; exact loop_of_loopO fuel _ _ _ r h
  | fuel+1, x :: ps', c :: ts, back, r, h => by
    unfold loopO at h; unfold loop
    by_cases hx : x = '*'
    · simp only [hx, if_true] at h ⊢; exact loop_of_loopO fuel _ _ _ r h
    · simp only [hx, if_false] at h ⊢
      by_cases hq : x = '?' ∨ x = c
      · simp only [hq, if_true] at h ⊢; exact loop_of_loopO fuel _ _ _ r h
      · simp only [hq, if_false] at h ⊢
        cases hb : btk back with
        | none => rw [hb] at h; simp only [Option.some.injEq] at h; subst h; simp [outcome]
        | some v => obtain ⟨bp, bt'⟩ := v; rw [hb] at h; exact loop_of_loopO fuel _ _ _ r h

/-- restart from the backtrack point keeps the bounds and lowers the measure -/
theorem restartO {P T fuel : Nat} {ps : List Char} {c : Char} {ts : List Char} {back : Back}
    (ih : ∀ ps ts back, Inv P T ps ts back → meas P T ps ts back ≤ fuel → loopO fuel ps ts back ≠ none)
    (hinv : Inv P T ps (c :: ts) back) (hm : meas P T ps (c :: ts) back ≤ fuel + 1) :
    (match btk back with
      | some (bp, bt') => loopO fuel bp bt' (some (bp, bt'))
      | none => some none) ≠ none := by
  match back, hinv, hm with
  | none, _, _ => simp [btk]
  | some (bp, []), _, _ => simp [btk]
  | some (bp, d :: bt'), ⟨hps, hts, hbp, hbt, _⟩, hm =>
    simp only [btk]
    apply ih
    · exact ⟨hbp, by simp at hbt; omega, hbp, by simp at hbt; omega, [], by simp, by simp, by simp, by simp⟩
    · have : meas P T bp bt' (some (bp, bt')) < meas P T ps (c :: ts) (some (bp, d :: bt')) := by
        unfold meas A
        apply meas_lt
        · simp
        · simp at hbt; omega
      omega

/-- with `meas` fuel the loop never runs out: the source's `while` ends -/
theorem loopO_terminates (P T : Nat) : ∀ (fuel : Nat) (ps ts : List Char) (back : Back),
    Inv P T ps ts back → meas P T ps ts back ≤ fuel → loopO fuel ps ts back ≠ none
  | 0, ps, ts, back, _, hm => by unfold meas at hm; omega
  | fuel+1, ps, [], back, _, _ => by simp [loopO]
  | fuel+1, [], c :: ts, back, hinv, hm => by
    unfold loopO
    exact restartO (loopO_terminates P T fuel) hinv hm
  | fuel+1, x :: ps', c :: ts, back, hinv, hm => by
    unfold loopO
    split
    · next hx =>
      subst hx
      have hps : ps'.length + 1 ≤ P ∧ ts.length + 1 ≤ T := by
        match back, hinv with
        | none, ⟨a, b⟩ => exact ⟨by simpa using a, by simpa using b⟩
        | some _, ⟨a, b, _⟩ => exact ⟨by simpa using a, by simpa using b⟩
      apply loopO_terminates P T fuel
      · exact ⟨by omega, by simpa using hps.2, by omega, by simpa using hps.2, [], by simp, by simp, by simp, by simp⟩
      · have : meas P T ps' (c :: ts) (some (ps', c :: ts)) < meas P T ('*' :: ps') (c :: ts) back := by
          unfold meas
          apply meas_le
          · match back, hinv with
            | none, _ => simp [A]; omega
            | some (bp, bt), ⟨_, _, _, _, seg, _, _, hts, _⟩ =>
              simp only [A]
              have : (c :: ts).length = (bt.drop seg.length).length := by rw [← hts]
              simp at this ⊢; omega
          · simp
        omega
    · next hx =>
      split
      · next hq =>
        apply loopO_terminates P T fuel
        · match back, hinv with
          | none, ⟨a, b⟩ => exact ⟨by simp at a; omega, by simp at b; omega⟩
          | some (bp, bt), ⟨a, b, a', b', seg, hseg, hstar, hts, hlen⟩ =>
            refine ⟨by simp at a; omega, by simp at b; omega, a', b', seg ++ [x], by simp [hseg], ?_, ?_, ?_⟩
            · intro c' hc'; simp at hc'; rcases hc' with hc' | hc'
              · exact hstar c' hc'
              · subst hc'; exact hx
            · have : ts = (c :: ts).drop 1 := by simp
              rw [this, hts, List.drop_drop]; simp
            · have : (c :: ts).length = (bt.drop seg.length).length := by rw [← hts]
              simp at this ⊢; omega
        · have : meas P T ps' ts back < meas P T (x :: ps') (c :: ts) back := by
            unfold meas; apply meas_le (Nat.le_refl _); simp; omega
          omega
      · next hq => exact restartO (loopO_terminates P T fuel) hinv hm

/-- the fuel `globMatch` supplies is enough -/
theorem loopO_globMatch_fuel (p t : List Char) :
    loopO ((t.length + 2) * (p.length + t.length + 2)) p t none ≠ none := by
  have hinv : Inv p.length t.length p t none := ⟨Nat.le_refl _, Nat.le_refl _⟩
  apply loopO_terminates p.length t.length _ p t none hinv
  unfold meas A
  have h1 : (t.length + 1) * (p.length + t.length + 1) ≤ (t.length + 1) * (p.length + t.length + 2) :=
    Nat.mul_le_mul_left _ (by omega)
  have h2 : (t.length + 2) * (p.length + t.length + 2) = (t.length + 1) * (p.length + t.length + 2) + (p.length + t.length + 2) := by
    rw [show t.length + 2 = (t.length + 1) + 1 from rfl, Nat.add_mul, Nat.one_mul]
  generalize (t.length + 1) * (p.length + t.length + 1) = X at *
  generalize (t.length + 1) * (p.length + t.length + 2) = Y at *
  omega

end Copia.Plan
