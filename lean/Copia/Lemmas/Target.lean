import Copia.Model.Target
import Copia.Lemmas.Meta2
namespace Copia.Target
open Copia.Meta (cut cut_append)

theorem cut_none_of_not_mem (sep : Char) (s : List Char) (h : sep ∉ s) : cut sep s = none := by
  induction s with
  | nil => rfl
  | cons c cs ih =>
    have hc : c ≠ sep := fun e => h (by simp [e])
    have hcs : sep ∉ cs := fun e => h (by simp [e])
    simp [cut, hc, ih hcs]

/-- `cut` splits at the FIRST separator -/
theorem cut_spec (sep : Char) : ∀ (t h r : List Char), cut sep t = some (h, r) → t = h ++ sep :: r ∧ sep ∉ h
  | [], h, r, hc => by simp [cut] at hc
  | c :: cs, h, r, hc => by
    by_cases e : c = sep
    · simp [cut, e] at hc; obtain ⟨rfl, rfl⟩ := hc; simp [e]
    · simp only [cut, e, if_false] at hc
      cases h2 : cut sep cs with
      | none => rw [h2] at hc; cases hc
      | some w =>
        rw [h2] at hc
        obtain ⟨a, b⟩ := w
        simp only [Option.some.injEq, Prod.mk.injEq] at hc
        obtain ⟨rfl, rfl⟩ := hc
        obtain ⟨e1, e2⟩ := cut_spec sep cs a b h2
        exact ⟨by simp [e1], by simp [e2, Ne.symm e]⟩

end Copia.Target
