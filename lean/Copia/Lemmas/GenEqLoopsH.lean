import Copia.Gen.LoopsHub
/-!
# `serve.rs::safe_join` as translated from the source on this run = the model's `safeJoin`

The source walks `Path::components()` once, with a flag for "no `Normal` component seen yet"; the model states the
same test as two predicates on the component list (`reservedFirst`, `safeJoinPath`). C11's theorems are about the model.
-/
namespace Copia.GenEqLoops
open Copia.Hub

abbrev JSt := Option (Option (List Char)) × Bool

def isBad (c : Comp) : Bool := decide (c = Comp.parentDir ∨ c = Comp.rootDir)

def resv (cs : List Comp) : Bool :=
  match cs.find? (fun c => match c with | Comp.normal _ => true | _ => false) with
  | some (Comp.normal s) => decide (s = ".copia".toList)
  | _ => false

theorem join_loop (f : Comp → JSt → Id (ForInStep JSt))
    (hf : ∀ c s, f c s = match c with
      | Comp.parentDir => pure (ForInStep.done (some none, s.2))
      | Comp.rootDir => pure (ForInStep.done (some none, s.2))
      | Comp.normal name =>
        if (s.2 && name == ".copia".toList) = true then pure (ForInStep.done (some none, s.2)) else pure (ForInStep.yield (none, false))
      | Comp.curDir => pure (ForInStep.yield (none, s.2))) :
    ∀ (cs : List Comp) (fn : Bool),
      (forIn (m := Id) cs ((none, fn) : JSt) f).1 = if (cs.any isBad || (fn && resv cs)) = true then some none else none
  | [], fn => by simp [resv]; rfl
  | Comp.parentDir :: t, fn => by
    rw [List.forIn_cons, hf]; simp [isBad]; rfl
  | Comp.rootDir :: t, fn => by
    rw [List.forIn_cons, hf]; simp [isBad]; rfl
  | Comp.curDir :: t, fn => by
    rw [List.forIn_cons, hf]
    simp only [pure_bind]
    rw [join_loop f hf t fn]
    simp [isBad, resv, List.find?]
  | Comp.normal name :: t, fn => by
    rw [List.forIn_cons, hf]
    have e1 : resv (Comp.normal name :: t) = decide (name = ".copia".toList) := rfl
    have e0 : isBad (Comp.normal name) = false := by simp [isBad]
    by_cases h : (fn && name == ".copia".toList) = true
    · simp only [h, if_true, pure_bind]
      have h' : (fn && resv (Comp.normal name :: t)) = true := by
        rw [e1]
        simp only [Bool.and_eq_true, beq_iff_eq, decide_eq_true_eq] at h ⊢
        exact h
      rw [h', Bool.or_true]
      rfl
    · simp only [h, if_false, pure_bind, Bool.false_eq_true]
      rw [join_loop f hf t false]
      have h' : (fn && resv (Comp.normal name :: t)) = false := by
        rw [e1]
        cases hfn : fn
        · rfl
        · rw [hfn] at h
          simp only [Bool.true_and, beq_iff_eq] at h
          simp only [Bool.true_and, decide_eq_false_iff_not]
          exact h
      rw [h', List.any_cons, e0, Bool.false_or, Bool.false_and, Bool.or_false]

theorem safeJoin_eq (root rel : List Char) : Copia.Gen.Loops.safeJoin root rel = Copia.Hub.safeJoin root rel := by
  unfold Copia.Gen.Loops.safeJoin Copia.Hub.safeJoin Copia.Hub.safeJoinPath
  have e := join_loop
  simp only [Id.run, bind, pure, id] at e ⊢
  rw [e _ (by intro c s; cases c <;> rfl)]
  have hr : reservedFirst rel = resv (components rel) := rfl
  have hb : ((components rel).any fun c => decide (c = Comp.parentDir ∨ c = Comp.rootDir)) = (components rel).any isBad := rfl
  rw [hr, hb]
  by_cases h1 : rel.head? = some '/'
  · simp [h1]
  · have : (rel.head? == some '/') = false := by simp [h1]
    simp only [this, Bool.false_eq_true, if_false, h1, Bool.true_and]
    cases (components rel).any isBad <;> cases resv (components rel) <;> simp

end Copia.GenEqLoops
