import Copia.Lemmas.Bisync9
namespace Copia.Bisync
open Copia.Reconcile

variable {P C : Type} [DecidableEq P] [DecidableEq C]

/-- the archive being built after the prefix `done` of the plan, relative to its initial value `m0` -/
structure ArchInv (ge : C → C → Bool) (cname : P → C → P) (A0 B0 : Tree P C) (m0 : List (P × Fp C))
    (done : List (P × Action)) (m : List (P × Fp C)) : Prop where
  untouched : ∀ q, ¬ touched ge cname A0 B0 done q → lookup m q = lookup m0 q
  atPath : ∀ p act, (p, act) ∈ done →
    lookup m p = (resolve ge act (get A0 p) (get B0 p)).1.map mkFp
  atCopy : ∀ p act ln, (p, act) ∈ done → ccName ge cname p act (get A0 p) (get B0 p) = some ln →
    ∃ xa yb, get A0 p = some xa ∧ get B0 p = some yb ∧ lookup m ln = some (mkFp (loser ge xa yb))

theorem run_arch (ge : C → C → Bool) (cname : P → C → P) (A0 B0 : Tree P C) (z : P → Option (Fp C))
    (m0 : List (P × Fp C)) (plan : List (P × Action))
    (hact : ∀ p act, (p, act) ∈ plan → act = reconcilePath ((get A0 p).map mkFp) ((get B0 p).map mkFp) (z p))
    (hnn : ∀ p act, (p, act) ∈ plan → act ≠ .noop)
    (hlive : ∀ p act, (p, act) ∈ plan → get A0 p ≠ none ∨ get B0 p ≠ none)
    (hnd : (plan.map (·.1)).Nodup) (nnc : NoNameClash ge cname A0 B0 plan) :
    ∀ (todo done : List (P × Action)) (l l' : Live P C) (n n' : Nat), plan = done ++ todo →
      ArchInv ge cname A0 B0 m0 done l.common → RunInv ge cname A0 B0 done l →
      applyAllPartial ge cname (scan A0) (scan B0) todo l n = (l', n', true) →
      ArchInv ge cname A0 B0 m0 plan l'.common := by
  intro todo
  induction todo with
  | nil =>
    intro done l l' n n' hp inv _ hrun
    simp only [List.append_nil] at hp
    subst hp
    simp only [applyAllPartial, Prod.mk.injEq] at hrun
    rw [← hrun.1]; exact inv
  | cons e rest ih =>
    intro done l l' n n' hp inv rinv hrun
    obtain ⟨p, act⟩ := e
    have hmem : (p, act) ∈ plan := by rw [hp]; simp
    have hdone_mem : ∀ x, x ∈ done → x ∈ plan := fun x hx => by rw [hp]; exact List.mem_append_left _ hx
    have hpfresh : ¬ touched ge cname A0 B0 done p := by
      rintro (⟨act', h'⟩ | ⟨p', act', h', hc⟩)
      · rw [hp, List.map_append, List.nodup_append] at hnd
        exact hnd.2.2 p (List.mem_map_of_mem (f := (·.1)) h') p (by simp) rfl
      · have := nnc.notLive p' act' p (hdone_mem _ h') hc
        rcases hlive p act hmem with h1 | h1
        · exact h1 this.1
        · exact h1 this.2
    have hcc : ∀ ln, ccName ge cname p act (get A0 p) (get B0 p) = some ln → ln ≠ p := by
      intro ln hln e
      have := nnc.notLive p act ln hmem hln
      rw [e] at this
      rcases hlive p act hmem with h1 | h1
      · exact h1 this.1
      · exact h1 this.2
    have hs : Shape (get A0 p) (get B0 p) act := by
      rw [hact p act hmem]; exact shape_of_reconcile _ _ _
    simp only [applyAllPartial] at hrun
    cases happ : apply ge cname (scan A0) (scan B0) l p act with
    | none => rw [happ] at hrun; simp at hrun
    | some r =>
      obtain ⟨l1, c⟩ := r
      rw [happ] at hrun
      simp only [] at hrun
      obtain ⟨l1', c', happ', rinv', hxA, hyB⟩ :=
        run_step ge cname A0 B0 z plan hact hlive hnd nnc done rest p act l hp rinv
      have hl1 : l1' = l1 := by rw [happ] at happ'; cases happ'; rfl
      subst hl1
      have hdel : (act = .deleteA → get l.B p = none) ∧ (act = .deleteB → get l.A p = none) := by
        constructor
        · intro e; rw [e] at hs; cases hs with | delA h => rw [hyB]; exact h
        · intro e; rw [e] at hs; cases hs with | delB h => rw [hxA]; exact h
      have hcm := apply_common ge cname _ _ l l1' p act c happ hdel
      obtain ⟨hloc, hpath, hcopy⟩ := commonStep_lookup ge cname (scan A0) (scan B0) l.common p act
        (get A0 p) (get B0 p) (lookup_scan A0 p) (lookup_scan B0 p) hs hcc
      rw [← hcm] at hloc hpath hcopy
      apply ih (done ++ [(p, act)]) l1' l' _ n' (by rw [hp]; simp) ?_ rinv' hrun
      refine ⟨?_, ?_, ?_⟩
      · intro q hq
        have hq1 : ¬ touched ge cname A0 B0 done q := by
          rintro (⟨a', h'⟩ | ⟨p', a', h', hc⟩)
          · exact hq (Or.inl ⟨a', List.mem_append_left _ h'⟩)
          · exact hq (Or.inr ⟨p', a', List.mem_append_left _ h', hc⟩)
        have hq2 : q ≠ p := fun e => hq (Or.inl ⟨act, by simp [e]⟩)
        have hq3 : ccName ge cname p act (get A0 p) (get B0 p) ≠ some q :=
          fun e => hq (Or.inr ⟨p, act, by simp, e⟩)
        exact (hloc q hq2 hq3).trans (inv.untouched q hq1)
      · intro p' act' hm0
        rcases List.mem_append.mp hm0 with hm | hm
        · have hne : p' ≠ p := by
            intro e; rw [e] at hm; exact hpfresh (Or.inl ⟨act', hm⟩)
          have hnc : ccName ge cname p act (get A0 p) (get B0 p) ≠ some p' := by
            intro e
            have := nnc.notLive p act p' hmem e
            rcases hlive p' act' (hdone_mem _ hm) with h1 | h1
            · exact h1 this.1
            · exact h1 this.2
          exact (hloc p' hne hnc).trans (inv.atPath p' act' hm)
        · simp only [List.mem_singleton, Prod.mk.injEq] at hm
          obtain ⟨rfl, rfl⟩ := hm
          exact hpath (hnn _ _ hmem)
      · intro p' act' ln hm0 hc
        rcases List.mem_append.mp hm0 with hm | hm
        · obtain ⟨xa, yb, e1, e2, h3⟩ := inv.atCopy p' act' ln hm hc
          have hne : ln ≠ p := by
            intro e
            have := nnc.notLive p' act' ln (hdone_mem _ hm) hc
            rw [e] at this
            rcases hlive p act hmem with h1 | h1
            · exact h1 this.1
            · exact h1 this.2
          have hnc : ccName ge cname p act (get A0 p) (get B0 p) ≠ some ln := by
            intro e
            have := nnc.distinct p act p' act' ln hmem (hdone_mem _ hm) e hc
            rw [← this] at hm
            exact hpfresh (Or.inl ⟨act', hm⟩)
          exact ⟨xa, yb, e1, e2, (hloc ln hne hnc).trans h3⟩
        · simp only [List.mem_singleton, Prod.mk.injEq] at hm
          obtain ⟨rfl, rfl⟩ := hm
          obtain ⟨xa, yb, e1, e2, e3, e4⟩ := ccName_some ge cname p' act' _ _ ln hc
          exact ⟨xa, yb, e1, e2, hcopy ln xa yb e1 e2 e3 e4⟩

/-- when `reconcile_path` says no-op, either nothing is there or both sides equal the base -/
theorem noop_base (x y : Option C) (z : Option (Fp C))
    (h : reconcilePath (x.map mkFp) (y.map mkFp) z = .noop) :
    (x = none ∧ y = none) ∨ (x.isSome ∧ z = x.map mkFp) := by
  cases x with
  | none =>
    cases y with
    | none => exact Or.inl ⟨rfl, rfl⟩
    | some yb =>
      cases z with
      | none => simp [reconcilePath] at h
      | some zv => simp only [reconcilePath, Option.map_some, Option.map_none] at h; split at h <;> cases h
  | some xa =>
    right
    cases y with
    | none =>
      cases z with
      | none => simp [reconcilePath] at h
      | some zv => simp only [reconcilePath, Option.map_some, Option.map_none] at h; split at h <;> cases h
    | some yb =>
      simp only [reconcilePath, Option.map_some, same_mkFp] at h
      by_cases hxy : xa = yb
      · subst hxy
        simp only [decide_true, if_true] at h
        split at h
        · next zv =>
          split at h
          · next hs =>
            rw [Fp.same_eq_decide] at hs
            simp at hs
            simp [hs]
          · cases h
        · cases h
      · simp only [hxy, decide_false, Bool.false_eq_true, if_false] at h
        cases z with
        | none => simp at h
        | some zv =>
          simp only [] at h
          cases h1 : !Fp.same (mkFp xa) zv <;> cases h2 : !Fp.same (mkFp yb) zv <;> simp [h1, h2] at h

end Copia.Bisync
