import Copia.Gen.LoopsHubSync
/-!
# `hub.rs::hub_sync`'s push loop as translated from the source on this run = the model's `hubSync` fold
-/
namespace Copia.GenEqLoops
open Copia.Hub Copia.HubSync

variable {H : Type} [DecidableEq H]

abbrev HSt := HTree × Nat × Nat × Nat

def hview (s : HSt) : HTree × Counters := (s.1, { sent := s.2.1, skipped := s.2.2.1, conflicts := s.2.2.2 })

theorem push_loop (hash : Bytes → H) (cname : HTree → List (List Char) → H → List (List Char))
    (listing : List (List Char) → Option H)
    (f : (List (List Char) × Bytes) → HSt → Id (ForInStep HSt))
    (hf : ∀ x s, f x s =
      if (listing x.1 == some (hash x.2)) = true then pure (ForInStep.yield (s.1, s.2.1, s.2.2.1 + 1, s.2.2.2))
      else if (casPut hash cname s.1 x.1 (listing x.1) x.2).2 = true then
        pure (ForInStep.yield ((casPut hash cname s.1 x.1 (listing x.1) x.2).1, s.2.1 + 1, s.2.2.1, s.2.2.2))
      else pure (ForInStep.yield ((casPut hash cname s.1 x.1 (listing x.1) x.2).1, s.2.1, s.2.2.1, s.2.2.2 + 1))) :
    ∀ (files : List (List (List Char) × Bytes)) (s : HSt),
      hview (forIn (m := Id) files s f) = files.foldl (syncFile hash cname listing) (hview s)
  | [], s => rfl
  | x :: t, s => by
    rw [List.forIn_cons, hf, List.foldl_cons]
    by_cases h1 : listing x.1 = some (hash x.2)
    · have : (listing x.1 == some (hash x.2)) = true := by simp [h1]
      simp only [this, if_true, pure_bind]
      rw [push_loop hash cname listing f hf t _]
      simp [hview, syncFile, h1]
    · have : (listing x.1 == some (hash x.2)) = false := by simp [h1]
      simp only [this, Bool.false_eq_true, if_false]
      by_cases h2 : (casPut hash cname s.1 x.1 (listing x.1) x.2).2 = true
      · simp only [h2, if_true, pure_bind]
        rw [push_loop hash cname listing f hf t _]
        simp [hview, syncFile, h1, h2]
      · simp only [h2, if_false, pure_bind, Bool.false_eq_true]
        rw [push_loop hash cname listing f hf t _]
        simp [hview, syncFile, h1, h2]

theorem pushLoop_eq (hash : Bytes → H) (cname : HTree → List (List Char) → H → List (List Char))
    (listing : List (List Char) → Option H) (t : HTree) (files : List (List (List Char) × Bytes)) :
    Copia.Gen.Loops.pushLoop hash cname listing t files = files.foldl (syncFile hash cname listing) (t, {}) := by
  unfold Copia.Gen.Loops.pushLoop
  have e := push_loop hash cname listing
  simp only [Id.run, bind, pure] at e ⊢
  have := e _ (by intro x s; rfl) files (t, 0, 0, 0)
  simp only [hview] at this
  exact this

end Copia.GenEqLoops
