import Copia.Lemmas.HubRefine
namespace Copia.HubConc

/-- the published inode of a non-staging path is untouched by writes to a staging inode in use -/
theorem pub_ino_ne {S init s} (wf : WF S) (inv : Inv S init s) {i fd p n}
    (hi : fdOf (s.pc i) = some fd) (hp : S.staging p = false) (hd : s.dir p = some n) : n ≠ fd := by
  intro e; subst e; exact fd_not_pub wf inv hi hp hd

theorem linv_step {S init s s'} (wf : WF S) (inv : Inv S init s) (li : LInv S s) (st : Step S s s') :
    LInv S s' := by
  have hold : ∀ j, holds (s.pc j) = true → s.lock = some j := li.holder
  -- generic: if the new pc/lock keep the holder discipline and every `decided` observation stays current
  cases st with
  | createFresh i h hn =>
    refine ⟨?_, ?_, ?_⟩
    · intro j hj
      by_cases e : j = i
      · subst e; simp [upd, holds] at hj
      · simp only [upd, e, if_false] at hj; exact hold j hj
    · intro j fd c hj
      by_cases e : j = i
      · subst e; simp [upd] at hj
      · simp only [upd, e, if_false] at hj
        have := li.cur j fd c hj
        rw [this]
        have hns : (S.req j).dst ≠ S.tmpOf i (S.req i).dst := by
          intro e2; have := wf.tmp_staging i (S.req i).dst; rw [← e2, wf.dst_ns j] at this; cases this
        simp only [upd, hns, if_false]
        cases hd : s.dir (S.req j).dst with
        | none => rfl
        | some n =>
          have hlt := inv.fresh _ _ hd
          have hne : n ≠ s.next := Nat.ne_of_lt hlt
          simp [hne]
    · intro j c hj
      by_cases e : j = i
      · subst e; simp [upd] at hj
      · simp only [upd, e, if_false] at hj
        have := li.dcur j c hj
        rw [this]
        have hns : (S.req j).dst ≠ S.tmpOf i (S.req i).dst := by
          intro e2; have := wf.tmp_staging i (S.req i).dst; rw [← e2, wf.dst_ns j] at this; cases this
        simp only [upd, hns, if_false]
        cases hd : s.dir (S.req j).dst with
        | none => rfl
        | some n =>
          have hlt := inv.fresh _ _ hd
          have hne : n ≠ s.next := Nat.ne_of_lt hlt
          simp [hne]
  | createTrunc i n h hn =>
    refine ⟨?_, ?_, ?_⟩
    · intro j hj
      by_cases e : j = i
      · subst e; simp [upd, holds] at hj
      · simp only [upd, e, if_false] at hj; exact hold j hj
    · intro j fd c hj
      by_cases e : j = i
      · subst e; simp [upd] at hj
      · simp only [upd, e, if_false] at hj
        rw [li.cur j fd c hj]
        cases hd : s.dir (S.req j).dst with
        | none => rfl
        | some m =>
          have hne : m ≠ n := by
            intro e2; subst e2
            have := inv.inj _ _ _ hd hn
            have hs := wf.tmp_staging i (S.req i).dst
            rw [← this, wf.dst_ns j] at hs; cases hs
          simp [upd, hne]
    · intro j c hj
      by_cases e : j = i
      · subst e; simp [upd] at hj
      · simp only [upd, e, if_false] at hj
        rw [li.dcur j c hj]
        cases hd : s.dir (S.req j).dst with
        | none => rfl
        | some m =>
          have hne : m ≠ n := by
            intro e2; subst e2
            have := inv.inj _ _ _ hd hn
            have hs := wf.tmp_staging i (S.req i).dst
            rw [← this, wf.dst_ns j] at hs; cases hs
          simp [upd, hne]
  | write i fd k c h hc =>
    have hfd : fdOf (s.pc i) = some fd := by rw [h]; rfl
    refine ⟨?_, ?_, ?_⟩
    · intro j hj
      by_cases e : j = i
      · subst e; simp [upd, holds] at hj
      · simp only [upd, e, if_false] at hj; exact hold j hj
    · intro j fj cj hj
      by_cases e : j = i
      · subst e; simp [upd] at hj
      · simp only [upd, e, if_false] at hj
        rw [li.cur j fj cj hj]
        cases hd : s.dir (S.req j).dst with
        | none => rfl
        | some m =>
          have hne := pub_ino_ne wf inv hfd (wf.dst_ns j) hd
          simp [upd, hne]
    · intro j cj hj
      by_cases e : j = i
      · subst e; simp [upd] at hj
      · simp only [upd, e, if_false] at hj
        rw [li.dcur j cj hj]
        cases hd : s.dir (S.req j).dst with
        | none => rfl
        | some m =>
          have hne := pub_ino_ne wf inv hfd (wf.dst_ns j) hd
          simp [upd, hne]
  | verifyOk i fd k h hk hh =>
    refine ⟨?_, ?_, ?_⟩
    · intro j hj
      by_cases e : j = i
      · subst e; simp [upd, holds] at hj
      · simp only [upd, e, if_false] at hj; exact hold j hj
    · intro j fj cj hj
      by_cases e : j = i
      · subst e; simp [upd] at hj
      · simp only [upd, e, if_false] at hj; exact li.cur j fj cj hj
    · intro j cj hj
      by_cases e : j = i
      · subst e; simp [upd] at hj
      · simp only [upd, e, if_false] at hj; exact li.dcur j cj hj
  | verifyBad i fd k h hk hh =>
    refine ⟨?_, ?_, ?_⟩
    · intro j hj
      by_cases e : j = i
      · subst e; simp [upd, holds] at hj
      · simp only [upd, e, if_false] at hj; exact hold j hj
    · intro j fj cj hj
      by_cases e : j = i
      · subst e; simp [upd] at hj
      · simp only [upd, e, if_false] at hj
        rw [li.cur j fj cj hj]
        have hns : (S.req j).dst ≠ S.tmpOf i (S.req i).dst := by
          intro e2; have := wf.tmp_staging i (S.req i).dst; rw [← e2, wf.dst_ns j] at this; cases this
        simp [upd, hns]
    · intro j cj hj
      by_cases e : j = i
      · subst e; simp [upd] at hj
      · simp only [upd, e, if_false] at hj
        rw [li.dcur j cj hj]
        have hns : (S.req j).dst ≠ S.tmpOf i (S.req i).dst := by
          intro e2; have := wf.tmp_staging i (S.req i).dst; rw [← e2, wf.dst_ns j] at this; cases this
        simp [upd, hns]
  | lock i fd h hl =>
    refine ⟨?_, ?_, ?_⟩
    · intro j hj
      by_cases e : j = i
      · subst e; rfl
      · simp only [upd, e, if_false] at hj
        have := hold j hj; rw [hl] at this; cases this
    · intro j fj cj hj
      by_cases e : j = i
      · subst e; simp [upd] at hj
      · simp only [upd, e, if_false] at hj; exact li.cur j fj cj hj
    · intro j cj hj
      by_cases e : j = i
      · subst e; simp [upd] at hj
      · simp only [upd, e, if_false] at hj; exact li.dcur j cj hj
  | readCur i fd h =>
    refine ⟨?_, ?_, ?_⟩
    · intro j hj
      by_cases e : j = i
      · subst e; exact hold j (by rw [h]; rfl)
      · simp only [upd, e, if_false] at hj; exact hold j hj
    · intro j fj cj hj
      by_cases e : j = i
      · subst e; simp [upd] at hj; exact hj.2.symm
      · simp only [upd, e, if_false] at hj; exact li.cur j fj cj hj
    · intro j cj hj
      by_cases e : j = i
      · subst e; simp [upd] at hj
      · simp only [upd, e, if_false] at hj; exact li.dcur j cj hj
  | commit i fd cur h hc =>
    have hli : s.lock = some i := hold i (by rw [h]; rfl)
    refine ⟨?_, ?_, ?_⟩
    · intro j hj
      by_cases e : j = i
      · subst e; exact hli
      · simp only [upd, e, if_false] at hj; exact hold j hj
    · intro j fj cj hj
      by_cases e : j = i
      · subst e; simp [upd] at hj
      · simp only [upd, e, if_false] at hj
        have := hold j (by rw [hj]; rfl)
        rw [hli] at this; cases this; exact absurd rfl e
    · intro j cj hj
      by_cases e : j = i
      · subst e; simp [upd] at hj
      · simp only [upd, e, if_false] at hj
        have := hold j (by rw [hj]; rfl)
        rw [hli] at this; cases this; exact absurd rfl e
  | conflict i fd cur h hc =>
    have hli : s.lock = some i := hold i (by rw [h]; rfl)
    refine ⟨?_, ?_, ?_⟩
    · intro j hj
      by_cases e : j = i
      · subst e; exact hli
      · simp only [upd, e, if_false] at hj; exact hold j hj
    · intro j fj cj hj
      by_cases e : j = i
      · subst e; simp [upd] at hj
      · simp only [upd, e, if_false] at hj
        have := hold j (by rw [hj]; rfl)
        rw [hli] at this; cases this; exact absurd rfl e
    · intro j cj hj
      by_cases e : j = i
      · subst e; simp [upd] at hj
      · simp only [upd, e, if_false] at hj
        have := hold j (by rw [hj]; rfl)
        rw [hli] at this; cases this; exact absurd rfl e
  | unlock i h =>
    have hli : s.lock = some i := hold i (by rw [h]; rfl)
    refine ⟨?_, ?_, ?_⟩
    · intro j hj
      by_cases e : j = i
      · subst e; simp [upd, holds] at hj
      · simp only [upd, e, if_false] at hj
        have := hold j hj
        rw [hli] at this; cases this; exact absurd rfl e
    · intro j fj cj hj
      by_cases e : j = i
      · subst e; simp [upd] at hj
      · simp only [upd, e, if_false] at hj; exact li.cur j fj cj hj
    · intro j cj hj
      by_cases e : j = i
      · subst e; simp [upd] at hj
      · simp only [upd, e, if_false] at hj; exact li.dcur j cj hj
  | kill i =>
    refine ⟨?_, ?_, ?_⟩
    · intro j hj
      by_cases e : j = i
      · subst e; simp [upd, holds] at hj
      · simp only [upd, e, if_false] at hj
        have := hold j hj
        simp [this, e]
    · intro j fj cj hj
      by_cases e : j = i
      · subst e; simp [upd] at hj
      · simp only [upd, e, if_false] at hj; exact li.cur j fj cj hj
    · intro j cj hj
      by_cases e : j = i
      · subst e; simp [upd] at hj
      · simp only [upd, e, if_false] at hj; exact li.dcur j cj hj
  | dLock i h hl =>
    refine ⟨?_, ?_, ?_⟩
    · intro j hj
      by_cases e : j = i
      · subst e; rfl
      · simp only [upd, e, if_false] at hj
        have := hold j hj; rw [hl] at this; cases this
    · intro j fj cj hj
      by_cases e : j = i
      · subst e; simp [upd] at hj
      · simp only [upd, e, if_false] at hj; exact li.cur j fj cj hj
    · intro j cj hj
      by_cases e : j = i
      · subst e; simp [upd] at hj
      · simp only [upd, e, if_false] at hj; exact li.dcur j cj hj
  | dRead i h =>
    refine ⟨?_, ?_, ?_⟩
    · intro j hj
      by_cases e : j = i
      · subst e; exact hold j (by rw [h]; rfl)
      · simp only [upd, e, if_false] at hj; exact hold j hj
    · intro j fj cj hj
      by_cases e : j = i
      · subst e; simp [upd] at hj
      · simp only [upd, e, if_false] at hj; exact li.cur j fj cj hj
    · intro j cj hj
      by_cases e : j = i
      · subst e; simp [upd] at hj; exact hj.symm
      · simp only [upd, e, if_false] at hj; exact li.dcur j cj hj
  | dUnlink i cur h hc =>
    have hli : s.lock = some i := hold i (by rw [h]; rfl)
    refine ⟨?_, ?_, ?_⟩
    · intro j hj
      by_cases e : j = i
      · subst e; exact hli
      · simp only [upd, e, if_false] at hj; exact hold j hj
    · intro j fj cj hj
      by_cases e : j = i
      · subst e; simp [upd] at hj
      · simp only [upd, e, if_false] at hj
        have := hold j (by rw [hj]; rfl)
        rw [hli] at this; cases this; exact absurd rfl e
    · intro j cj hj
      by_cases e : j = i
      · subst e; simp [upd] at hj
      · simp only [upd, e, if_false] at hj
        have := hold j (by rw [hj]; rfl)
        rw [hli] at this; cases this; exact absurd rfl e
  | dKeep i cur h hc =>
    have hli : s.lock = some i := hold i (by rw [h]; rfl)
    refine ⟨?_, ?_, ?_⟩
    · intro j hj
      by_cases e : j = i
      · subst e; exact hli
      · simp only [upd, e, if_false] at hj; exact hold j hj
    · intro j fj cj hj
      by_cases e : j = i
      · subst e; simp [upd] at hj
      · simp only [upd, e, if_false] at hj
        have := hold j (by rw [hj]; rfl)
        rw [hli] at this; cases this; exact absurd rfl e
    · intro j cj hj
      by_cases e : j = i
      · subst e; simp [upd] at hj
      · simp only [upd, e, if_false] at hj
        have := hold j (by rw [hj]; rfl)
        rw [hli] at this; cases this; exact absurd rfl e

end Copia.HubConc
