import Copia.Lemmas.Bisync15
/-! C02 / C06 at run level under `BenignClash`: no version lost, both sides equal afterwards. -/
namespace Copia.Bisync
open Copia.Reconcile Copia.PathSafe

variable {P C : Type} [DecidableEq P] [DecidableEq C]

/-- a live conflict-copy name holds the losing content on whichever side has it, and both sides hold it afterwards -/
theorem runInvB_cc_final (ge : C → C → Bool) (cname : P → C → P) (A0 B0 : Tree P C)
    (plan : List (P × Action)) (l : Live P C) (bc : BenignClash ge cname A0 B0 plan)
    (inv : RunInvB ge cname A0 B0 plan plan l) (p' : P) (act' : Action) (q : P)
    (hm : (p', act') ∈ plan) (hc : ccName ge cname p' act' (get A0 p') (get B0 p') = some q) :
    ∃ L, get l.A q = some L ∧ get l.B q = some L ∧ (get A0 q = none ∨ get A0 q = some L) ∧ (get B0 q = none ∨ get B0 q = some L) := by
  obtain ⟨xa, yb, e1, e2, a1, b1⟩ := inv.atCopy p' act' q hm hc
  obtain ⟨w1, w2⟩ := bc.benign p' act' q xa yb hm hc e1 e2
  exact ⟨_, a1, b1, w1, w2⟩

theorem runInvB_no_loss_A (ge : C → C → Bool) (cname : P → C → P) (A0 B0 : Tree P C) (z : P → Option (Fp C))
    (plan : List (P × Action)) (l : Live P C)
    (hact : ∀ p act, (p, act) ∈ plan → act = reconcilePath ((get A0 p).map mkFp) ((get B0 p).map mkFp) (z p))
    (hrest : ∀ q, (∀ act, (q, act) ∉ plan) → reconcilePath ((get A0 q).map mkFp) ((get B0 q).map mkFp) (z q) = .noop)
    (bc : BenignClash ge cname A0 B0 plan) (inv : RunInvB ge cname A0 B0 plan plan l)
    (p : P) (c : C) (h : get A0 p = some c) :
    (∃ q, get l.A q = some c ∧ get l.B q = some c) ∨ (z p = some (mkFp c) ∧ get B0 p ≠ some c) := by
  by_cases h0 : ∃ p' act', (p', act') ∈ plan ∧ ccName ge cname p' act' (get A0 p') (get B0 p') = some p
  · obtain ⟨p', act', hm', hc'⟩ := h0
    obtain ⟨L, a1, b1, w1, _⟩ := runInvB_cc_final ge cname A0 B0 plan l bc inv p' act' p hm' hc'
    rw [h] at w1
    rcases w1 with w1 | w1
    · cases w1
    · cases w1; exact Or.inl ⟨p, a1, b1⟩
  have hnc : ∀ p' act', (p', act') ∈ plan → ccName ge cname p' act' (get A0 p') (get B0 p') ≠ some p :=
    fun p' act' hm hc => h0 ⟨p', act', hm, hc⟩
  by_cases h1 : ∃ act, (p, act) ∈ plan
  · obtain ⟨act, hm⟩ := h1
    obtain ⟨hA, hB⟩ := inv.atPath p act hm hnc
    have heq := resolve_eq ge (get A0 p) (get B0 p) (z p) act (hact p act hm)
    have hsafe := (path_safe ((get A0 p).map mkFp) ((get B0 p).map mkFp) (z p)).1
    rw [← hact p act hm] at hsafe
    rw [h] at hA hB heq hsafe
    by_cases hk : (resolve ge act (some c) (get B0 p)).1 = some c
    · left; exact ⟨p, by rw [hA, hk], by rw [hB, ← heq, hk]⟩
    · cases act with
      | noop => simp [resolve] at hk
      | convergeIdentical => simp [resolve] at hk
      | propagateAtoB => simp [resolve] at hk
      | deleteB => simp [resolve] at hk
      | propagateBtoA =>
        right
        obtain ⟨hz, hb⟩ := hsafe (mkFp c) (by simp [discardsA])
        exact ⟨hz, fun e => hb (by rw [e]; rfl)⟩
      | deleteA =>
        right
        obtain ⟨hz, hb⟩ := hsafe (mkFp c) (by simp [discardsA])
        exact ⟨hz, fun e => hb (by rw [e]; rfl)⟩
      | conflict k =>
        cases k with
        | deleteVsModify => simp [resolve] at hk
        | bothChanged =>
          cases hy : get B0 p with
          | none => simp [resolve, hy] at hk
          | some yb =>
            rw [hy] at hk
            simp only [resolve] at hk
            rcases winner_or_loser ge c yb with ⟨hw, _⟩ | ⟨_, hl⟩
            · exact absurd (by rw [hw]) hk
            · left
              have hc : ccName ge cname p (.conflict .bothChanged) (get A0 p) (get B0 p) = some (cname p (loser ge c yb)) := by
                simp [ccName, h, hy]
              obtain ⟨xa', yb', e1, e2, h3, h4⟩ := inv.atCopy p _ _ hm hc
              rw [h] at e1; rw [hy] at e2
              cases e1; cases e2
              rw [hl] at h3 h4
              exact ⟨_, h3, h4⟩
  · have hno := hrest p (fun act hm => h1 ⟨act, hm⟩)
    have hxy := noop_eq _ _ (z p) hno
    have hnt : ¬ touched ge cname A0 B0 plan p := by
      rintro (hh | ⟨p', act', hm, hc⟩)
      · exact h1 hh
      · exact hnc p' act' hm hc
    obtain ⟨hA, hB⟩ := inv.untouched p hnt
    left
    exact ⟨p, by rw [hA, h], by rw [hB, ← hxy, h]⟩

theorem runInvB_no_loss_B (ge : C → C → Bool) (cname : P → C → P) (A0 B0 : Tree P C) (z : P → Option (Fp C))
    (plan : List (P × Action)) (l : Live P C)
    (hact : ∀ p act, (p, act) ∈ plan → act = reconcilePath ((get A0 p).map mkFp) ((get B0 p).map mkFp) (z p))
    (hrest : ∀ q, (∀ act, (q, act) ∉ plan) → reconcilePath ((get A0 q).map mkFp) ((get B0 q).map mkFp) (z q) = .noop)
    (bc : BenignClash ge cname A0 B0 plan) (inv : RunInvB ge cname A0 B0 plan plan l)
    (p : P) (c : C) (h : get B0 p = some c) :
    (∃ q, get l.A q = some c ∧ get l.B q = some c) ∨ (z p = some (mkFp c) ∧ get A0 p ≠ some c) := by
  by_cases h0 : ∃ p' act', (p', act') ∈ plan ∧ ccName ge cname p' act' (get A0 p') (get B0 p') = some p
  · obtain ⟨p', act', hm', hc'⟩ := h0
    obtain ⟨L, a1, b1, _, w2⟩ := runInvB_cc_final ge cname A0 B0 plan l bc inv p' act' p hm' hc'
    rw [h] at w2
    rcases w2 with w2 | w2
    · cases w2
    · cases w2; exact Or.inl ⟨p, a1, b1⟩
  have hnc : ∀ p' act', (p', act') ∈ plan → ccName ge cname p' act' (get A0 p') (get B0 p') ≠ some p :=
    fun p' act' hm hc => h0 ⟨p', act', hm, hc⟩
  by_cases h1 : ∃ act, (p, act) ∈ plan
  · obtain ⟨act, hm⟩ := h1
    obtain ⟨hA, hB⟩ := inv.atPath p act hm hnc
    have heq := resolve_eq ge (get A0 p) (get B0 p) (z p) act (hact p act hm)
    have hsafe := (path_safe ((get A0 p).map mkFp) ((get B0 p).map mkFp) (z p)).2
    rw [← hact p act hm] at hsafe
    rw [h] at hA hB heq hsafe
    by_cases hk : (resolve ge act (get A0 p) (some c)).2 = some c
    · left; exact ⟨p, by rw [hA, heq, hk], by rw [hB, hk]⟩
    · cases act with
      | noop => simp [resolve] at hk
      | convergeIdentical => simp [resolve] at hk
      | propagateBtoA => simp [resolve] at hk
      | deleteA => simp [resolve] at hk
      | propagateAtoB =>
        right
        obtain ⟨hz, ha⟩ := hsafe (mkFp c) (by simp [discardsB])
        exact ⟨hz, fun e => ha (by rw [e]; rfl)⟩
      | deleteB =>
        right
        obtain ⟨hz, ha⟩ := hsafe (mkFp c) (by simp [discardsB])
        exact ⟨hz, fun e => ha (by rw [e]; rfl)⟩
      | conflict k =>
        cases k with
        | deleteVsModify =>
          cases hx : get A0 p with
          | none => simp [resolve, hx] at hk
          | some xa =>
            exfalso
            have := hact p _ hm
            rw [hx, h] at this
            exact both_present_not_dvm _ _ _ this.symm
        | bothChanged =>
          cases hx : get A0 p with
          | none => simp [resolve, hx] at hk
          | some xa =>
            rw [hx] at hk
            simp only [resolve] at hk
            rcases winner_or_loser ge xa c with ⟨_, hl⟩ | ⟨hw, _⟩
            · left
              have hc : ccName ge cname p (.conflict .bothChanged) (get A0 p) (get B0 p) = some (cname p (loser ge xa c)) := by
                simp [ccName, h, hx]
              obtain ⟨xa', yb', e1, e2, h3, h4⟩ := inv.atCopy p _ _ hm hc
              rw [hx] at e1; rw [h] at e2
              cases e1; cases e2
              rw [hl] at h3 h4
              exact ⟨_, h3, h4⟩
            · exact absurd (by rw [hw]) hk
  · have hno := hrest p (fun act hm => h1 ⟨act, hm⟩)
    have hxy := noop_eq _ _ (z p) hno
    have hnt : ¬ touched ge cname A0 B0 plan p := by
      rintro (hh | ⟨p', act', hm, hc⟩)
      · exact h1 hh
      · exact hnc p' act' hm hc
    obtain ⟨hA, hB⟩ := inv.untouched p hnt
    left
    exact ⟨p, by rw [hA, hxy, h], by rw [hB, h]⟩

/-- after the whole plan both sides hold the same thing at every path -/
theorem runInvB_converged (ge : C → C → Bool) (cname : P → C → P) (A0 B0 : Tree P C) (z : P → Option (Fp C))
    (plan : List (P × Action)) (l : Live P C)
    (hact : ∀ p act, (p, act) ∈ plan → act = reconcilePath ((get A0 p).map mkFp) ((get B0 p).map mkFp) (z p))
    (hrest : ∀ q, (∀ act, (q, act) ∉ plan) → reconcilePath ((get A0 q).map mkFp) ((get B0 q).map mkFp) (z q) = .noop)
    (inv : RunInvB ge cname A0 B0 plan plan l) (q : P) : get l.A q = get l.B q := by
  by_cases h2 : ∃ p act, (p, act) ∈ plan ∧ ccName ge cname p act (get A0 p) (get B0 p) = some q
  · obtain ⟨p, act, hm, hc⟩ := h2
    obtain ⟨xa, yb, _, _, hA, hB⟩ := inv.atCopy p act q hm hc
    rw [hA, hB]
  · have hnc : ∀ p' act', (p', act') ∈ plan → ccName ge cname p' act' (get A0 p') (get B0 p') ≠ some q :=
      fun p' act' hm hc => h2 ⟨p', act', hm, hc⟩
    by_cases h1 : ∃ act, (q, act) ∈ plan
    · obtain ⟨act, hm⟩ := h1
      obtain ⟨hA, hB⟩ := inv.atPath q act hm hnc
      rw [hA, hB]
      exact resolve_eq ge _ _ (z q) act (hact q act hm)
    · have hnt : ¬ touched ge cname A0 B0 plan q := by
        rintro (h | ⟨p, act, hm, hc⟩)
        · exact h1 h
        · exact hnc p act hm hc
      obtain ⟨hA, hB⟩ := inv.untouched q hnt
      rw [hA, hB]
      exact noop_eq _ _ (z q) (hrest q (fun act hm => h1 ⟨act, hm⟩))

end Copia.Bisync
