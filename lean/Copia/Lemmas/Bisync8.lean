import Copia.Lemmas.Bisync7
namespace Copia.Bisync
open Copia.Reconcile

variable {P C : Type} [DecidableEq P] [DecidableEq C]

theorem lookup_cIns (m : List (P × Fp C)) (p q : P) (f : Fp C) :
    lookup (cIns m p f) q = if q = p then some f else lookup m q := by
  induction m with
  | nil => simp [cIns, lookup, eq_comm]
  | cons e r ih =>
    obtain ⟨k, d⟩ := e
    by_cases h : k = p
    · subst h
      by_cases h2 : q = k
      · subst h2; simp [cIns, lookup]
      · have : ¬ k = q := fun e => h2 e.symm
        simp [cIns, lookup, h2, this]
    · by_cases h2 : q = p
      · subst h2
        have : ¬ k = q := h
        simp [cIns, lookup, h, ih]
      · simp only [cIns, h, if_false, lookup, ih, h2]

theorem lookup_cDel (m : List (P × Fp C)) (p q : P) :
    lookup (cDel m p) q = if q = p then none else lookup m q := by
  induction m with
  | nil => simp [cDel, lookup]
  | cons e r ih =>
    obtain ⟨k, d⟩ := e
    unfold cDel at ih ⊢
    by_cases h : k = p
    · subst h
      by_cases h2 : q = k
      · subst h2; simpa [List.filter, lookup] using ih
      · have : ¬ k = q := fun e => h2 e.symm
        simpa [List.filter, lookup, this, h2] using ih
    · by_cases h2 : q = p
      · subst h2
        have : ¬ k = q := h
        simpa [List.filter, lookup, h] using ih
      · simp only [List.filter, h, ne_eq, not_false_eq_true, decide_true, lookup, ih, h2, if_false]

theorem lookup_filter_key (m : List (P × Fp C)) (pred : P → Bool) (q : P) :
    lookup (m.filter fun e => pred e.1) q = if pred q then lookup m q else none := by
  induction m with
  | nil => simp [lookup]
  | cons e r ih =>
    obtain ⟨k, d⟩ := e
    by_cases hk : pred k
    · by_cases h2 : k = q
      · subst h2; simp [List.filter, hk, lookup]
      · simp [List.filter, hk, lookup, h2, ih]
    · by_cases h2 : k = q
      · subst h2; simp [List.filter, hk, lookup, ih]
      · simp [List.filter, hk, lookup, h2, ih]

/-- what `apply` does to `common`, as a function of `common` alone -/
def commonStep (ge : C → C → Bool) (cname : P → C → P) (a b : List (P × Fp C)) (m : List (P × Fp C)) (p : P) :
    Action → List (P × Fp C)
  | .noop => m
  | .convergeIdentical => cInsOpt m p (lookup a p)
  | .propagateAtoB => cInsOpt m p (lookup a p)
  | .propagateBtoA => cInsOpt m p (lookup b p)
  | .deleteA => cDel m p
  | .deleteB => cDel m p
  | .conflict .deleteVsModify =>
    if (lookup a p).isSome then cInsOpt m p (lookup a p)
    else if (lookup b p).isSome then cInsOpt m p (lookup b p) else m
  | .conflict .bothChanged =>
    match lookup a p, lookup b p with
    | some fa, some fb =>
      if ge fa.digest fb.digest then cIns (cIns m p fa) (cname p fb.digest) fb
      else cIns (cIns m p fb) (cname p fa.digest) fa
    | _, _ => m

theorem apply_common (ge : C → C → Bool) (cname : P → C → P) (a b : List (P × Fp C)) (l l' : Live P C) (p : P)
    (act : Action) (c : Bool) (h : apply ge cname a b l p act = some (l', c))
    (hdel : (act = .deleteA → get l.B p = none) ∧ (act = .deleteB → get l.A p = none)) :
    l'.common = commonStep ge cname a b l.common p act := by
  cases act with
  | noop => simp [apply] at h; simp [commonStep, ← h.1]
  | convergeIdentical => simp [apply] at h; simp [commonStep, ← h.1]
  | propagateAtoB =>
    simp only [apply, Option.map_eq_some_iff] at h
    obtain ⟨B', _, h⟩ := h
    simp only [Prod.mk.injEq] at h
    simp [commonStep, ← h.1]
  | propagateBtoA =>
    simp only [apply, Option.map_eq_some_iff] at h
    obtain ⟨B', _, h⟩ := h
    simp only [Prod.mk.injEq] at h
    simp [commonStep, ← h.1]
  | deleteA => simp [apply, hdel.1 rfl] at h; simp [commonStep, ← h.1]
  | deleteB => simp [apply, hdel.2 rfl] at h; simp [commonStep, ← h.1]
  | conflict k =>
    cases k with
    | deleteVsModify =>
      simp only [apply] at h
      simp only [commonStep]
      split at h
      · next h1 =>
        simp only [Option.map_eq_some_iff, Prod.mk.injEq] at h
        obtain ⟨B', _, h, _⟩ := h
        simp [h1, ← h]
      · next h1 =>
        split at h
        · next h2 =>
          simp only [Option.map_eq_some_iff, Prod.mk.injEq] at h
          obtain ⟨B', _, h, _⟩ := h
          simp [h1, h2, ← h]
        · next h2 =>
          simp only [Option.some.injEq, Prod.mk.injEq] at h
          simp [h1, h2, ← h.1]
    | bothChanged =>
      simp only [apply] at h
      simp only [commonStep]
      split at h
      · next fa fb e1 e2 =>
        simp only [e1, e2]
        split at h
        · next hg =>
          simp only [hg, if_true]
          split at h
          · cases h
          · split at h
            · cases h
            · split at h
              · cases h
              · simp only [Option.some.injEq, Prod.mk.injEq] at h
                rw [← h.1]
        · next hg =>
          simp only [hg]
          split at h
          · cases h
          · split at h
            · cases h
            · split at h
              · cases h
              · simp only [Option.some.injEq, Prod.mk.injEq] at h
                rw [← h.1]; rfl
      · next hno =>
        simp only [Option.some.injEq, Prod.mk.injEq] at h
        rw [← h.1]
        split
        · next fa fb e1 e2 => exact (hno fa fb e1 e2).elim
        · rfl
end Copia.Bisync
