import Copia.Lemmas.Delta3
namespace Copia.Delta
open Copia.Checksum

/-- literal bytes held in an accumulator -/
def litR : List Op → Nat
  | [] => 0
  | .literal d :: t => d.length + litR t
  | .copy _ _ :: t => litR t

theorem literalBytes_append (a b : List Op) : literalBytes (a ++ b) = literalBytes a + literalBytes b := by
  induction a with
  | nil => simp [literalBytes]
  | cons x t ih => cases x <;> simp [literalBytes, ih] <;> omega

theorem literalBytes_finish (rops : List Op) : literalBytes (finish rops) = litR rops := by
  induction rops with
  | nil => rfl
  | cons x t ih =>
    unfold finish at ih ⊢
    simp only [List.reverse_cons, List.map_append, List.map_cons, List.map_nil, literalBytes_append, ih]
    cases x <;> simp [litR, literalBytes] <;> omega

theorem litR_pushCopy (rops : List Op) (o l : Nat) : litR (pushCopy rops o l) = litR rops := by
  unfold pushCopy
  split
  · split <;> simp [litR]
  · simp [litR]

theorem litR_pushLiteral (rops : List Op) (d : List Nat) : litR (pushLiteral rops d) = litR rops + d.length := by
  unfold pushLiteral
  split
  · next h => simp at h; simp [h]
  · split <;> simp [litR] <;> omega

theorem litR_pushLiteralByte (rops : List Op) (b : Nat) : litR (pushLiteralByte rops b) = litR rops + 1 := by
  unfold pushLiteralByte
  split <;> simp [litR] <;> omega

theorem pushLiteral_byte (rops : List Op) (x : Nat) (r : List Nat) :
    pushLiteral (pushLiteralByte rops x) r = pushLiteral rops (x :: r) := by
  unfold pushLiteral pushLiteralByte
  cases rops with
  | nil => cases r <;> simp
  | cons op t =>
    cases op with
    | copy o l => cases r <;> simp
    | literal d => cases r <;> simp

/-- with an empty basis nothing ever matches: the textbook scan is one literal -/
theorem tscan_empty_basis (bs : Nat) : ∀ (fuel : Nat) (rest : List Nat) (rops : List Op),
    tscan bs [] fuel rest rops = pushLiteral rops rest
  | 0, _, _ => rfl
  | fuel+1, rest, rops => by
    unfold tscan
    split
    · simp only [List.length_nil, firstEq]
      cases rest with
      | nil => simp [pushLiteral]
      | cons x r => simp only []; rw [tscan_empty_basis bs fuel r, pushLiteral_byte]
    · rfl

theorem sigLoop_isEmpty {D} (H : List Nat → D) (bs : Nat) (basis : List Nat) :
    (signature H bs basis).blocks.isEmpty = true ↔ basis = [] := by
  unfold signature
  cases basis with
  | nil => simp [sigLoop]
  | cons x t => simp [sigLoop]


theorem firstEq_some_of_block (bs : Nat) (hbs : 0 < bs) (w : List Nat) :
    ∀ (fuel i : Nat) (l : List Nat) (m : Nat), m * bs < l.length → l.length ≤ fuel →
      (l.drop (m * bs)).take bs = w → ∃ j, firstEq bs fuel i l w = some j
  | 0, _, l, m, h1, h2, _ => by omega
  | fuel+1, i, l, m, h1, h2, hw => by
    unfold firstEq
    have hne : l.isEmpty = false := by
      cases l with
      | nil => simp at h1
      | cons a t => rfl
    simp only [hne, Bool.false_eq_true, if_false]
    by_cases he : l.take bs = w
    · exact ⟨i, by simp [he]⟩
    · simp only [he, if_false]
      cases m with
      | zero => simp at hw; exact absurd hw he
      | succ m' =>
        apply firstEq_some_of_block bs hbs w fuel (i + 1) (l.drop bs) m'
        · rw [List.length_drop]; rw [Nat.add_mul, Nat.one_mul] at h1; omega
        · rw [List.length_drop]; omega
        · rw [List.drop_drop]; rw [Nat.add_mul, Nat.one_mul, Nat.add_comm] at hw; exact hw

theorem tscan_identical (bs : Nat) (hbs : 0 < bs) (x : List Nat) :
    ∀ (fuel m : Nat) (rest : List Nat) (rops : List Op), rest = x.drop (m * bs) → rest.length < fuel →
      litR (tscan bs x fuel rest rops) < litR rops + bs
  | 0, _, _, _, _, h => by omega
  | fuel+1, m, rest, rops, hr, hl => by
    unfold tscan
    by_cases hle : bs ≤ rest.length
    · simp only [hle, if_true]
      have hlen : rest.length = x.length - m * bs := by rw [hr, List.length_drop]
      obtain ⟨j, hj⟩ := firstEq_some_of_block bs hbs (rest.take bs) x.length 0 x m (by omega) (Nat.le_refl _)
        (by rw [hr])
      rw [hj]
      simp only []
      have := tscan_identical bs hbs x fuel (m + 1) (rest.drop bs) (pushCopy rops (j * bs) bs)
        (by rw [hr, List.drop_drop, Nat.add_mul, Nat.one_mul]) (by rw [List.length_drop]; omega)
      rwa [litR_pushCopy] at this
    · simp only [hle, if_false]
      rw [litR_pushLiteral]; omega


end Copia.Delta
