import Copia.Gen.LoopsDelta
/-!
# `patch` of BOTH engines and `Delta::validate`, as translated from the source on this run, = the model

`Copia.Gen.Loops.patchSync` / `patchAsync` / `validateGen` are `sync.rs::patch`, `async_sync.rs::patch` and
`delta.rs::validate` statement by statement (`tools/rs2lean_do.py`; the I/O statements are interpreted one by
one — `seek` + `read_exact` = a bounds test and a slice of the basis, `write_all` = append to the output,
`hasher.update` = append to the hashed bytes). The model's `patch` is what C05 / C01 are proved about.
-/
namespace Copia.GenEqLoops
open Copia.Delta Copia.DeltaSupport

variable {D : Type} [DecidableEq D]

abbrev PSt := Option (PatchResult × List Nat) × List Nat × List Nat

/-- the op loop: early `return Err(io)` on a short read, otherwise append; output and hashed bytes stay equal -/
theorem patch_loop (basis : List Nat) (f : Op → PSt → Id (ForInStep PSt))
    (hf : ∀ op s, f op s = match op with
      | Op.copy offset len =>
        if (!decide (offset + len ≤ basis.length)) = true then pure (ForInStep.done (some (PatchResult.io, s.2.1), s.2.1, s.2.2))
        else pure (ForInStep.yield (none, s.2.1 ++ List.take len (List.drop offset basis), s.2.2 ++ List.take len (List.drop offset basis)))
      | Op.literal data => pure (ForInStep.yield (none, s.2.1 ++ data, s.2.2 ++ data))) :
    ∀ (ops : List Op) (acc : List Nat),
      forIn (m := Id) ops ((none, acc, acc) : PSt) f =
        pure (match applyOps basis ops acc with
          | (true, o) => (none, o, o)
          | (false, o) => (some (PatchResult.io, o), o, o))
  | [], acc => rfl
  | Op.copy off len :: t, acc => by
    rw [List.forIn_cons, hf]
    by_cases h : off + len ≤ basis.length
    · simp only [h, decide_true, Bool.not_true, Bool.false_eq_true, if_false, pure_bind, applyOps, if_true]
      exact patch_loop basis f hf t _
    · simp [h, applyOps]
  | Op.literal d :: t, acc => by
    rw [List.forIn_cons, hf]
    simp only [pure_bind, applyOps]
    exact patch_loop basis f hf t _

theorem patchAsync_eq (H : List Nat → D) (verify : Bool) (basis : List Nat) (δ : Delta D) :
    Copia.Gen.Loops.patchAsync H verify basis δ = patch H verify basis δ := by
  unfold Copia.Gen.Loops.patchAsync patch
  have e := patch_loop basis
  simp only [Id.run, bind, pure] at e ⊢
  cases hv : validate δ
  · simp
  · simp only [Bool.not_true, Bool.false_eq_true, if_false]
    rw [e _ (by intro op s; cases op <;> rfl)]
    cases ha : applyOps basis δ.ops [] with
    | mk ok out =>
      cases ok
      · simp
      · cases verify <;> simp

abbrev PSt4 := Option (PatchResult × List Nat) × List Nat × List Nat × Nat

/-- the sync engine's loop also counts the bytes written (only a debug assertion reads the count) -/
theorem patch_loop4 (basis : List Nat) (f : Op → PSt4 → Id (ForInStep PSt4))
    (hf : ∀ op s, f op s = match op with
      | Op.copy offset len =>
        if (!decide (offset + len ≤ basis.length)) = true then pure (ForInStep.done (some (PatchResult.io, s.2.1), s.2.1, s.2.2.1, s.2.2.2))
        else pure (ForInStep.yield (none, s.2.1 ++ List.take len (List.drop offset basis), s.2.2.1 ++ List.take len (List.drop offset basis), s.2.2.2 + id len))
      | Op.literal data => pure (ForInStep.yield (none, s.2.1 ++ data, s.2.2.1 ++ data, s.2.2.2 + data.length))) :
    ∀ (ops : List Op) (acc : List Nat) (n : Nat), ∃ m,
      forIn (m := Id) ops ((none, acc, acc, n) : PSt4) f =
        pure (match applyOps basis ops acc with
          | (true, o) => (none, o, o, m)
          | (false, o) => (some (PatchResult.io, o), o, o, m))
  | [], acc, n => ⟨n, rfl⟩
  | Op.copy off len :: t, acc, n => by
    by_cases h : off + len ≤ basis.length
    · obtain ⟨m, hm⟩ := patch_loop4 basis f hf t (acc ++ List.take len (List.drop off basis)) (n + id len)
      refine ⟨m, ?_⟩
      rw [List.forIn_cons, hf]
      simp only [h, decide_true, Bool.not_true, Bool.false_eq_true, if_false, pure_bind, applyOps, if_true]
      exact hm
    · refine ⟨n, ?_⟩
      rw [List.forIn_cons, hf]
      simp [h, applyOps]
  | Op.literal d :: t, acc, n => by
    obtain ⟨m, hm⟩ := patch_loop4 basis f hf t (acc ++ d) (n + d.length)
    refine ⟨m, ?_⟩
    rw [List.forIn_cons, hf]
    simp only [pure_bind, applyOps]
    exact hm

theorem patch_loop4' (basis : List Nat) (f : Op → PSt4 → Id (ForInStep PSt4))
    (hf : ∀ op s, f op s = match op with
      | Op.copy offset len =>
        if (!decide (offset + len ≤ basis.length)) = true then pure (ForInStep.done (some (PatchResult.io, s.2.1), s.2.1, s.2.2.1, s.2.2.2))
        else pure (ForInStep.yield (none, s.2.1 ++ List.take len (List.drop offset basis), s.2.2.1 ++ List.take len (List.drop offset basis), s.2.2.2 + id len))
      | Op.literal data => pure (ForInStep.yield (none, s.2.1 ++ data, s.2.2.1 ++ data, s.2.2.2 + data.length)))
    (ops : List Op) (acc : List Nat) (n : Nat) :
    forIn (m := Id) ops ((none, acc, acc, n) : PSt4) f =
      pure (match applyOps basis ops acc with
        | (true, o) => (none, o, o, (forIn (m := Id) ops ((none, acc, acc, n) : PSt4) f).2.2.2)
        | (false, o) => (some (PatchResult.io, o), o, o, (forIn (m := Id) ops ((none, acc, acc, n) : PSt4) f).2.2.2)) := by
  obtain ⟨m, hm⟩ := patch_loop4 basis f hf ops acc n
  rw [hm]
  cases applyOps basis ops acc with
  | mk ok o => cases ok <;> rfl

theorem patchSync_eq (H : List Nat → D) (verify : Bool) (basis : List Nat) (δ : Delta D) :
    Copia.Gen.Loops.patchSync H verify basis δ = patch H verify basis δ := by
  unfold Copia.Gen.Loops.patchSync patch
  have e := patch_loop4' basis
  simp only [Id.run, bind, pure] at e ⊢
  cases hv : validate δ
  · simp
  · simp only [Bool.not_true, Bool.false_eq_true, if_false]
    rw [e _ (by intro op s; cases op <;> rfl)]
    cases ha : applyOps basis δ.ops [] with
    | mk ok out =>
      cases ok
      · simp
      · cases verify <;> simp

theorem validate_eq (δ : Delta D) : Copia.Gen.Loops.validateGen δ = validate δ := by
  unfold Copia.Gen.Loops.validateGen validate
  simp only [Id.run, bind, pure]
  generalize δ.ops = ops
  induction ops with
  | nil => rfl
  | cons op t ih =>
    rw [List.forIn_cons]
    cases op with
    | copy off len =>
      by_cases h : min (off + len) 18446744073709551615 ≤ δ.basisSize
      · have : ¬ (min (off + id len) 18446744073709551615 > δ.basisSize) := by simp only [id]; omega
        simp only [this, decide_false, Bool.false_eq_true, if_false, List.all_cons, h, decide_true, Bool.true_and]
        exact ih
      · have : (min (off + id len) 18446744073709551615 > δ.basisSize) := by simp only [id]; omega
        simp only [this, decide_true, if_true, List.all_cons, h, decide_false, Bool.false_and]
        rfl
    | literal d =>
      simp only [List.all_cons, Bool.true_and]
      exact ih

end Copia.GenEqLoops
