import Copia.Model.Find
namespace Copia.Meta
open Copia.Plan

/-! ## digits -/

theorem digitVal_digitChar (d : Nat) (h : d < 10) : digitVal (digitChar d) = some d := by
  have : d = 0 ∨ d = 1 ∨ d = 2 ∨ d = 3 ∨ d = 4 ∨ d = 5 ∨ d = 6 ∨ d = 7 ∨ d = 8 ∨ d = 9 := by omega
  rcases this with rfl | rfl | rfl | rfl | rfl | rfl | rfl | rfl | rfl | rfl <;> decide

theorem digitChar_props (d : Nat) (h : d < 10) :
    digitChar d ≠ '\t' ∧ digitChar d ≠ '\x00' ∧ digitChar d ≠ '.' ∧ digitChar d ≠ '+' ∧ digitChar d ≠ '-' := by
  have : d = 0 ∨ d = 1 ∨ d = 2 ∨ d = 3 ∨ d = 4 ∨ d = 5 ∨ d = 6 ∨ d = 7 ∨ d = 8 ∨ d = 9 := by omega
  rcases this with rfl | rfl | rfl | rfl | rfl | rfl | rfl | rfl | rfl | rfl <;> decide

theorem parseDigits_append (max : Nat) (a b : List Char) (acc : Nat) :
    parseDigits max (a ++ b) acc = (parseDigits max a acc).bind (parseDigits max b) := by
  induction a generalizing acc with
  | nil => simp [parseDigits]
  | cons c cs ih =>
    simp only [List.cons_append, parseDigits]
    cases digitVal c with
    | none => simp
    | some d =>
      simp only []
      split
      · exact ih _
      · simp

theorem decimal_ne_nil (n : Nat) : decimal n ≠ [] := by
  unfold decimal; split <;> simp

theorem decimal_all (n : Nat) : ∀ c ∈ decimal n, ∃ d, d < 10 ∧ c = digitChar d := by
  induction n using Nat.strongRecOn with
  | _ n ih =>
    unfold decimal
    split
    · intro c hc; simp at hc; exact ⟨n, by omega, hc⟩
    · intro c hc
      rw [List.mem_append] at hc
      rcases hc with hc | hc
      · exact ih (n / 10) (by omega) c hc
      · simp at hc; exact ⟨n % 10, by omega, hc⟩

theorem parseDigits_decimal (max n : Nat) (h : n ≤ max) : parseDigits max (decimal n) 0 = some n := by
  induction n using Nat.strongRecOn with
  | _ n ih =>
    unfold decimal
    split
    · next hlt => simp [parseDigits, digitVal_digitChar n hlt, h]
    · next hge =>
      rw [parseDigits_append, ih (n / 10) (by omega) (by omega)]
      simp only [Option.bind_some, parseDigits, digitVal_digitChar (n % 10) (by omega)]
      have : n / 10 * 10 + n % 10 = n := by omega
      simp [this, h]

theorem decimal_head (n : Nat) : ∃ d r, d < 10 ∧ decimal n = digitChar d :: r := by
  obtain ⟨c, r, hr⟩ := List.exists_cons_of_ne_nil (decimal_ne_nil n)
  obtain ⟨d, hd, hc⟩ := decimal_all n c (by rw [hr]; simp)
  exact ⟨d, r, hd, by rw [hr, hc]⟩

theorem parseU64_cons (c : Char) (r : List Char) (h : c ≠ '+') :
    parseU64 (c :: r) = parseDigits 18446744073709551615 (c :: r) 0 := by
  simp only [parseU64]
  split
  · next r' heq => simp at heq; exact absurd heq.1 h
  · simp

theorem parseU64_decimal (n : Nat) (h : n ≤ 18446744073709551615) : parseU64 (decimal n) = some n := by
  obtain ⟨d, r, hd, hr⟩ := decimal_head n
  have hplus := (digitChar_props d hd).2.2.2.1
  have := parseDigits_decimal 18446744073709551615 n h
  rw [hr] at this ⊢
  rw [parseU64_cons _ _ hplus, this]

theorem parseI64_cons (c : Char) (r : List Char) (h1 : c ≠ '+') (h2 : c ≠ '-') :
    parseI64 (c :: r) = (parseDigits 9223372036854775807 (c :: r) 0).map fun n => (n : Int) := by
  unfold parseI64
  split
  · next heq => simp at heq; exact absurd heq.1 h2
  · next heq => simp at heq; exact absurd heq.1 h1
  · simp

theorem parseI64_renderInt (i : Int) (lo : -9223372036854775808 ≤ i) (hi : i ≤ 9223372036854775807) :
    parseI64 (renderInt i) = some i := by
  unfold renderInt
  split
  · next hneg =>
    simp only [parseI64]
    have hne : (decimal i.natAbs).isEmpty = false := by
      cases h : decimal i.natAbs with
      | nil => exact absurd h (decimal_ne_nil _)
      | cons _ _ => rfl
    rw [hne, parseDigits_decimal _ _ (by omega)]
    simp only [Bool.false_eq_true, if_false]
    show some (-(i.natAbs : Int)) = some i
    congr 1; omega
  · next hnn =>
    obtain ⟨d, r, hd, hr⟩ := decimal_head i.natAbs
    obtain ⟨_, _, _, hplus, hminus⟩ := digitChar_props d hd
    have hval := parseDigits_decimal 9223372036854775807 i.natAbs (by omega)
    rw [hr] at hval ⊢
    rw [parseI64_cons _ _ hplus hminus, hval]
    show some ((i.natAbs : Int)) = some i
    congr 1; omega

end Copia.Meta
