import Copia.Lemmas.Checksum2
namespace Copia.Checksum
open Copia

/-- Invariant relating a `Fast` state to its ghost window `w`. The magnitude bounds are what keeps
every `u64` intermediate in range between two normalisations. -/
structure Good (s : Fast) (w : List Nat) : Prop where
  bytes : Bytes w
  len : s.count = w.length
  lenle : w.length ≤ 65536
  amod : s.a % 65521 = specA w % 65521
  bmod : s.b % 65521 = specB w % 65521
  rolls : s.rolls < 5000
  abound : s.a ≤ 65520 + s.rolls * 65776
  bbound : s.b ≤ 65520 + s.rolls * (65521 * 65536 + 65520 + 5000 * 65776)

theorem good_intro (a b c r : Nat) (w : List Nat) (hb : Bytes w) (hc : c = w.length)
    (hl : w.length ≤ 65536) (ha : a % 65521 = specA w % 65521) (hbm : b % 65521 = specB w % 65521)
    (hr : r < 5000) (hab : a ≤ 65520 + r * 65776)
    (hbb : b ≤ 65520 + r * (65521 * 65536 + 65520 + 5000 * 65776)) :
    Good { a := a, b := b, count := c, rolls := r } w :=
  ⟨hb, hc, hl, ha, hbm, hr, hab, hbb⟩

/-- The shared normalisation step re-establishes the invariant from the un-normalised sums. -/
theorem norm_good (a b c r : Nat) (w : List Nat) (hb : Bytes w) (hc : c = w.length)
    (hl : w.length ≤ 65536) (ha : a % 65521 = specA w % 65521) (hbm : b % 65521 = specB w % 65521)
    (hr : r < 5000) (hab : a ≤ 65520 + (r + 1) * 65776)
    (hbb : b ≤ 65520 + (r + 1) * (65521 * 65536 + 65520 + 5000 * 65776)) :
    Good (Fast.norm a b c r) w := by
  unfold Fast.norm
  have er : add32 r 1 = r + 1 := Nat.mod_eq_of_lt (by simp only [W32]; omega)
  simp only [Gen.fastMod, Gen.normalizeInterval, er]
  have h1 : a % 65521 < 65521 := Nat.mod_lt _ (by omega)
  have h2 : b % 65521 < 65521 := Nat.mod_lt _ (by omega)
  by_cases h : 5000 ≤ r + 1
  · rw [if_pos h]
    exact good_intro _ _ _ _ w hb hc hl (by rw [Nat.mod_mod]; exact ha) (by rw [Nat.mod_mod]; exact hbm)
      (by omega) (by omega) (by omega)
  · rw [if_neg h]
    exact good_intro _ _ _ _ w hb hc hl ha hbm (by omega) hab hbb

theorem Fast.new_good (w : List Nat) (h : Bytes w) (hl : w.length ≤ MAXW) : Good (Fast.new w) w := by
  have hl' : w.length ≤ 65536 := hl
  obtain ⟨f1, f2, f3⟩ := sums_fit w h hl'
  unfold Fast.new
  rw [sumLoop_eq w w.length 0 0 rfl f1 f2 f3]
  simp only [Gen.fastMod, Nat.zero_add]
  have h1 : specA w % 65521 < 65521 := Nat.mod_lt _ (by omega)
  have h2 : specB w % 65521 < 65521 := Nat.mod_lt _ (by omega)
  exact good_intro _ _ _ _ w h rfl hl' (Nat.mod_mod _ _) (Nat.mod_mod _ _) (by omega) (by omega) (by omega)

/-- magnitude facts for `roll`, pure linear arithmetic over literals -/
theorem fast_bounds (sa sb n x y N r : Nat)
    (hr : r < 5000) (ha : sa ≤ 65520 + r * 65776)
    (hb : sb ≤ 65520 + r * (65521 * 65536 + 65520 + 5000 * 65776))
    (hn : n ≤ 65536) (hx : x < 256) (hy : y < 256) (hN : N ≤ 255 * n) :
    sa + 65521 + y < 18446744073709551616 ∧ x ≤ sa + 65521 + y ∧
    65521 * n < 18446744073709551616 ∧
    sb + 65521 * n + (sa + 65521 + y - x) < 18446744073709551616 ∧
    N < 18446744073709551616 ∧ N ≤ sb + 65521 * n + (sa + 65521 + y - x) ∧
    sa + 65521 + y - x ≤ 65520 + (r + 1) * 65776 ∧
    sb + 65521 * n + (sa + 65521 + y - x) - N ≤ 65520 + (r + 1) * (65521 * 65536 + 65520 + 5000 * 65776) ∧
    r + 1 < 4294967296 := by
  refine ⟨by omega, by omega, by omega, by omega, by omega, by omega, by omega, by omega, by omega⟩

theorem fast_wraps (sa sb n x y N : Nat)
    (h1 : sa + 65521 + y < 18446744073709551616) (h2 : x ≤ sa + 65521 + y)
    (h3 : 65521 * n < 18446744073709551616)
    (h4 : sb + 65521 * n + (sa + 65521 + y - x) < 18446744073709551616)
    (h5 : N < 18446744073709551616) (h6 : N ≤ sb + 65521 * n + (sa + 65521 + y - x)) (hx : x < 256) :
    (sa + 65521) % 18446744073709551616 = sa + 65521 ∧
    (sa + 65521 + y) % 18446744073709551616 = sa + 65521 + y ∧
    x % 18446744073709551616 = x ∧
    (sa + 65521 + y + 18446744073709551616 - x) % 18446744073709551616 = sa + 65521 + y - x ∧
    65521 * n % 18446744073709551616 = 65521 * n ∧
    N % 18446744073709551616 = N ∧
    (sb + 65521 * n) % 18446744073709551616 = sb + 65521 * n ∧
    (sb + 65521 * n + (sa + 65521 + y - x)) % 18446744073709551616 = sb + 65521 * n + (sa + 65521 + y - x) ∧
    (sb + 65521 * n + (sa + 65521 + y - x) + 18446744073709551616 - N) % 18446744073709551616
      = sb + 65521 * n + (sa + 65521 + y - x) - N := by
  refine ⟨by omega, by omega, by omega, by omega, by omega, by omega, by omega, by omega, by omega⟩

theorem Fast.roll_good (s : Fast) (x y : Nat) (xs : List Nat)
    (g : Good s (x :: xs)) (hy : y < 256) : s.rollOK x y ∧ Good (s.roll x y) (xs ++ [y]) := by
  obtain ⟨hbytes, hlen, hlenle, hamod, hbmod, hrolls, habound, hbbound⟩ := g
  have hx : x < 256 := hbytes.head
  have hn : s.count = xs.length + 1 := by simpa using hlen
  have hnle : s.count ≤ 65536 := by rw [hn]; simpa using hlenle
  have hN : s.count * x ≤ 255 * s.count := by
    rw [Nat.mul_comm]; exact Nat.mul_le_mul_right _ (by omega)
  have hslide := specB_slide x xs y
  have hsnoc := specA_snoc xs y
  rw [← hn] at hslide
  have hbytes' : Bytes (xs ++ [y]) := hbytes.tail.snoc hy
  obtain ⟨b1, b2, b3, b4, b5, b6, b7, b8, b9⟩ :=
    fast_bounds s.a s.b s.count x y (s.count * x) s.rolls hrolls habound hbbound hnle hx hy hN
  obtain ⟨w1, w2, w3, w4, w5, w6, w7, w8, w9⟩ :=
    fast_wraps s.a s.b s.count x y (s.count * x) b1 b2 b3 b4 b5 b6 hx
  have hN' : s.count * x ≤ 65521 * s.count := by omega
  have ea := mod_a s.a (specA xs) x y (by simpa [specA] using hamod) b2
  rw [← hsnoc] at ea
  have eb := mod_b s.b s.count (s.a + 65521 + y - x) (s.count * x) (specB (x :: xs))
    (specB (xs ++ [y])) (specA xs + y) hbmod (by rw [← hsnoc]; exact ea) hslide hN'
  have er : (s.rolls + 1) % 4294967296 = s.rolls + 1 := Nat.mod_eq_of_lt b9
  constructor
  · unfold Fast.rollOK
    simp only [Gen.fastMod, W64, W32]
    exact ⟨b1, b2, b3, b4, b5, b6, b9⟩
  unfold Fast.roll
  simp only [Gen.fastMod, add64, sub64, mul64, W64, w1, w2, w3, w4, w5, w6, w7, w8, w9]
  exact norm_good _ _ _ _ _ hbytes' (by simp [hn]) (by simp; omega) ea eb hrolls b7 b8

theorem fast_push_arith (sa sb x r : Nat) (hr : r < 5000) (ha : sa ≤ 65520 + r * 65776)
    (hb : sb ≤ 65520 + r * (65521 * 65536 + 65520 + 5000 * 65776)) (hx : x < 256) :
    (sa + x) % 18446744073709551616 = sa + x ∧
    (sb + (sa + x)) % 18446744073709551616 = sb + (sa + x) ∧
    (r + 1) % 4294967296 = r + 1 ∧
    sa + x ≤ 65520 + (r + 1) * 65776 ∧
    sb + (sa + x) ≤ 65520 + (r + 1) * (65521 * 65536 + 65520 + 5000 * 65776) ∧
    sa + x < 18446744073709551616 ∧ sb + (sa + x) < 18446744073709551616 ∧ r + 1 < 4294967296 := by
  refine ⟨by omega, by omega, by omega, by omega, by omega, by omega, by omega, by omega⟩

theorem Fast.push_good (s : Fast) (x : Nat) (w : List Nat) (g : Good s w) (hx : x < 256)
    (hl : w.length + 1 ≤ MAXW) : s.pushOK x ∧ Good (s.push x) (w ++ [x]) := by
  obtain ⟨hbytes, hlen, hlenle, hamod, hbmod, hrolls, habound, hbbound⟩ := g
  have hl' : w.length + 1 ≤ 65536 := hl
  obtain ⟨p1, p2, p3, p4, p5, p6, p7, p8⟩ := fast_push_arith s.a s.b x s.rolls hrolls habound hbbound hx
  have hl2 : (w ++ [x]).length = w.length + 1 := by simp
  have ea : (s.a + x) % 65521 = specA (w ++ [x]) % 65521 := by rw [specA_snoc]; omega
  have eb : (s.b + (s.a + x)) % 65521 = specB (w ++ [x]) % 65521 := by rw [specB_snoc]; omega
  constructor
  · unfold Fast.pushOK
    simp only [W64, W32]
    exact ⟨p6, p7, p8⟩
  unfold Fast.push
  simp only [add64, W64, p1, p2]
  exact norm_good _ _ _ _ _ (hbytes.snoc hx) (by simp [hlen]) (by rw [hl2]; omega) ea eb hrolls p4 p5

/-- `u32` packing: for components below 65521 ≤ 2^16 nothing is shifted out. -/
theorem shl16_fits (b : Nat) (hb : b < 65521) : (b <<< 16) % 4294967296 = b <<< 16 := by
  rw [Nat.shiftLeft_eq]
  exact Nat.mod_eq_of_lt (by omega)

theorem Fast.digest_good (s : Fast) (w : List Nat) (g : Good s w) :
    s.digest = specDigest 65521 w := by
  unfold Fast.digest specDigest
  simp only [Gen.fastMod, W32]
  have h1 : s.b % 65521 < 65521 := Nat.mod_lt _ (by omega)
  have h2 : s.a % 65521 < 65521 := Nat.mod_lt _ (by omega)
  rw [Nat.mod_eq_of_lt (show s.b % 65521 < 4294967296 by omega),
    Nat.mod_eq_of_lt (show s.a % 65521 < 4294967296 by omega), shl16_fits _ h1, g.amod, g.bmod]

theorem Rolling.digest_ofWindow (w : List Nat) :
    (Rolling.ofWindow w).digest = specDigest 65521 w := by
  unfold Rolling.digest Rolling.ofWindow specDigest
  simp only [Gen.rollingMod, W32]
  rw [shl16_fits _ (Nat.mod_lt _ (by omega))]
