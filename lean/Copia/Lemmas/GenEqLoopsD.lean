import Copia.Gen.LoopsDelta
import Copia.Lemmas.GenEqLoops2
/-!
# The delta scan of BOTH engines, as translated from the source on this run, = the model's `scan`

`Copia.Gen.Loops.scanSync` / `scanAsync` are `sync.rs::delta` / `async_sync.rs::delta` from `let mut pos = 0usize;`
to the tail literal, statement by statement (`tools/rs2lean_do.py`): an index loop over `source_data` with the
threaded `FastRollingChecksum`. The model's `scan` (what C01 / C16 are proved about) is the same loop in two-cursor
suffix form. `simS`: one round of the source loop is one call of the model's loop, and the loop ends within
`|source| + 1` rounds.
-/
namespace Copia.GenEqLoops
open Copia.Delta Copia.DeltaSupport
open Copia.Checksum (Fast)

variable {D : Type} [DecidableEq D]

abbrev SSt := List Op × Nat × Fast × Bool

/-- one round of the source's `while` loop on (ops, pos, rolling, "loop condition failed") -/
def sbody (H : List Nat → D) (table : List (BlockSig D)) (bs : Nat) (src : List Nat) (s : SSt) : ForInStep SSt :=
  if (!decide (s.2.1 + bs ≤ src.length)) = true then .done (s.1, s.2.1, s.2.2.1, true)
  else match findMatch H table s.2.2.1.digest (src.drop s.2.1) bs with
    | some sig =>
      .yield (pushCopy s.1 (sig.index * bs) (bs % 4294967296), s.2.1 + bs,
        if decide (s.2.1 + bs + bs ≤ src.length) = true then Fast.new ((src.drop (s.2.1 + bs)).take bs) else s.2.2.1, s.2.2.2)
    | none =>
      .yield (pushLiteralByte s.1 src[s.2.1]!, s.2.1 + 1,
        if decide (s.2.1 + bs < src.length) = true then s.2.2.1.roll src[s.2.1]! src[s.2.1 + bs]! else s.2.2.1, s.2.2.2)

theorem findMatch_split (H : List Nat → D) (table : List (BlockSig D)) (w : Nat) (rest : List Nat) (bs : Nat) :
    findMatch H table w rest bs = if hasWeak table w = true then findStrong H table w (rest.take bs) else none := by
  unfold findMatch hasWeak findStrong
  cases h : (table.filter (·.weak = w)).isEmpty <;> simp [h]

/-- what the code after the loop makes of the loop's final state -/
def spost (src : List Nat) (r : SSt) : Option (List Op) :=
  if (!r.2.2.2) = true then none
  else some (if decide (r.2.1 < src.length) = true then pushLiteral r.1 (src.drop r.2.1) else r.1)

theorem simS (H : List Nat → D) (table : List (BlockSig D)) (bs : Nat) (src : List Nat) (hbs : 0 < bs) (hbs32 : bs < 4294967296) :
    ∀ (fuel pos : Nat) (rolling : Fast) (rops : List Op), pos ≤ src.length → src.length - pos < fuel →
      spost src (iter (sbody H table bs src) fuel (rops, pos, rolling, false)) =
        some (scan H table bs fuel (src.drop pos) (src.drop (pos + bs)) (src.length - pos) rolling rops)
  | 0, pos, _, _, _, hf => by omega
  | fuel+1, pos, rolling, rops, hp, hf => by
    unfold scan
    by_cases hc : pos + bs ≤ src.length
    · have h1 : (!decide (pos + bs ≤ src.length)) = false := by simp [hc]
      have h2 : bs ≤ src.length - pos := by omega
      simp only [iter, sbody, h1, Bool.false_eq_true, if_false, h2, if_true]
      cases hm : findMatch H table rolling.digest (src.drop pos) bs with
      | some sig =>
        simp only
        have e1 : bs % 4294967296 = bs := Nat.mod_eq_of_lt hbs32
        have e2 : src.length - pos - bs = src.length - (pos + bs) := by omega
        have e3 : (decide (pos + bs + bs ≤ src.length) = true) ↔ (bs ≤ src.length - (pos + bs)) := by
          simp only [decide_eq_true_eq]; omega
        rw [e1, e2, List.drop_drop]
        have := simS H table bs src hbs hbs32 fuel (pos + bs)
          (if decide (pos + bs + bs ≤ src.length) = true then Fast.new ((src.drop (pos + bs)).take bs) else rolling)
          (pushCopy rops (sig.index * bs) bs) hc (by omega)
        rw [this]
        congr 2
        by_cases h : pos + bs + bs ≤ src.length
        · have : bs ≤ src.length - (pos + bs) := by omega
          simp [h, this]
        · have : ¬ bs ≤ src.length - (pos + bs) := by omega
          simp [h, this]
      | none =>
        simp only
        have hlt : pos < src.length := by omega
        rw [List.drop_eq_getElem_cons hlt]
        simp only
        have ex : src[pos]! = src[pos] := getElem!_pos src pos hlt
        have := simS H table bs src hbs hbs32 fuel (pos + 1)
          (if decide (pos + bs < src.length) = true then rolling.roll src[pos]! src[pos + bs]! else rolling)
          (pushLiteralByte rops src[pos]!) (by omega) (by omega)
        rw [this, ex]
        have e4 : src.length - pos - 1 = src.length - (pos + 1) := by omega
        have e5 : (src.drop (pos + bs)).tail = src.drop (pos + 1 + bs) := by
          rw [List.tail_drop]; congr 1; omega
        rw [e4, e5]
        congr 2
        by_cases h : pos + bs < src.length
        · have hb : bs < src.length - pos := by omega
          rw [List.drop_eq_getElem_cons h]
          have ey : src[pos + bs]! = src[pos + bs] := getElem!_pos src (pos + bs) h
          simp [h, hb, ey]
        · have hb : ¬ bs < src.length - pos := by omega
          simp [h, hb]
    · have h1 : (!decide (pos + bs ≤ src.length)) = true := by simp [hc]
      have h2 : ¬ bs ≤ src.length - pos := by omega
      simp only [iter, sbody, h1, if_true, h2, if_false, spost, Bool.not_true, Bool.false_eq_true]
      congr 1
      by_cases h : pos < src.length
      · simp [h]
      · have : src.drop pos = [] := List.drop_eq_nil_of_le (by omega)
        simp [h, this, pushLiteral]

theorem scanSync_eq (H : List Nat → D) (table : List (BlockSig D)) (bs : Nat) (src : List Nat)
    (hbs : 0 < bs) (hbs32 : bs < 4294967296) (rops0 : List Op) :
    Copia.Gen.Loops.scanSync (src.length + 1) H table bs src rops0 =
      some (scan H table bs (src.length + 1) src (src.drop bs) src.length (Fast.new (src.take (min bs src.length))) rops0) := by
  unfold Copia.Gen.Loops.scanSync
  have e := forIn_replicate (sbody H table bs src)
  simp only [Id.run, bind, pure] at e ⊢
  rw [e]
  rotate_left
  · intro _ s
    unfold sbody
    rw [findMatch_split]
    simp only [Nat.add_sub_cancel_left, id]
    cases hasWeak table s.2.2.1.digest <;> simp only [Bool.false_eq_true, if_false, if_true]
    · split
      · rfl
      · split <;> simp_all
    · cases findStrong H table s.2.2.1.digest (List.take bs (List.drop s.2.1 src)) <;> simp only <;> split <;>
        first | rfl | (split <;> simp_all)
  have := simS H table bs src hbs hbs32 (src.length + 1) 0 (Fast.new (src.take (min bs src.length))) rops0 (Nat.zero_le _) (by omega)
  simp only [spost, Nat.zero_add, List.drop_zero, Nat.sub_zero] at this ⊢
  rw [← this]
  generalize iter (sbody H table bs src) (src.length + 1) (rops0, 0, Fast.new (List.take (min bs src.length) src), false) = r
  cases r.2.2.2 <;> simp only [Bool.not_false, Bool.not_true, if_true, Bool.false_eq_true, if_false]
  split <;> rfl

theorem scanAsync_eq (H : List Nat → D) (table : List (BlockSig D)) (bs : Nat) (src : List Nat)
    (hbs : 0 < bs) (hbs32 : bs < 4294967296) (rops0 : List Op) :
    Copia.Gen.Loops.scanAsync (src.length + 1) H table bs src rops0 =
      some (scan H table bs (src.length + 1) src (src.drop bs) src.length (Fast.new (src.take (min bs src.length))) rops0) := by
  unfold Copia.Gen.Loops.scanAsync
  have e := forIn_replicate (sbody H table bs src)
  simp only [Id.run, bind, pure] at e ⊢
  rw [e]
  rotate_left
  · intro _ s
    unfold sbody
    rw [findMatch_split]
    simp only [Nat.add_sub_cancel_left, id]
    cases hasWeak table s.2.2.1.digest <;> simp only [Bool.false_eq_true, if_false, if_true]
    · split
      · rfl
      · split <;> simp_all
    · cases findStrong H table s.2.2.1.digest (List.take bs (List.drop s.2.1 src)) <;> simp only <;> split <;>
        first | rfl | (split <;> simp_all)
  have := simS H table bs src hbs hbs32 (src.length + 1) 0 (Fast.new (src.take (min bs src.length))) rops0 (Nat.zero_le _) (by omega)
  simp only [spost, Nat.zero_add, List.drop_zero, Nat.sub_zero] at this ⊢
  rw [← this]
  generalize iter (sbody H table bs src) (src.length + 1) (rops0, 0, Fast.new (List.take (min bs src.length) src), false) = r
  cases r.2.2.2 <;> simp only [Bool.not_false, Bool.not_true, if_true, Bool.false_eq_true, if_false]
  split <;> rfl

end Copia.GenEqLoops
