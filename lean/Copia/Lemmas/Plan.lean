import Copia.Lemmas.GlobComplete
namespace Copia.Plan

theorem needsTransfer_iff (s : FileMeta) (d : Option FileMeta) :
    needsTransfer s d = true ↔ d = none ∨ ∃ d', d = some d' ∧ (s.size ≠ d'.size ∨ s.mtime ≠ d'.mtime) := by
  cases d with
  | none => simp [needsTransfer]
  | some d' => simp [needsTransfer]

theorem mem_transfer {K} [DecidableEq K] (le : K → K → Bool) (excl : K → Bool)
    (src dst : List (K × FileMeta)) (wd : Bool) (p : K) :
    p ∈ (buildPlan le excl src dst wd).transfer ↔
      ∃ m, (p, m) ∈ src ∧ excl p = false ∧ needsTransfer m (lookup dst p) = true := by
  simp only [buildPlan, List.mem_mergeSort, List.mem_map, List.mem_filter]
  constructor
  · rintro ⟨⟨q, m⟩, ⟨⟨hin, hex⟩, hnt⟩, rfl⟩
    exact ⟨m, hin, by simpa using hex, hnt⟩
  · rintro ⟨m, hin, hex, hnt⟩
    exact ⟨(p, m), ⟨⟨hin, by simp [hex]⟩, hnt⟩, rfl⟩

theorem transfer_sorted {K} [DecidableEq K] (le : K → K → Bool)
    (trans : ∀ a b c, le a b → le b c → le a c) (total : ∀ a b, le a b || le b a)
    (excl : K → Bool) (src dst : List (K × FileMeta)) (wd : Bool) :
    (buildPlan le excl src dst wd).transfer.Pairwise (fun a b => le a b) :=
  List.pairwise_mergeSort trans total _

theorem delete_sorted {K} [DecidableEq K] (le : K → K → Bool)
    (trans : ∀ a b c, le a b → le b c → le a c) (total : ∀ a b, le a b || le b a)
    (excl : K → Bool) (src dst : List (K × FileMeta)) (wd : Bool) :
    (buildPlan le excl src dst wd).delete.Pairwise (fun a b => le a b) :=
  List.pairwise_mergeSort trans total _

theorem transfer_nodup {K} [DecidableEq K] (le : K → K → Bool) (excl : K → Bool)
    (src dst : List (K × FileMeta)) (wd : Bool) (h : (src.map (·.1)).Nodup) :
    (buildPlan le excl src dst wd).transfer.Nodup := by
  simp only [buildPlan]
  rw [(List.mergeSort_perm _ _).nodup_iff]
  refine List.Nodup.sublist ?_ h
  exact List.Sublist.map _ ((List.filter_sublist).trans (List.filter_sublist))

theorem delete_nodup {K} [DecidableEq K] (le : K → K → Bool) (excl : K → Bool)
    (src dst : List (K × FileMeta)) (wd : Bool) (h : (dst.map (·.1)).Nodup) :
    (buildPlan le excl src dst wd).delete.Nodup := by
  simp only [buildPlan]
  rw [(List.mergeSort_perm _ _).nodup_iff]
  split
  · exact List.Nodup.sublist List.filter_sublist h
  · exact List.nodup_nil

theorem skipped_eq {K} [DecidableEq K] (le : K → K → Bool) (excl : K → Bool)
    (src dst : List (K × FileMeta)) (wd : Bool) :
    (buildPlan le excl src dst wd).skipped =
      (src.filter fun pm => !excl pm.1 && !needsTransfer pm.2 (lookup dst pm.1)).length := by
  simp only [buildPlan, List.filter_filter]
  congr 2
  funext pm
  exact Bool.and_comm _ _

/-- every non-excluded source entry is either transferred or counted as skipped -/
theorem transfer_add_skipped {K} [DecidableEq K] (le : K → K → Bool) (excl : K → Bool)
    (src dst : List (K × FileMeta)) (wd : Bool) :
    (buildPlan le excl src dst wd).transfer.length + (buildPlan le excl src dst wd).skipped =
      (src.filter fun pm => !excl pm.1).length := by
  simp only [buildPlan, List.length_mergeSort, List.length_map]
  generalize src.filter (fun pm => !excl pm.1) = l
  induction l with
  | nil => rfl
  | cons h t ih =>
    simp only [List.filter_cons]
    cases hn : needsTransfer h.2 (lookup dst h.1) <;> simp <;> omega

theorem mem_delete {K} [DecidableEq K] (le : K → K → Bool) (excl : K → Bool)
    (src dst : List (K × FileMeta)) (wd : Bool) (p : K) :
    p ∈ (buildPlan le excl src dst wd).delete ↔
      wd = true ∧ p ∈ dst.map (·.1) ∧ lookup src p = none ∧ excl p = false := by
  simp only [buildPlan, List.mem_mergeSort]
  cases wd with
  | false => simp
  | true =>
    simp only [if_true, List.mem_filter, Bool.and_eq_true, Option.isNone_iff_eq_none, true_and]
    constructor
    · rintro ⟨h1, h2, h3⟩; exact ⟨h1, h2, by simpa using h3⟩
    · rintro ⟨h1, h2, h3⟩; exact ⟨h1, h2, by simp [h3]⟩

theorem lookup_none_iff {K V} [DecidableEq K] (m : List (K × V)) (k : K) :
    lookup m k = none ↔ k ∉ m.map (·.1) := by
  induction m with
  | nil => simp [lookup]
  | cons h t ih =>
    obtain ⟨k', v⟩ := h
    unfold lookup
    by_cases hk : k' = k
    · simp [hk]
    · simp only [hk, if_false, ih, List.map_cons, List.mem_cons, not_or]
      exact ⟨fun h => ⟨fun e => hk e.symm, h⟩, fun h => h.2⟩

/-! ### `is_excluded` -/

theorem isExcluded_iff (rel : List Char) (ex : List (List Char)) :
    isExcluded rel ex = true ↔
      ∃ pat ∈ ex, trimEndSlash pat ≠ [] ∧
        (if (trimEndSlash pat).contains '/' then Matches (trimEndSlash pat) rel
         else ∃ comp ∈ splitSlash rel, Matches (trimEndSlash pat) comp) := by
  simp only [isExcluded, List.any_eq_true]
  constructor
  · rintro ⟨pat, hin, h⟩
    refine ⟨pat, hin, ?_⟩
    by_cases he : (trimEndSlash pat).isEmpty
    · simp [he] at h
    · simp only [he] at h
      refine ⟨by simpa using he, ?_⟩
      by_cases hs : (trimEndSlash pat).contains '/'
      · simp only [hs, if_true] at h ⊢
        exact (globMatch_iff _ _).mp (by simpa using h)
      · simp only [hs] at h ⊢
        simp only [Bool.false_eq_true, if_false, List.any_eq_true] at h ⊢
        obtain ⟨c, hc, hm⟩ := h
        exact ⟨c, hc, (globMatch_iff _ _).mp hm⟩
  · rintro ⟨pat, hin, hne, h⟩
    refine ⟨pat, hin, ?_⟩
    have he : (trimEndSlash pat).isEmpty = false := by simpa using hne
    simp only [he]
    by_cases hs : (trimEndSlash pat).contains '/'
    · simp only [hs, if_true] at h ⊢
      simpa using (globMatch_iff _ _).mpr h
    · simp only [hs, Bool.false_eq_true, if_false, List.any_eq_true] at h ⊢
      obtain ⟨c, hc, hm⟩ := h
      exact ⟨c, hc, (globMatch_iff _ _).mpr hm⟩

end Copia.Plan
