import Copia.Model.HubTrace
import Copia.Lemmas.HubRefine2
/-! `soloPut` / `soloDelete` are executions of the transition system `HubConc.Step`. -/
namespace Copia.HubConc

theorem Reach.trans {S : Sys} {a b c : State} (h1 : Reach S a b) (h2 : Reach S b c) : Reach S a c := by
  induction h2 with
  | refl => exact h1
  | step _ st ih => exact .step ih st

theorem upd_same {α} (f : Nat → α) (k : Nat) (v : α) : upd f k v k = v := by simp [upd]

/-- the remaining chunks are written one `write` step at a time -/
theorem writes_reach (S : Sys) (i : Pid) (fd : Ino) :
    ∀ (todo done : List Chunk) (s : State), (S.req i).chunks = done ++ todo → s.pc i = .writing fd done.length →
      Reach S s (writes s i fd done.length todo) ∧
      (writes s i fd done.length todo).pc i = .writing fd (done.length + todo.length) ∧
      (writes s i fd done.length todo).lock = s.lock ∧ (writes s i fd done.length todo).dir = s.dir := by
  intro todo
  induction todo with
  | nil => intro done s _ hpc; exact ⟨.refl s, by simpa [writes] using hpc, rfl, rfl⟩
  | cons c cs ih =>
    intro done s hch hpc
    have hk : (S.req i).chunks[done.length]? = some c := by rw [hch]; simp
    have st := Step.write (S := S) s i fd done.length c hpc hk
    have := ih (done ++ [c]) { s with ino := upd s.ino fd (s.ino fd ++ [c]), pc := upd s.pc i (.writing fd (done.length+1)) }
      (by rw [hch]; simp) (by simp [upd_same])
    simp only [List.length_append, List.length_singleton] at this
    obtain ⟨r, hp, hl, hd⟩ := this
    refine ⟨Reach.trans (.step (.refl s) st) r, ?_, hl, hd⟩
    simp only [writes, List.length_cons]
    rw [hp]; congr 1; omega

theorem soloPut_reach (S : Sys) (s : State) (i : Pid) (h0 : s.pc i = .start) (hl : s.lock = none) :
    Reach S s (soloPut S s i).1 := by
  -- staging file
  have hcreated : Reach S s (created S s i).1 ∧ (created S s i).1.pc i = .writing (created S s i).2 0 ∧
      (created S s i).1.lock = none := by
    unfold created
    cases hd : s.dir (S.tmpOf i (S.req i).dst) with
    | none => exact ⟨.step (.refl s) (Step.createFresh s i h0 hd), by simp [upd_same], hl⟩
    | some n => exact ⟨.step (.refl s) (Step.createTrunc s i n h0 hd), by simp [upd_same], hl⟩
  obtain ⟨r1, hp1, hl1⟩ := hcreated
  obtain ⟨r2, hp2, hl2, _⟩ := writes_reach S i (created S s i).2 (S.req i).chunks [] (created S s i).1 (by simp) (by simpa using hp1)
  simp only [List.length_nil, Nat.zero_add] at r2 hp2 hl2
  have r12 := Reach.trans r1 r2
  unfold soloPut
  simp only []
  split
  · next hh =>
    have r3 := Reach.step r12 (Step.verifyOk (S := S) _ i _ _ hp2 rfl hh)
    have r4 := Reach.step r3 (Step.lock (S := S) _ i (created S s i).2 (by simp [upd_same]) (by simpa [hl1] using hl2))
    have r5 := Reach.step r4 (Step.readCur (S := S) _ i (created S s i).2 (by simp [upd_same]))
    split
    · next hc =>
      have r6 := Reach.step r5 (Step.commit (S := S) _ i (created S s i).2 _ (by simp [upd_same, curHash]) hc)
      exact Reach.step r6 (Step.unlock (S := S) _ i (by simp [upd_same]))
    · next hc =>
      have r6 := Reach.step r5 (Step.conflict (S := S) _ i (created S s i).2 _ (by simp [upd_same, curHash]) hc)
      exact Reach.step r6 (Step.unlock (S := S) _ i (by simp [upd_same]))
  · next hh =>
    exact .step r12 (Step.verifyBad (S := S) _ i _ _ hp2 rfl hh)

theorem soloDelete_reach (S : Sys) (s : State) (i : Pid) (h0 : s.pc i = .start) (hl : s.lock = none) :
    Reach S s (soloDelete S s i).1 := by
  have r1 := Reach.step (.refl s) (Step.dLock (S := S) s i h0 hl)
  have r2 := Reach.step r1 (Step.dRead (S := S) _ i (by simp [upd_same]))
  unfold soloDelete
  simp only []
  split
  · next hc =>
    have r3 := Reach.step r2 (Step.dUnlink (S := S) _ i _ (by simp [upd_same, curHash]) hc)
    exact Reach.step r3 (Step.unlock (S := S) _ i (by simp [upd_same]))
  · next hc =>
    have r3 := Reach.step r2 (Step.dKeep (S := S) _ i _ (by simp [upd_same, curHash]) hc)
    exact Reach.step r3 (Step.unlock (S := S) _ i (by simp [upd_same]))

end Copia.HubConc
