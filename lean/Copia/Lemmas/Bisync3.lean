import Copia.Lemmas.Bisync2
namespace Copia.Bisync
open Copia.Reconcile

variable {P C : Type} [DecidableEq P] [DecidableEq C]

/-- the winner / loser of a divergent edit -/
def winner (ge : C → C → Bool) (xa yb : C) : C := if ge xa yb then xa else yb
def loser (ge : C → C → Bool) (xa yb : C) : C := if ge xa yb then yb else xa

/-- what the action leaves at the path itself on (A, B), from the contents (x, y) it finds there -/
def resolve (ge : C → C → Bool) (act : Action) (x y : Option C) : Option C × Option C :=
  match act with
  | .noop | .convergeIdentical => (x, y)
  | .propagateAtoB => (x, x)
  | .propagateBtoA => (y, y)
  | .deleteA => (none, y)
  | .deleteB => (x, none)
  | .conflict .deleteVsModify => if x.isSome then (x, x) else (y, y)
  | .conflict .bothChanged =>
    match x, y with
    | some xa, some yb => (some (winner ge xa yb), some (winner ge xa yb))
    | _, _ => (x, y)

/-- the conflict-copy name an action writes, if any -/
def ccName (ge : C → C → Bool) (cname : P → C → P) (p : P) (act : Action) (x y : Option C) : Option P :=
  match act, x, y with
  | .conflict .bothChanged, some xa, some yb => some (cname p (loser ge xa yb))
  | _, _, _ => none

/-- the live sources an action copies from exist, and a delete finds the other side still without the path -/
def srcOK (act : Action) (x y : Option C) : Prop :=
  match act with
  | .propagateAtoB => x.isSome
  | .propagateBtoA => y.isSome
  | .deleteA => y = none
  | .deleteB => x = none
  | _ => True

theorem apply_local (ge : C → C → Bool) (cname : P → C → P) (a b : List (P × Fp C)) (l : Live P C) (p : P)
    (act : Action) (x y : Option C) (hx : get l.A p = x) (hy : get l.B p = y)
    (ha : lookup a p = x.map mkFp) (hb : lookup b p = y.map mkFp) (hs : srcOK act x y)
    (hcc : ∀ ln, ccName ge cname p act x y = some ln → ln ≠ p) :
    ∃ l' c, apply ge cname a b l p act = some (l', c) ∧
      (∀ q, q ≠ p → ccName ge cname p act x y ≠ some q → get l'.A q = get l.A q ∧ get l'.B q = get l.B q) ∧
      get l'.A p = (resolve ge act x y).1 ∧ get l'.B p = (resolve ge act x y).2 ∧
      (∀ ln xa yb, x = some xa → y = some yb → act = .conflict .bothChanged → ln = cname p (loser ge xa yb) →
        get l'.A ln = some (loser ge xa yb) ∧ get l'.B ln = some (loser ge xa yb)) := by
  cases act with
  | noop => exact ⟨l, false, rfl, fun _ _ _ => ⟨rfl, rfl⟩, hx, hy, by intros; simp_all⟩
  | convergeIdentical =>
    exact ⟨_, false, rfl, fun _ _ _ => ⟨rfl, rfl⟩, hx, hy, by intros; simp_all⟩
  | propagateAtoB =>
    obtain ⟨xa, rfl⟩ := Option.isSome_iff_exists.mp hs
    have happ : apply ge cname a b l p .propagateAtoB =
        some ({ l with B := ins l.B p xa, common := cInsOpt l.common p (lookup a p) }, false) := by
      simp [apply, copyLive_some _ _ _ _ _ hx]
    refine ⟨_, _, happ, ?_, by simpa [resolve] using hx, by simp [resolve, get_ins], by intros; simp_all⟩
    intro q hq _
    exact ⟨rfl, by simp [get_ins, hq]⟩
  | propagateBtoA =>
    obtain ⟨yb, rfl⟩ := Option.isSome_iff_exists.mp hs
    have happ : apply ge cname a b l p .propagateBtoA =
        some ({ l with A := ins l.A p yb, common := cInsOpt l.common p (lookup b p) }, false) := by
      simp [apply, copyLive_some _ _ _ _ _ hy]
    refine ⟨_, _, happ, ?_, by simp [resolve, get_ins], by simpa [resolve] using hy, by intros; simp_all⟩
    intro q hq _
    exact ⟨by simp [get_ins, hq], rfl⟩
  | deleteA =>
    have hyn : y = none := hs
    have happ : apply ge cname a b l p .deleteA =
        some ({ l with A := del l.A p, common := cDel l.common p }, false) := by
      simp [apply, hy, hyn]
    refine ⟨_, false, happ, ?_, by simp [resolve, get_del], by simpa [resolve] using hy, by intros; simp_all⟩
    intro q hq _
    exact ⟨by simp [get_del, hq], rfl⟩
  | deleteB =>
    have hxn : x = none := hs
    have happ : apply ge cname a b l p .deleteB =
        some ({ l with B := del l.B p, common := cDel l.common p }, false) := by
      simp [apply, hx, hxn]
    refine ⟨_, false, happ, ?_, by simpa [resolve] using hx, by simp [resolve, get_del], by intros; simp_all⟩
    intro q hq _
    exact ⟨rfl, by simp [get_del, hq]⟩
  | conflict k =>
    cases k with
    | deleteVsModify =>
      cases x with
      | some xa =>
        have happ : apply ge cname a b l p (.conflict .deleteVsModify) =
            some ({ l with B := ins l.B p xa, common := cInsOpt l.common p (lookup a p) }, false) := by
          simp [apply, ha, copyLive_some _ _ _ _ _ hx]
        refine ⟨_, _, happ, ?_, by simpa [resolve] using hx, by simp [resolve, get_ins], by intros; simp_all⟩
        intro q hq _
        exact ⟨rfl, by simp [get_ins, hq]⟩
      | none =>
        cases y with
        | some yb =>
          have happ : apply ge cname a b l p (.conflict .deleteVsModify) =
              some ({ l with A := ins l.A p yb, common := cInsOpt l.common p (lookup b p) }, false) := by
            simp [apply, ha, hb, copyLive_some _ _ _ _ _ hy]
          refine ⟨_, _, happ, ?_, by simp [resolve, get_ins], by simpa [resolve] using hy, by intros; simp_all⟩
          intro q hq _
          exact ⟨by simp [get_ins, hq], rfl⟩
        | none =>
          exact ⟨l, false, by simp [apply, ha, hb], fun _ _ _ => ⟨rfl, rfl⟩, by simpa [resolve] using hx,
            by simpa [resolve] using hy, by intros; simp_all⟩
    | bothChanged =>
      cases x with
      | none => exact ⟨l, false, by simp [apply, ha], fun _ _ _ => ⟨rfl, rfl⟩, by simpa [resolve] using hx,
          by simpa [resolve] using hy, by intros; simp_all⟩
      | some xa =>
        cases y with
        | none => exact ⟨l, false, by simp [apply, ha, hb], fun _ _ _ => ⟨rfl, rfl⟩, by simpa [resolve] using hx,
            by simpa [resolve] using hy, by intros; simp_all⟩
        | some yb =>
          have hne : cname p (loser ge xa yb) ≠ p := hcc _ (by simp [ccName])
          by_cases hg : ge xa yb = true
          · have hl : loser ge xa yb = yb := by simp [loser, hg]
            have hw : winner ge xa yb = xa := by simp [winner, hg]
            rw [hl] at hne
            have e1 : copyLive l.B p l.B (cname p yb) = some (ins l.B (cname p yb) yb) := copyLive_some _ _ _ _ _ hy
            have g1 : get (ins l.B (cname p yb) yb) p = some yb := by rw [get_ins]; simp [Ne.symm hne, hy]
            have e2 : copyLive (ins l.B (cname p yb) yb) p l.A (cname p yb) = some (ins l.A (cname p yb) yb) :=
              copyLive_some _ _ _ _ _ g1
            have g2 : get (ins l.A (cname p yb) yb) p = some xa := by rw [get_ins]; simp [Ne.symm hne, hx]
            have e3 : copyLive (ins l.A (cname p yb) yb) p (ins l.B (cname p yb) yb) p
                = some (ins (ins l.B (cname p yb) yb) p xa) := copyLive_some _ _ _ _ _ g2
            have happ : apply ge cname a b l p (.conflict .bothChanged) =
                some ({ A := ins l.A (cname p yb) yb, B := ins (ins l.B (cname p yb) yb) p xa,
                        common := cIns (cIns l.common p (mkFp xa)) (cname p yb) (mkFp yb) }, true) := by
              simp [apply, ha, hb, mkFp, hg, e1, e2, e3]
            refine ⟨_, _, happ, ?_, ?_, ?_, ?_⟩
            · intro q hq hqc
              have hq2 : q ≠ cname p yb := by
                intro e; apply hqc; simp [ccName, hl, e]
              exact ⟨by simp [get_ins, hq2], by simp [get_ins, hq, hq2]⟩
            · simp [resolve, hw, g2]
            · simp [resolve, hw, get_ins]
            · intro ln xa' yb' h1 h2 _ h4
              cases h1; cases h2
              rw [hl] at h4 ⊢; subst h4
              exact ⟨by simp [get_ins], by simp [get_ins, hne]⟩
          · have hg' : ge xa yb = false := by simpa using hg
            have hl : loser ge xa yb = xa := by simp [loser, hg']
            have hw : winner ge xa yb = yb := by simp [winner, hg']
            rw [hl] at hne
            have e1 : copyLive l.A p l.A (cname p xa) = some (ins l.A (cname p xa) xa) := copyLive_some _ _ _ _ _ hx
            have g1 : get (ins l.A (cname p xa) xa) p = some xa := by rw [get_ins]; simp [Ne.symm hne, hx]
            have e2 : copyLive (ins l.A (cname p xa) xa) p l.B (cname p xa) = some (ins l.B (cname p xa) xa) :=
              copyLive_some _ _ _ _ _ g1
            have g2 : get (ins l.B (cname p xa) xa) p = some yb := by rw [get_ins]; simp [Ne.symm hne, hy]
            have e3 : copyLive (ins l.B (cname p xa) xa) p (ins l.A (cname p xa) xa) p
                = some (ins (ins l.A (cname p xa) xa) p yb) := copyLive_some _ _ _ _ _ g2
            have happ : apply ge cname a b l p (.conflict .bothChanged) =
                some ({ A := ins (ins l.A (cname p xa) xa) p yb, B := ins l.B (cname p xa) xa,
                        common := cIns (cIns l.common p (mkFp yb)) (cname p xa) (mkFp xa) }, true) := by
              simp [apply, ha, hb, mkFp, hg', e1, e2, e3]
            refine ⟨_, _, happ, ?_, ?_, ?_, ?_⟩
            · intro q hq hqc
              have hq2 : q ≠ cname p xa := by
                intro e; apply hqc; simp [ccName, hl, e]
              exact ⟨by simp [get_ins, hq, hq2], by simp [get_ins, hq2]⟩
            · simp [resolve, hw, get_ins]
            · simp [resolve, hw, g2]
            · intro ln xa' yb' h1 h2 _ h4
              cases h1; cases h2
              rw [hl] at h4 ⊢; subst h4
              exact ⟨by simp [get_ins, hne], by simp [get_ins]⟩

end Copia.Bisync
