import Copia.Lemmas.Bisync11
import Copia.Spec.ReconcileTable
/-! Helper lemmas for the root-swap and conflict-outcome theorems of C06. -/
namespace Copia.Bisync
open Copia.Reconcile Copia.C18

variable {P C : Type} [DecidableEq P] [DecidableEq C]

theorem swapAct_swapAct (a : Action) : swapAct (swapAct a) = a := by cases a <;> rfl

theorem winner_comm (ge : C → C → Bool) (tot : ∀ a b, ge a b = true ∨ ge b a = true)
    (anti : ∀ a b, ge a b = true → ge b a = true → a = b) (xa yb : C) : winner ge yb xa = winner ge xa yb := by
  unfold winner
  cases h1 : ge xa yb <;> cases h2 : ge yb xa <;> simp
  · rcases tot xa yb with h | h <;> simp_all
  · exact (anti xa yb h1 h2).symm

theorem loser_comm (ge : C → C → Bool) (tot : ∀ a b, ge a b = true ∨ ge b a = true)
    (anti : ∀ a b, ge a b = true → ge b a = true → a = b) (xa yb : C) : loser ge yb xa = loser ge xa yb := by
  unfold loser
  cases h1 : ge xa yb <;> cases h2 : ge yb xa <;> simp
  · rcases tot xa yb with h | h <;> simp_all
  · exact anti xa yb h1 h2

theorem shape_swap (x y : Option C) (act : Action) (h : Shape x y act) : Shape y x (swapAct act) := by
  cases h with
  | noop => exact .noop
  | conv v h1 h2 => exact .conv v h2 h1
  | ab v h1 => exact .ba v h1
  | ba v h1 => exact .ab v h1
  | delA h1 => exact .delB h1
  | delB h1 => exact .delA h1
  | dvmA v h1 h2 => exact .dvmB v h2 h1
  | dvmB v h1 h2 => exact .dvmA v h2 h1
  | both xa yb h1 h2 => exact .both yb xa h2 h1

/-- executing the mirrored action on the mirrored pair gives the mirrored result -/
theorem resolve_swap (ge : C → C → Bool) (tot : ∀ a b, ge a b = true ∨ ge b a = true)
    (anti : ∀ a b, ge a b = true → ge b a = true → a = b) (x y : Option C) (act : Action) (h : Shape x y act) :
    resolve ge (swapAct act) y x = ((resolve ge act x y).2, (resolve ge act x y).1) := by
  cases h with
  | noop => simp [swapAct, resolve]
  | conv v h1 h2 => subst h1 h2; simp [swapAct, resolve]
  | ab v h1 => subst h1; simp [swapAct, resolve]
  | ba v h1 => subst h1; simp [swapAct, resolve]
  | delA h1 => subst h1; simp [swapAct, resolve]
  | delB h1 => subst h1; simp [swapAct, resolve]
  | dvmA v h1 h2 => subst h1 h2; simp [swapAct, resolve]
  | dvmB v h1 h2 => subst h1 h2; simp [swapAct, resolve]
  | both xa yb h1 h2 => subst h1 h2; simp [swapAct, resolve, winner_comm ge tot anti]

theorem ccName_swap (ge : C → C → Bool) (tot : ∀ a b, ge a b = true ∨ ge b a = true)
    (anti : ∀ a b, ge a b = true → ge b a = true → a = b) (cname : P → C → P) (p : P) (x y : Option C) (act : Action) :
    ccName ge cname p (swapAct act) y x = ccName ge cname p act x y := by
  cases act with
  | conflict k =>
    cases k with
    | bothChanged => cases x <;> cases y <;> simp [swapAct, ccName, loser_comm ge tot anti]
    | deleteVsModify => cases x <;> cases y <;> simp [swapAct, ccName]
  | _ => cases x <;> cases y <;> simp [swapAct, ccName]

/-- the state with the two roots named the other way round -/
def swapState (s : State P C) : State P C := { A := s.B, B := s.A, arch := s.arch }

theorem both_changed_decision (xa yb : C) (z : Option (Fp C)) (hne : xa ≠ yb)
    (h1 : z ≠ some (mkFp xa)) (h2 : z ≠ some (mkFp yb)) :
    reconcilePath (some (mkFp xa)) (some (mkFp yb)) z = .conflict .bothChanged := by
  simp only [reconcilePath, same_mkFp, hne, decide_false, Bool.false_eq_true, if_false]
  cases z with
  | none => rfl
  | some zv =>
    have e1 : Fp.same (mkFp xa) zv = false := by
      rw [Fp.same_eq_decide]; simp; intro e; exact h1 (by rw [e])
    have e2 : Fp.same (mkFp yb) zv = false := by
      rw [Fp.same_eq_decide]; simp; intro e; exact h2 (by rw [e])
    simp [e1, e2]

end Copia.Bisync
