import Copia.Lemmas.Bisync3
namespace Copia.Bisync
open Copia.Reconcile

variable {P C : Type} [DecidableEq P] [DecidableEq C]

/-- everything the plan's prefix `done` has written: its paths and its conflict-copy names -/
def touched (ge : C → C → Bool) (cname : P → C → P) (A0 B0 : Tree P C) (done : List (P × Action)) (q : P) : Prop :=
  (∃ act, (q, act) ∈ done) ∨ ∃ p act, (p, act) ∈ done ∧ ccName ge cname p act (get A0 p) (get B0 p) = some q

/-- No conflict-copy name produced by this run is a live path, a plan path, or another entry's name. -/
structure NoNameClash (ge : C → C → Bool) (cname : P → C → P) (A0 B0 : Tree P C) (plan : List (P × Action)) : Prop where
  notLive : ∀ p act ln, (p, act) ∈ plan → ccName ge cname p act (get A0 p) (get B0 p) = some ln →
    get A0 ln = none ∧ get B0 ln = none
  distinct : ∀ p act p' act' ln, (p, act) ∈ plan → (p', act') ∈ plan →
    ccName ge cname p act (get A0 p) (get B0 p) = some ln →
    ccName ge cname p' act' (get A0 p') (get B0 p') = some ln → p = p'

/-- state of the live trees after the prefix `done` of the plan -/
structure RunInv (ge : C → C → Bool) (cname : P → C → P) (A0 B0 : Tree P C) (done : List (P × Action)) (l : Live P C) : Prop where
  untouched : ∀ q, ¬ touched ge cname A0 B0 done q → get l.A q = get A0 q ∧ get l.B q = get B0 q
  atPath : ∀ p act, (p, act) ∈ done →
    get l.A p = (resolve ge act (get A0 p) (get B0 p)).1 ∧ get l.B p = (resolve ge act (get A0 p) (get B0 p)).2
  atCopy : ∀ p act ln, (p, act) ∈ done → ccName ge cname p act (get A0 p) (get B0 p) = some ln →
    ∃ xa yb, get A0 p = some xa ∧ get B0 p = some yb ∧
      get l.A ln = some (loser ge xa yb) ∧ get l.B ln = some (loser ge xa yb)

theorem ccName_some (ge : C → C → Bool) (cname : P → C → P) (p : P) (act : Action) (x y : Option C) (ln : P)
    (h : ccName ge cname p act x y = some ln) :
    ∃ xa yb, x = some xa ∧ y = some yb ∧ act = .conflict .bothChanged ∧ ln = cname p (loser ge xa yb) := by
  unfold ccName at h
  split at h
  · next xa yb => exact ⟨xa, yb, rfl, rfl, rfl, by simpa using h.symm⟩
  · cases h

/-- the sources an action copies from exist, when the action is what `reconcile_path` chose for the scanned values -/
theorem srcOK_of_reconcile (x y : Option C) (z : Option (Fp C)) (act : Action)
    (h : act = reconcilePath (x.map mkFp) (y.map mkFp) z) : srcOK act x y := by
  subst h
  cases x with
  | none =>
    cases y with
    | none => simp [reconcilePath, srcOK]
    | some yb =>
      cases z with
      | none => simp [reconcilePath, srcOK]
      | some zv => simp only [reconcilePath, Option.map_some, Option.map_none]; split <;> simp [srcOK]
  | some xa =>
    cases y with
    | none =>
      cases z with
      | none => simp [reconcilePath, srcOK]
      | some zv => simp only [reconcilePath, Option.map_some, Option.map_none]; split <;> simp [srcOK]
    | some yb =>
      simp only [reconcilePath, Option.map_some]
      split
      · split
        · split <;> simp [srcOK]
        · simp [srcOK]
      · cases z with
        | none => simp [srcOK]
        | some zv =>
          simp only []
          cases h1 : !Fp.same (mkFp xa) zv <;> cases h2 : !Fp.same (mkFp yb) zv <;> simp [srcOK]

/-- one step of the apply loop under NoNameClash: the next plan entry finds its path untouched, `apply`
succeeds, and the run invariant extends by that entry -/
theorem run_step (ge : C → C → Bool) (cname : P → C → P) (A0 B0 : Tree P C) (z : P → Option (Fp C))
    (plan : List (P × Action))
    (hact : ∀ p act, (p, act) ∈ plan → act = reconcilePath ((get A0 p).map mkFp) ((get B0 p).map mkFp) (z p))
    (hlive : ∀ p act, (p, act) ∈ plan → get A0 p ≠ none ∨ get B0 p ≠ none)
    (hnd : (plan.map (·.1)).Nodup) (nnc : NoNameClash ge cname A0 B0 plan)
    (done rest : List (P × Action)) (p : P) (act : Action) (l : Live P C)
    (hp : plan = done ++ (p, act) :: rest) (inv : RunInv ge cname A0 B0 done l) :
    ∃ l' c, apply ge cname (scan A0) (scan B0) l p act = some (l', c) ∧
      RunInv ge cname A0 B0 (done ++ [(p, act)]) l' ∧ get l.A p = get A0 p ∧ get l.B p = get B0 p := by
    have hmem : (p, act) ∈ plan := by rw [hp]; simp
    have hdone_mem : ∀ x, x ∈ done → x ∈ plan := fun x hx => by rw [hp]; exact List.mem_append_left _ hx
    -- p is a fresh path
    have hpfresh : ¬ touched ge cname A0 B0 done p := by
      rintro (⟨act', h'⟩ | ⟨p', act', h', hc⟩)
      · rw [hp, List.map_append, List.nodup_append] at hnd
        exact hnd.2.2 p (List.mem_map_of_mem (f := (·.1)) h') p (by simp) rfl
      · have := nnc.notLive p' act' p (hdone_mem _ h') hc
        rcases hlive p act hmem with h1 | h1
        · exact h1 this.1
        · exact h1 this.2
    obtain ⟨hxA, hyB⟩ := inv.untouched p hpfresh
    have hsrc := srcOK_of_reconcile (get A0 p) (get B0 p) (z p) act (hact p act hmem)
    have hcc : ∀ ln, ccName ge cname p act (get A0 p) (get B0 p) = some ln → ln ≠ p := by
      intro ln hln e
      have := nnc.notLive p act ln hmem hln
      rw [e] at this
      rcases hlive p act hmem with h1 | h1
      · exact h1 this.1
      · exact h1 this.2
    obtain ⟨l', c, happ, hloc, hpA, hpB, hcopy⟩ :=
      apply_local ge cname (scan A0) (scan B0) l p act (get A0 p) (get B0 p) hxA hyB
        (lookup_scan A0 p) (lookup_scan B0 p) hsrc hcc
    refine ⟨l', c, happ, ⟨?_, ?_, ?_⟩, hxA, hyB⟩
    · -- untouched
      intro q hq
      have hq1 : ¬ touched ge cname A0 B0 done q := by
        rintro (⟨a', h'⟩ | ⟨p', a', h', hc⟩)
        · exact hq (Or.inl ⟨a', List.mem_append_left _ h'⟩)
        · exact hq (Or.inr ⟨p', a', List.mem_append_left _ h', hc⟩)
      have hq2 : q ≠ p := fun e => hq (Or.inl ⟨act, by simp [e]⟩)
      have hq3 : ccName ge cname p act (get A0 p) (get B0 p) ≠ some q :=
        fun e => hq (Or.inr ⟨p, act, by simp, e⟩)
      obtain ⟨h1, h2⟩ := hloc q hq2 hq3
      obtain ⟨h3, h4⟩ := inv.untouched q hq1
      exact ⟨h1.trans h3, h2.trans h4⟩
    · -- atPath
      intro p' act' hm0
      rcases List.mem_append.mp hm0 with hm | hm
      · have hne : p' ≠ p := by
          intro e; rw [e] at hm; exact hpfresh (Or.inl ⟨act', hm⟩)
        have hnc : ccName ge cname p act (get A0 p) (get B0 p) ≠ some p' := by
          intro e
          have := nnc.notLive p act p' hmem e
          rcases hlive p' act' (hdone_mem _ hm) with h1 | h1
          · exact h1 this.1
          · exact h1 this.2
        obtain ⟨h1, h2⟩ := hloc p' hne hnc
        obtain ⟨h3, h4⟩ := inv.atPath p' act' hm
        exact ⟨h1.trans h3, h2.trans h4⟩
      · simp only [List.mem_singleton, Prod.mk.injEq] at hm
        obtain ⟨rfl, rfl⟩ := hm
        exact ⟨hpA, hpB⟩
    · -- atCopy
      intro p' act' ln hm0 hc
      rcases List.mem_append.mp hm0 with hm | hm
      · obtain ⟨xa, yb, e1, e2, h3, h4⟩ := inv.atCopy p' act' ln hm hc
        have hne : ln ≠ p := by
          intro e
          have := nnc.notLive p' act' ln (hdone_mem _ hm) hc
          rw [e] at this
          rcases hlive p act hmem with h1 | h1
          · exact h1 this.1
          · exact h1 this.2
        have hnc : ccName ge cname p act (get A0 p) (get B0 p) ≠ some ln := by
          intro e
          have := nnc.distinct p act p' act' ln hmem (hdone_mem _ hm) e hc
          rw [← this] at hm
          exact hpfresh (Or.inl ⟨act', hm⟩)
        obtain ⟨h1, h2⟩ := hloc ln hne hnc
        exact ⟨xa, yb, e1, e2, h1.trans h3, h2.trans h4⟩
      · simp only [List.mem_singleton, Prod.mk.injEq] at hm
        obtain ⟨rfl, rfl⟩ := hm
        obtain ⟨xa, yb, e1, e2, e3, e4⟩ := ccName_some ge cname p' act' _ _ ln hc
        obtain ⟨h1, h2⟩ := hcopy ln xa yb e1 e2 e3 e4
        exact ⟨xa, yb, e1, e2, h1, h2⟩


theorem run_plan (ge : C → C → Bool) (cname : P → C → P) (A0 B0 : Tree P C) (z : P → Option (Fp C))
    (plan : List (P × Action))
    (hact : ∀ p act, (p, act) ∈ plan → act = reconcilePath ((get A0 p).map mkFp) ((get B0 p).map mkFp) (z p))
    (hlive : ∀ p act, (p, act) ∈ plan → get A0 p ≠ none ∨ get B0 p ≠ none)
    (hnd : (plan.map (·.1)).Nodup) (nnc : NoNameClash ge cname A0 B0 plan) :
    ∀ (todo done : List (P × Action)) (l : Live P C) (n : Nat), plan = done ++ todo →
      RunInv ge cname A0 B0 done l →
      ∃ l' n', applyAllPartial ge cname (scan A0) (scan B0) todo l n = (l', n', true) ∧
        RunInv ge cname A0 B0 plan l' := by
  intro todo
  induction todo with
  | nil =>
    intro done l n hp inv
    simp only [List.append_nil] at hp
    subst hp
    exact ⟨l, n, rfl, inv⟩
  | cons e rest ih =>
    intro done l n hp inv
    obtain ⟨p, act⟩ := e
    obtain ⟨l', c, happ, inv', _, _⟩ := run_step ge cname A0 B0 z plan hact hlive hnd nnc done rest p act l hp inv
    have hstep : applyAllPartial ge cname (scan A0) (scan B0) ((p, act) :: rest) l n =
        applyAllPartial ge cname (scan A0) (scan B0) rest l' (if c then n + 1 else n) := by
      simp [applyAllPartial, happ]
    rw [hstep]
    exact ih (done ++ [(p, act)]) l' _ (by rw [hp]; simp) inv'

end Copia.Bisync
