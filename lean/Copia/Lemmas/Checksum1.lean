import Copia.Spec.Checksum
namespace Copia.Checksum
open Copia

theorem specA_snoc (xs : List Nat) (y : Nat) : specA (xs ++ [y]) = specA xs + y := by
  induction xs with
  | nil => simp [specA]
  | cons z zs ih => simp [specA, ih]; omega

theorem specB_snoc (xs : List Nat) (y : Nat) : specB (xs ++ [y]) = specB xs + specA xs + y := by
  induction xs with
  | nil => simp [specB, specA]
  | cons z zs ih => simp [specB, specA, ih, List.length_append, Nat.add_mul]; omega

theorem specB_slide (x : Nat) (xs : List Nat) (y : Nat) :
    specB (xs ++ [y]) + (xs.length + 1) * x = specB (x :: xs) + (specA xs + y) := by
  rw [specB_snoc]; simp [specB]; omega

theorem Bytes.tail {x : Nat} {xs : List Nat} (h : Bytes (x :: xs)) : Bytes xs :=
  fun z hz => h z (List.mem_cons_of_mem _ hz)

theorem Bytes.head {x : Nat} {xs : List Nat} (h : Bytes (x :: xs)) : x < 256 :=
  h x (List.mem_cons_self ..)

theorem Bytes.snoc {xs : List Nat} {y : Nat} (h : Bytes xs) (hy : y < 256) : Bytes (xs ++ [y]) := by
  intro z hz
  simp at hz
  rcases hz with hz | hz
  · exact h z hz
  · omega

theorem specA_le (w : List Nat) (h : Bytes w) : specA w ≤ 255 * w.length := by
  induction w with
  | nil => simp [specA]
  | cons x xs ih =>
    have := ih h.tail
    have := h.head
    simp [specA]; omega

theorem specB_le (w : List Nat) (h : Bytes w) : specB w ≤ 255 * (w.length * w.length) := by
  induction w with
  | nil => simp [specB]
  | cons x xs ih =>
    have h1 := ih h.tail
    have hx := h.head
    have h2 : (xs.length + 1) * x ≤ (xs.length + 1) * 255 := Nat.mul_le_mul_left _ (by omega)
    simp only [specB, List.length_cons]
    have h3 : (xs.length + 1) * (xs.length + 1) = xs.length * xs.length + 2 * xs.length + 1 := by
      simp [Nat.add_mul, Nat.mul_add]; omega
    rw [h3]
    generalize xs.length * xs.length = N at *
    omega

theorem specB_le_max (w : List Nat) (h : Bytes w) (hl : w.length ≤ 65536) :
    specB w ≤ 255 * (65536 * 65536) := by
  have := specB_le w h
  have h2 : w.length * w.length ≤ 65536 * 65536 := Nat.mul_le_mul hl hl
  omega

theorem sumLoop_eq (w : List Nat) : ∀ (k a b : Nat), k = w.length → w.length < W64 →
    a + specA w < W64 → b + specB w < W64 →
    sumLoop w k a b = (a + specA w, b + specB w) := by
  induction w with
  | nil => intro k a b _ _ _ _; simp [sumLoop, specA, specB]
  | cons x xs ih =>
    intro k a b hk hl ha hb
    simp only [specA, specB, List.length_cons] at *
    have hkx : k * x ≤ (xs.length + 1) * x := by rw [hk]; exact Nat.le_refl _
    have e1 : add64 a x = a + x := Nat.mod_eq_of_lt (by omega)
    have e2 : mul64 k x = k * x := Nat.mod_eq_of_lt (by omega)
    have e3 : add64 b (k * x) = b + k * x := Nat.mod_eq_of_lt (by omega)
    unfold sumLoop
    rw [e1, e2, e3, ih (k - 1) (a + x) (b + k * x) (by omega) (by omega) (by omega) (by rw [hk]; omega)]
    rw [hk]; simp; omega
